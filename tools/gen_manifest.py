#!/usr/bin/env python3
"""Regenerate MANIFEST.json from contracts/meta.py (claimed properties = those with tasks)."""
import json, os, sys
ROOT = os.path.dirname(os.path.dirname(os.path.abspath(__file__)))
sys.path.insert(0, ROOT)
from contracts import meta

props = [json.loads(l) for l in open(os.path.join(ROOT, "properties.jsonl"))]
claimed = meta.CLAIMED
man = {
    "version": 1,
    "setup_cmd": "python3-vt -c \"import z3, numpy; print('pyvc tooling ok', z3.get_version_string())\"",
    "hooks": {
        "guard": "VOPY_VERIF",
        "enable": "no hooks: contracts are sidecars under /verif/contracts; the checker reads /repo sources as text on every run",
        "baseline_off_cmd": "cd /repo && /venv/bin/python -m pytest -ra -q -p no:cacheprovider --timeout=900 --continue-on-collection-errors",
        "source_commits": [],
        "add_only": True,
    },
    "engines": [{
        "name": "pyvc",
        "path": "pyvc/",
        "serves_properties": sorted(claimed),
        "kind_free_text": "contract-based deductive verification: sidecar contracts on the real functions; VCs generated from the AST of /repo's current sources by symbolic execution and discharged by z3 5.1.0 (cvc5 1.0.3 for z3's unknowns); counter-models replayed on the real code under /venv/bin/python",
    }],
    "checks": [],
    "not_applicable": [],
    "notes": "Exit codes of every check: 0 all obligations discharged (or only listed known findings remain), 1 counter-model (VIOLATION line), 2 undecided, 3 checker broke. Bounded native stand-ins run in both tiers (the C04 tail sums in the thorough tier and on demand), are reported under coverage.bounded_standins and printed as BOUNDED-CHECK / BOUNDED-FALLBACK lines, and are never counted in discharged; a stand-in that finds a failing input reports a VIOLATION whose replay file holds its output.",
}
for p in props:
    pid = p["id"]
    if pid in claimed:
        info = meta.PROPS[pid]
        man["checks"].append({
            "property_id": pid,
            "quick_cmd": "./check %s --tier quick" % pid,
            "thorough_cmd": "./check %s --tier thorough" % pid,
            "evidence_file": "evidence/%s.json" % pid,
            "replay_cmd_template": "./check --replay {path}",
            "engine": "pyvc",
            "level_claimed": {
                "category": "proof",
                "text": info.get("level_text", "") + ((" DEPENDENCIES discharged inside this check (obligations of other properties' tasks that this property's lemma / contracts consume; task regex : clause regex): " + "; ".join("%s : %s" % d for d in info["depends"])) if info.get("depends") else ""),
                "design_ref": "DESIGN.md section 4/" + pid,
            },
            "level_note": "; ".join(info.get("assumptions", []) + ["NOT DECIDED: " + x for x in info.get("not_decided", [])]),
            "technique": info.get("technique", "contract-based deductive verification (sidecar contracts, AST->z3 VC generation, z3/cvc5)"),
        })
    else:
        man["not_applicable"].append({"property_id": pid, "reason": meta.NOT_APPLICABLE.get(pid, "contracts for this property are not built yet in this tree")})
json.dump(man, open(os.path.join(ROOT, "MANIFEST.json"), "w"), indent=1)
print("claimed:", sorted(claimed))
