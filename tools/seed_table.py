#!/usr/bin/env python3
"""seeded/RESULTS.json -> seeded/RESULTS.md"""
import json, os
ROOT = os.path.dirname(os.path.dirname(os.path.abspath(__file__)))
res = json.load(open(os.path.join(ROOT, "seeded", "RESULTS.json")))
lines = ["# Seeded changes vs checks", "", "| seed | change (summary) | property: outcome |", "|---|---|---|"]
n_det = n_und = n_miss = 0
for sd in sorted(res):
    meta = json.load(open(os.path.join(ROOT, "seeded", sd, "meta.json")))
    cells = []
    best = "missed"
    for pr, r in res[sd].items():
        if isinstance(r, str):
            cells.append("%s: %s" % (pr, r)); continue
        if r["exit"] == 1:
            cells.append("%s: **VIOLATION** x%d (%d replay-confirmed)" % (pr, r["violations"], r["confirmed_replays"])); best = "detected"
        elif r["exit"] == 2:
            cells.append("%s: undecided (changed code outside the subset / solver unknown)" % pr)
            if best != "detected": best = "undecided"
        elif r["exit"] == 0:
            cells.append("%s: not detected" % pr)
        else:
            cells.append("%s: checker error" % pr)
    n_det += best == "detected"; n_und += best == "undecided"; n_miss += best == "missed"
    lines.append("| %s | %s | %s |" % (sd, str(meta.get("summary", ""))[:160].replace("|", "/").replace("\n", " "), "; ".join(cells)))
lines += ["", "detected (exit 1 on some owning property): %d; undecided only (exit 2): %d; not detected: %d; total %d" % (n_det, n_und, n_miss, len(res))]
open(os.path.join(ROOT, "seeded", "RESULTS.md"), "w").write("\n".join(lines) + "\n")
print(lines[-1])
