#!/bin/sh
# run every claimed check (default tier quick) and print the summaries
cd "$(dirname "$0")/.." || exit 3
tier=${1:-quick}
rc=0
for p in $(python3 -c "import json; print(' '.join(c['property_id'] for c in json.load(open('MANIFEST.json'))['checks']))"); do
  out=$(./check $p --tier $tier 2>&1); e=$?
  echo "$out" | grep -E "^(SUMMARY|VIOLATION|UNDECIDED|CHECKER-ERROR)" | cut -c1-230
  [ $e -ne 0 ] && rc=$e
done
exit $rc
