#!/usr/bin/env python3
"""Run the checks against every seeded change (on a scratch copy of /repo, never /repo itself).
usage: tools/run_seeds.py [seed ids...]   -> prints one line per seed, writes seeded/RESULTS.json"""
import json, os, shutil, subprocess, sys, time
ROOT = os.path.dirname(os.path.dirname(os.path.abspath(__file__)))
OWN = "--own" in sys.argv   # only the seed's own property (dependencies make the owning contracts part of it)
seeds = [a for a in sys.argv[1:] if not a.startswith("--")] or sorted(os.listdir(os.path.join(ROOT, "seeded")))
seeds = [s for s in seeds if os.path.isdir(os.path.join(ROOT, "seeded", s))]
man = json.load(open(os.path.join(ROOT, "MANIFEST.json")))
claimed = {c["property_id"] for c in man["checks"]}
resf = os.path.join(ROOT, "seeded", "RESULTS.json")
results = json.load(open(resf)) if os.path.exists(resf) else {}
for sd in seeds:
    meta = json.load(open(os.path.join(ROOT, "seeded", sd, "meta.json")))
    prop = meta["property"]
    extra = [] if OWN else meta.get("also_check", [])
    scratch = "/var/tmp/seedrun-" + sd
    shutil.rmtree(scratch, ignore_errors=True)
    os.makedirs(scratch)
    shutil.copytree("/repo/vopy", scratch + "/vopy")
    p = subprocess.run(["patch", "-p1", "-s", "-i", os.path.join(ROOT, "seeded", sd, "patch.diff")], cwd=scratch, capture_output=True, text=True)
    if p.returncode != 0:
        print(sd, "PATCH FAILED", p.stdout, p.stderr); continue
    row = {}
    for pr in [prop] + extra:
        if pr not in claimed:
            row[pr] = "not-claimed"; continue
        t0 = time.time()
        env = dict(os.environ); env["PYVC_REPO"] = scratch
        q = subprocess.run([os.path.join(ROOT, "check"), pr, "--no-evidence"], env=env, capture_output=True, text=True, cwd=ROOT)
        lines = [l for l in q.stdout.splitlines() if l.startswith("VIOLATION")]
        conf = [l for l in lines if "no-failing-input-found" not in l]
        row[pr] = {"exit": q.returncode, "violations": len(lines), "confirmed_replays": len(conf),
                   "first": (conf or lines or [""])[0][:260], "wall": round(time.time() - t0, 1),
                   "undecided": sum(1 for l in q.stdout.splitlines() if l.startswith("UNDECIDED")),
                   "errors": [l[:200] for l in q.stdout.splitlines() if l.startswith("CHECKER-ERROR")][:3]}
    shutil.rmtree(scratch, ignore_errors=True)
    results[sd] = row
    print(sd, json.dumps(row)[:400])
    json.dump(results, open(resf, "w"), indent=1)
