#!/bin/sh
# usage: tools/with_seed.sh <seed-id|patch file> <check args...>   — runs ./check against a scratch copy of /repo/vopy with the patch applied
cd "$(dirname "$0")/.." || exit 3
sd=$1; shift
pf=$sd; [ -d "seeded/$sd" ] && pf=seeded/$sd/patch.diff
pf=$(realpath "$pf")
scratch=/var/tmp/withseed-$$
rm -rf $scratch; mkdir -p $scratch && cp -r /repo/vopy $scratch/vopy && (cd $scratch && patch -p1 -s -i "$pf") || { echo PATCH FAILED; rm -rf $scratch; exit 3; }
PYVC_REPO=$scratch ./check "$@" --no-evidence; e=$?
rm -rf $scratch
exit $e
