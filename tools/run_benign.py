#!/usr/bin/env python3
"""Run the checks against every behaviour-preserving refactor under benign/ (or, with --dir neutral, every property-neutral
behaviour change under neutral/) (on a scratch copy of /repo): the expected outcome
is exit 0 everywhere.  Exit 2 (construct outside the verified subset) is tolerated but listed; exit 1 is a false alarm.
usage: tools/run_benign.py [ids...]   -> prints one line per change, writes benign/RESULTS.json"""
import json, os, shutil, subprocess, sys, time
ROOT = os.path.dirname(os.path.dirname(os.path.abspath(__file__)))
SUITE = "benign"
if "--dir" in sys.argv:
    i = sys.argv.index("--dir"); SUITE = sys.argv[i + 1]; del sys.argv[i:i + 2]
ids = sys.argv[1:] or sorted(os.listdir(os.path.join(ROOT, SUITE)))
ids = [s for s in ids if os.path.isdir(os.path.join(ROOT, SUITE, s))]
sys.path.insert(0, ROOT)
from contracts import meta as M
resf = os.path.join(ROOT, SUITE, "RESULTS.json")
results = json.load(open(resf)) if os.path.exists(resf) else {}
for sd in ids:
    meta = json.load(open(os.path.join(ROOT, SUITE, sd, "meta.json")))
    prop = meta["property"]
    # the property itself and every property that depends on tasks of it
    props = [prop] + sorted(p for p, d in M.DEPENDS.items() if any(t.startswith(prop + "/") or t.startswith("C0[23]") and prop in ("C02", "C03") for t, _ in d) and p != prop)
    props += [p for p in meta.get("also_check", []) if p not in props]
    scratch = "/var/tmp/benignrun-" + sd
    shutil.rmtree(scratch, ignore_errors=True)
    os.makedirs(scratch)
    shutil.copytree("/repo/vopy", scratch + "/vopy")
    p = subprocess.run(["patch", "-p1", "-s", "-i", os.path.join(ROOT, SUITE, sd, "patch.diff")], cwd=scratch, capture_output=True, text=True)
    if p.returncode != 0:
        print(sd, "PATCH FAILED", p.stdout, p.stderr); shutil.rmtree(scratch, ignore_errors=True); continue
    row = {}
    for pr in props:
        t0 = time.time()
        env = dict(os.environ); env["PYVC_REPO"] = scratch
        q = subprocess.run([os.path.join(ROOT, "check"), pr, "--no-evidence"], env=env, capture_output=True, text=True, cwd=ROOT)
        lines = q.stdout.splitlines()
        row[pr] = {"exit": q.returncode, "violations": sum(l.startswith("VIOLATION") for l in lines),
                   "undecided": [l[:220] for l in lines if l.startswith("UNDECIDED")][:4],
                   "errors": [l[:220] for l in lines if l.startswith("CHECKER-ERROR")][:3],
                   "first_violation": next((l[:260] for l in lines if l.startswith("VIOLATION")), ""), "wall": round(time.time() - t0, 1)}
    shutil.rmtree(scratch, ignore_errors=True)
    results[sd] = row
    print(sd, " ".join("%s:e%d" % (k, v["exit"]) for k, v in row.items()), "| " + "; ".join((v["first_violation"] or (v["undecided"] + v["errors"] + [""])[0])[:160] for v in row.values() if v["exit"]))
    json.dump(results, open(resf, "w"), indent=1)
