#!/usr/bin/env python3
"""Write contracts/EXPECTED_COUNTS.json from the evidence of the last runs (vacuity guard (a):
a run that generates fewer obligations than recorded here is reported as 'checker broke')."""
import json, glob, os
ROOT = os.path.dirname(os.path.dirname(os.path.abspath(__file__)))
out = {}
for f in sorted(glob.glob(os.path.join(ROOT, "evidence", "*.json"))):
    e = json.load(open(f)); c = e["coverage"]
    n = c["obligations"] + len(c.get("known_findings", []))
    out.setdefault(e["property_id"], {})[e["tier"]] = n
    out[e["property_id"]].setdefault("quick", n)
json.dump(out, open(os.path.join(ROOT, "contracts", "EXPECTED_COUNTS.json"), "w"), indent=1)
print(out)
