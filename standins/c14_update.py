# bounded stand-in for C14: design_space.update / region updates vs the closed forms, random subsets, scales and histories.  NOT a proof.
import json, os, sys, warnings
warnings.filterwarnings("ignore")
import numpy as np
from vopy.design_space import FixedPointsDesignSpace
from vopy.confidence_region import RectangularConfidenceRegion
rng = np.random.default_rng(int(os.environ.get("VERIF_SEED", "0") or 0))
bad, n, msgs = 0, 0, []


class Model:
    def __init__(self, mu, cov):
        self.mu, self.cov = mu, cov

    def predict(self, X):
        idx = [int(round(v)) for v in np.atleast_2d(X)[:, -1]]
        return self.mu[idx], self.cov[idx]


for kind in ("hyperrectangle", "hyperellipsoid"):
    for trial in range(60):
        N, m = int(rng.integers(2, 7)), int(rng.integers(2, 4))
        pts = np.hstack([rng.normal(size=(N, 2)), np.arange(N, dtype=float)[:, None]])
        ds = FixedPointsDesignSpace(pts, m, confidence_type=kind)
        mu = rng.normal(size=(N, m))
        A = rng.normal(size=(N, m, m)); cov = A @ np.transpose(A, (0, 2, 1)) + 0.1 * np.eye(m)
        before = [(r.lower.copy(), r.upper.copy()) if kind == "hyperrectangle" else (r.center.copy(), r.sigma.copy(), r.alpha) for r in ds.confidence_regions]
        k = int(rng.integers(1, N + 1))
        idx = [int(i) for i in rng.choice(N, size=k, replace=False)]
        form = rng.choice(["scalar", "vec", "perdesign"]) if kind == "hyperrectangle" else "scalar"
        scale = np.array(float(rng.uniform(0.5, 3))) if form == "scalar" else (rng.uniform(0.5, 3, size=m) if form == "vec" else rng.uniform(0.5, 3, size=(k, m)))
        ds.update(Model(mu, cov), scale, idx)
        for i in range(N):
            r = ds.confidence_regions[i]
            n += 1
            if i in idx:
                j = idx.index(i)
                if kind == "hyperrectangle":
                    sc = scale if form == "scalar" else (scale if form == "vec" else scale[j])
                    half = np.sqrt(np.diag(cov[i])) * sc
                    ok = np.allclose(r.lower, mu[i] - half) and np.allclose(r.upper, mu[i] + half) and np.all(r.lower <= r.upper)
                else:
                    ok = np.allclose(r.center, mu[i]) and np.allclose(r.sigma, cov[i]) and np.isclose(float(np.asarray(r.alpha).reshape(-1)[0]), float(scale))
            else:
                b = before[i]
                ok = (np.array_equal(r.lower, b[0]) and np.array_equal(r.upper, b[1])) if kind == "hyperrectangle" else (np.array_equal(r.center, b[0]) and np.array_equal(r.sigma, b[1]))
            if not ok:
                bad += 1; msgs.append("%s design %d (updated=%s, scale form %s)" % (kind, i, i in idx, form))
# iterative intersection
for trial in range(200):
    m = int(rng.integers(2, 4))     # (m = 1 is outside every property's range: np.diag of a squeezed 1x1 covariance raises)
    lo, up = rng.normal(size=m), None
    up = lo + rng.uniform(0.1, 2, size=m)
    r = RectangularConfidenceRegion(m, lo.copy(), up.copy(), intersect_iteratively=True)
    mean = rng.normal(size=m); cov = np.diag(rng.uniform(0.05, 2, size=m)); sc = float(rng.uniform(0.5, 2))
    nl, nu = mean - np.sqrt(np.diag(cov)) * sc, mean + np.sqrt(np.diag(cov)) * sc
    r.update(mean, cov, np.array(sc))
    il, iu = np.maximum(lo, nl), np.minimum(up, nu)
    n += 1
    if np.all(il < iu):
        ok = np.allclose(r.lower, il) and np.allclose(r.upper, iu)
    elif np.any(il > iu):
        ok = np.allclose(r.lower, nl) and np.allclose(r.upper, nu)
    else:
        ok = True     # touching rectangles: either outcome accepted
    if not (ok and np.all(r.lower <= r.upper)):
        bad += 1; msgs.append("intersect: %s %s with %s %s -> %s %s" % (lo, up, nl, nu, r.lower, r.upper))
print("\n".join(msgs[:6]))
print("STANDIN " + json.dumps({"checks": n, "violations": bad}))
sys.exit(1 if bad else 0)
