# bounded stand-in for C11: check_dominates vs an LP oracle (soundness for every cone, completeness for 2x2 cones with a margin),
# is_pt_in_extended_polytope vs its exact vertex/segment decision.  NOT a proof.
import json, os, sys, itertools, warnings
warnings.filterwarnings("ignore")
import numpy as np
from scipy.optimize import linprog
from vopy.order import ConeTheta2DOrder, ConeOrder3D, PolyhedralConeOrder
from vopy.ordering_cone import OrderingCone
from vopy.confidence_region import RectangularConfidenceRegion, confidence_region_check_dominates
from vopy.utils.utils import is_pt_in_extended_polytope
rng = np.random.default_rng(int(os.environ.get("VERIF_SEED", "0") or 0))
bad, n, msgs = 0, 0, []


def margin(W, v, lo, up):
    """max t such that some z in [lo, up] has W (v - z) >= t"""
    m = len(v)
    c = np.zeros(m + 1); c[-1] = -1.0
    A = np.hstack([W, np.ones((W.shape[0], 1))]); b = W @ v
    r = linprog(c, A_ub=A, b_ub=b, bounds=[(lo[i], up[i]) for i in range(m)] + [(None, None)], method="highs")
    return r.x[-1] if r.status == 0 else -np.inf


orders = [ConeTheta2DOrder(t) for t in (45, 60, 90, 120)] + [PolyhedralConeOrder(OrderingCone(np.array([[1.0, 0.2], [-0.3, 1.0]]))), ConeOrder3D("acute"), ConeOrder3D("right")]
for o in orders:
    W = o.ordering_cone.W
    m = W.shape[1]
    for _ in range(60):
        c1, c2 = rng.normal(size=m), rng.normal(size=m) - 0.3
        w1, w2 = rng.uniform(0.05, 0.6, size=m), rng.uniform(0.05, 0.9, size=m)
        R1 = RectangularConfidenceRegion(m, c1 - w1, c1 + w1); R2 = RectangularConfidenceRegion(m, c2 - w2, c2 + w2)
        got = bool(confidence_region_check_dominates(o, R1, R2))
        ms = [margin(W, np.array(v), R2.lower, R2.upper) for v in itertools.product(*zip(R1.lower, R1.upper))]
        worst = min(ms)
        n += 1
        if got and worst < -1e-7:
            bad += 1; msgs.append("unsound: True with margin %.4g" % worst)
        if (not got) and W.shape == (2, 2) and worst > 1e-6:
            bad += 1; msgs.append("incomplete (2x2): False with margin %.4g" % worst)
# extended polytope membership vs the exact decision
for dim, nv in ((2, 2), (2, 4), (3, 3), (3, 5)):
    for _ in range(120):
        poly = np.round(rng.normal(size=(nv, dim)) * 4) / 4
        pt = np.round(rng.normal(size=dim) * 4) / 4
        got = bool(is_pt_in_extended_polytope(pt, poly))
        exp = any(np.all(v <= pt) for v in poly)
        for d in range(dim):
            for i in range(nv):
                for j in range(nv):
                    if i == j or poly[j, d] == poly[i, d]:
                        continue
                    if poly[i, d] <= pt[d] <= poly[j, d]:
                        t = (pt[d] - poly[i, d]) / (poly[j, d] - poly[i, d])
                        if 0 <= t <= 1 and np.all(poly[i] + t * (poly[j] - poly[i]) <= pt + 1e-12):
                            exp = True
        n += 1
        if got != exp:
            bad += 1; msgs.append("extended polytope: got %r expected %r" % (got, exp))
print("\n".join(msgs[:10]))
print("STANDIN " + json.dumps({"checks": n, "violations": bad}))
sys.exit(1 if bad else 0)
