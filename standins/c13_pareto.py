# bounded stand-in for C13: both Pareto routines vs brute force on lattice data (ties, duplicates) under several cones.  NOT a proof.
import json, os, sys, warnings
warnings.filterwarnings("ignore")
import numpy as np
from vopy.order import ConeTheta2DOrder, ConeOrder3D, ComponentwiseOrder, PolyhedralConeOrder
from vopy.ordering_cone import OrderingCone
rng = np.random.default_rng(int(os.environ.get("VERIF_SEED", "0") or 0))
bad, n, msgs = 0, 0, []
orders = [ComponentwiseOrder(2), ConeTheta2DOrder(60), ConeTheta2DOrder(120), PolyhedralConeOrder(OrderingCone(np.array([[1.0, 0.0], [0.0, 1.0], [1.0, -0.5]]))), ConeOrder3D("acute"), ComponentwiseOrder(3)]
for o in orders:
    W = o.ordering_cone.W
    m = W.shape[1]
    dom = lambda a, b: bool(np.all(W @ (a - b) >= 0))
    for N in (1, 2, 3, 5, 8, 13):
        for _ in range(12):
            X = rng.integers(-3, 4, size=(N, m)).astype(float) / 2
            strictly = lambda j, i: dom(X[j], X[i]) and not dom(X[i], X[j])
            for name in ("get_pareto_set", "get_pareto_set_naive"):
                idx = [int(i) for i in getattr(o, name)(X)]
                n += 1
                ok = all(0 <= i < N for i in idx) and idx == sorted(set(idx))
                ok = ok and not any(strictly(j, i) for i in idx for j in range(N))
                ok = ok and all(any(dom(X[i], X[d]) for i in idx) for d in range(N))
                if name == "get_pareto_set":
                    ok = ok and len({tuple(X[i]) for i in idx}) == len(idx)
                else:
                    nd = [i for i in range(N) if not any(strictly(j, i) for j in range(N))]
                    ok = ok and idx == nd
                if not ok:
                    bad += 1; msgs.append("%s on %s -> %s" % (name, X.tolist(), idx))
print("\n".join(msgs[:6]))
print("STANDIN " + json.dumps({"checks": n, "violations": bad}))
sys.exit(1 if bad else 0)
