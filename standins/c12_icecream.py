# bounded stand-in for the C12 clauses left open deductively: ice-cream cone tangency, theta = 90 degrees. NOT a proof.
import json, sys, warnings
warnings.filterwarnings("ignore")
import numpy as np
from vopy.order import ConeOrder3DIceCream, ConeTheta2DOrder
bad, n = 0, 0
o = object.__new__(ConeOrder3DIceCream)
for K in list(range(3, 13)) + [16, 32, 64]:
    for theta in (5, 20, 45, 60, 85):
        W = o.compute_ice_cream_cone(K, theta)
        axis = np.array([0.5, 0.5, 1 / np.sqrt(2)])
        n += 1
        if not (np.allclose(np.linalg.norm(W, axis=1), 1) and np.allclose(W @ axis, np.sin(np.radians(theta)), atol=1e-9)):
            bad += 1
W = ConeTheta2DOrder(90).ordering_cone.W
n += 1
if not (np.allclose(np.linalg.norm(W, axis=1), 1) and np.allclose(np.sort(W, axis=0), np.sort(np.eye(2), axis=0), atol=1e-9)):  # the orthant: rows e_1, e_2 in some order
    bad += 1
print("STANDIN " + json.dumps({"cones": n, "violations": bad}))
sys.exit(1 if bad else 0)
