# bounded stand-in for C15's arithmetic clause (gpytorch returns the exact posterior): real predict() vs closed-form GP
# conditioning with the hyper-parameters the wrappers report; order/batching independence; variance >= 0 and non-increasing.
# NOT a proof.  Grid: d in {1,2,3}, m in {2,3}, train sizes {1,3,12,40}, N in {1,2,7}.
import json, os, sys, warnings
warnings.filterwarnings("ignore")
import numpy as np, torch
from vopy.models import IndependentExactGPyTorchModel, CorrelatedExactGPyTorchModel, GPyTorchModelListExactModel
rng = np.random.default_rng(int(os.environ.get("VERIF_SEED", "0") or 0))
bad, n, worst = [], 0, 0.0

def rbf(A, B, ls, var):
    D = ((A[:, None, :] - B[None, :, :]) / ls) ** 2
    return var * np.exp(-0.5 * D.sum(-1))

for d in (1, 2, 3):
    for m in (2, 3):
        for ntr in (1, 3, 12, 40):
            X, Y = rng.uniform(size=(ntr, d)), rng.normal(size=(ntr, m))
            noise = 0.05
            # independent model: per-objective scaled RBF, zero mean
            M = IndependentExactGPyTorchModel(d, m, noise); M.add_sample(X, Y); M.update()
            ls, var = M.get_lengthscale_and_var()
            ls = np.asarray(ls).reshape(m, d); var = np.asarray(var).reshape(m)
            for N in (1, 2, 7):
                Xs = rng.uniform(size=(N, d))
                mu, cv = M.predict(Xs)
                for i in range(m):
                    K = rbf(X, X, ls[i], var[i]) + noise * np.eye(ntr)
                    ks = rbf(Xs, X, ls[i], var[i])
                    em = ks @ np.linalg.solve(K, Y[:, i])
                    ev = var[i] - np.einsum("ij,ji->i", ks, np.linalg.solve(K, ks.T))
                    err = max(np.max(np.abs(em - mu[:, i])), np.max(np.abs(ev - cv[:, i, i])))
                    worst = max(worst, err); n += 1
                    if err > 1e-5 or mu.shape != (N, m) or cv.shape != (N, m, m) or np.any(cv[:, i, i] < -1e-9):
                        bad.append(("independent", d, m, ntr, N, float(err)))
            # order / batching independence and forgetting (all three classes)
            for cls in (IndependentExactGPyTorchModel, CorrelatedExactGPyTorchModel):
                A = cls(d, m, noise); A.add_sample(X, Y); A.update()
                Xs = rng.uniform(size=(3, d))
                ma, ca = A.predict(Xs)
                # same model object (same hyper-parameters): forget, re-add in another order one row at a time, update
                perm = rng.permutation(ntr)
                A.clear_data()
                for j in perm: A.add_sample(X[[j]], Y[[j]])
                A.update()
                mb, cb = A.predict(Xs)
                n += 1
                if np.max(np.abs(ma - mb)) > 1e-6 or np.max(np.abs(ca - cb)) > 1e-6:
                    bad.append((cls.__name__, "order", d, m, ntr))
                # more data never increases the variance
                A.add_sample(rng.uniform(size=(2, d)), rng.normal(size=(2, m))); A.update()
                _, ca2 = A.predict(Xs)
                n += 1
                if np.any(np.diagonal(ca2, axis1=-2, axis2=-1) > np.diagonal(ca, axis1=-2, axis2=-1) + 1e-8):
                    bad.append((cls.__name__, "variance grew", d, m, ntr))
            # model list: an observation of one objective changes only that objective
            Lm = GPyTorchModelListExactModel(d, m, noise)
            for i in range(m): Lm.add_sample(X, Y[:, i], i)
            Lm.update(); Xs = rng.uniform(size=(2, d)); m0, c0 = Lm.predict(Xs)
            Lm.add_sample(rng.uniform(size=(1, d)), rng.normal(size=1), 0); Lm.update(); m1, c1 = Lm.predict(Xs)
            n += 1
            if np.max(np.abs(m0[:, 1:] - m1[:, 1:])) > 1e-9 or np.max(np.abs(c0[:, 1:, 1:] - c1[:, 1:, 1:])) > 1e-9:
                bad.append(("modellist", "cross-talk", d, m, ntr))
print("STANDIN " + json.dumps({"checks": n, "violations": len(bad), "worst_abs_error_vs_closed_form": worst, "examples": bad[:3]}))
sys.exit(1 if bad else 0)
