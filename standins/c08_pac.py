# bounded stand-in for C08 (the probabilistic PAC clause, which contracts cannot reach): closed-form failure probability of
# two-design instances with gap just above eps for the L the REAL constructor computes.  NOT a proof.
import json, os, sys, types, warnings
warnings.filterwarnings("ignore")
import numpy as np
from scipy import stats
import vopy.algorithms.naive_elimination as M
from vopy.order import ConeTheta2DOrder
bad, rows = 0, []
for theta in (45, 60, 90, 120):
    order = ConeTheta2DOrder(theta)
    W = order.ordering_cone.W
    for nv in (0.05, 0.5, 1.0, 4.0):
        for eps in (0.2, 1.0):
            for delta in (0.1, 0.01):
                K, m = 2, 2
                ds = types.SimpleNamespace(in_data=np.zeros((K, 2)), out_data=np.zeros((K, m)), in_dim=2, out_dim=m)
                M.get_dataset_instance = lambda name: ds
                a = M.NaiveElimination(eps, delta, "stub", order, nv)
                L = int(a.L)
                # design 1 exceeds design 0 by 1.01*eps along the cone's axis direction; failure = design 0 survives in the
                # empirical Pareto set although its gap > eps, i.e. the empirical difference leaves the cone: per facet Gaussian
                u = np.ones(2) / np.sqrt(2)
                d = 1.01 * eps * u / np.min(W @ u / order.ordering_cone.alpha.flatten())
                sd = np.sqrt(2 * nv / L)                      # std of each coordinate of the difference of means
                pfail = sum(stats.norm.cdf(-(W[k] @ d) / (sd * np.linalg.norm(W[k]))) for k in range(W.shape[0]))   # union bound
                rows.append({"theta": theta, "noise_var": nv, "eps": eps, "delta": delta, "L": L, "failure_bound": float("%.3g" % pfail)})
                if pfail > delta:
                    bad += 1
print("STANDIN " + json.dumps({"instances": len(rows), "exceed_delta": bad, "sample": rows[:3]}))
sys.exit(1 if bad else 0)
