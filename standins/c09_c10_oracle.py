# bounded stand-in for C09 / C10 (numerical clause: 'decided correctly whenever the configuration is not within numerical
# tolerance of the boundary').  Real predicates vs closed-form / LP oracles on a stated grid.  NOT a proof.
import json, os, sys, warnings
warnings.filterwarnings("ignore")
import numpy as np
from scipy.optimize import linprog
from vopy.confidence_region import RectangularConfidenceRegion, EllipsoidalConfidenceRegion
from vopy.order import PolyhedralConeOrder, ComponentwiseOrder, ConeTheta2DOrder, ConeOrder3D
from vopy.ordering_cone import OrderingCone
seed = int(os.environ.get("VERIF_SEED", "0") or 0)
rng = np.random.default_rng(seed)
which = sys.argv[1] if len(sys.argv) > 1 else "C09"
orders2 = [ComponentwiseOrder(2), ConeTheta2DOrder(45), ConeTheta2DOrder(120)]
W3 = np.array([[1.0, 0, 0], [0, 1.0, 0], [0, 0, 1.0], [1, 1, 1] / np.sqrt(3)])
orders3 = [ConeOrder3D("acute"), ConeOrder3D("obtuse"), PolyhedralConeOrder(OrderingCone(W3))]
cases = bad = skipped = 0
examples = []
for scale in (1e-4, 1e-2, 1.0, 1e2):
    for order in orders2 + orders3:
        W = order.ordering_cone.W
        m = W.shape[1]
        for _ in range(6):
            c1, c2 = rng.normal(size=m) * scale, rng.normal(size=m) * scale
            h1, h2 = rng.uniform(0.05, 1.0, size=m) * scale, rng.uniform(0.05, 1.0, size=m) * scale
            r1 = RectangularConfidenceRegion(m, c1 - h1, c1 + h1)
            r2 = RectangularConfidenceRegion(m, c2 - h2, c2 + h2)
            s = rng.uniform(0, 0.3) * scale
            svec = np.full(m, s)
            if which == "C09":
                # forall z in R1, z' in R2: W (z' + s - z) >= 0   <=>   min_k [ W_k(c2 + s - c1) - |W_k|.(h1 + h2) ] >= 0
                margin = np.min(W @ (c2 + svec - c1) - np.abs(W) @ (h1 + h2))
                if abs(margin) < 1e-6 * scale:
                    skipped += 1; continue
                got = bool(RectangularConfidenceRegion.is_dominated(order, r1, r2, svec))
                exp = margin >= 0
            else:
                # exists z in R1, z' in R2: W (z' - z - s) >= 0: LP feasibility with slack variable t maximised
                K = W.shape[0]
                A = np.hstack([W, -W, np.ones((K, 1))])          # W z - W z' + t <= -W s
                b = -(W @ svec)
                res = linprog(c=np.r_[np.zeros(2 * m), -1.0], A_ub=A, b_ub=b,
                              bounds=[(c1[i] - h1[i], c1[i] + h1[i]) for i in range(m)] + [(c2[i] - h2[i], c2[i] + h2[i]) for i in range(m)] + [(None, scale * 10)])
                margin = res.x[-1] if res.status == 0 else -1.0
                if abs(margin) < 1e-5 * scale:
                    skipped += 1; continue
                got = bool(RectangularConfidenceRegion.is_covered(order, r1, r2, svec))
                exp = margin >= 0
            cases += 1
            if got != exp:
                bad += 1; examples.append({"W": W.tolist(), "r1": [r1.lower.tolist(), r1.upper.tolist()], "r2": [r2.lower.tolist(), r2.upper.tolist()], "slack": s, "got": got, "margin": float(margin)})
            if which == "C09":
                # ellipsoids: min over E1 x E2 of W_k(z'-z) = W_k(c2-c1) - a1|S1^{1/2}W_k| - a2|S2^{1/2}W_k|
                A1, A2 = rng.normal(size=(m, m)), rng.normal(size=(m, m))
                S1, S2 = (A1 @ A1.T + 0.3 * np.eye(m)) * scale ** 2, (A2 @ A2.T + 0.3 * np.eye(m)) * scale ** 2
                a1, a2 = rng.uniform(0.2, 1.5), rng.uniform(0.2, 1.5)
                e1, e2 = EllipsoidalConfidenceRegion(m, c1, S1, a1), EllipsoidalConfidenceRegion(m, c2, S2, a2)
                sk = np.full(W.shape[0], s)
                mins = W @ (c2 - c1) - a1 * np.sqrt(np.einsum("ki,ij,kj->k", W, S1, W)) - a2 * np.sqrt(np.einsum("ki,ij,kj->k", W, S2, W))
                margin = np.min(mins + sk)
                if abs(margin) < 1e-4 * scale:
                    skipped += 1; continue
                try:
                    got = bool(EllipsoidalConfidenceRegion.is_dominated(order, e1, e2, sk))
                except Exception as e:
                    skipped += 1; continue
                cases += 1
                if got != (margin >= 0):
                    bad += 1; examples.append({"ellipsoid": True, "margin": float(margin), "got": got, "scale": scale})
print("STANDIN " + json.dumps({"cases": cases, "disagreements": bad, "skipped_near_boundary": skipped, "examples": examples[:3]}))
sys.exit(1 if bad else 0)
