# bounded stand-in for C06 / C07: WHOLE ROUNDS on objects built by the real constructors.
# The deductive `evaluating()` tasks are single-call statements on a stub object holding the declared state.  A phase that
# reads something prepared EARLIER in the round (a cached active set, a stale copy of S) is invisible to them.  Here each
# algorithm is built by its real constructor on the bundled "Test" dataset and driven with the real run_one_step(); every call
# of problem.evaluate is intercepted and checked against the state AT THE TIME OF THE CALL:
#   * every evaluated point is a design that is active right then (S u P for VOGP / e-PAL, S u U for the PaVeBa family, S for Auer),
#   * no design is evaluated twice in one call; PaVeBa / Auer evaluate every active design exactly once; batch algorithms evaluate
#     min(batch, |active|) designs,
#   * sample_count grows by exactly the number of evaluations requested,
#   * once finished, a further step is idle (True, nothing evaluated, nothing changed).
# NOT a proof.
import json, os, sys, warnings
warnings.filterwarnings("ignore")
import logging
logging.disable(logging.CRITICAL)
import numpy as np

ACTIVE = {"SP": lambda a: set(a.S) | set(a.P), "SU": lambda a: set(a.S) | set(a.U), "S": lambda a: set(a.S)}


def drive(job):
    name, kwargs, active_key, full, rounds = job
    active_of = ACTIVE[active_key]
    import torch
    torch.set_num_threads(1)
    from vopy.utils import set_seed
    from vopy.order import ComponentwiseOrder, ConeTheta2DOrder
    import vopy.algorithms as A
    seed = int(os.environ.get("VERIF_SEED", "0") or 0)
    set_seed(1000 + seed)
    kw = dict(kwargs)
    if kw.pop("order", None) is not None:
        kw["order"] = ComponentwiseOrder(2) if kwargs["order"] == "orthant" else ConeTheta2DOrder(kwargs["order"])
    msgs, n = [], 0
    try:
        a = getattr(A, name)(**kw)
    except Exception as e:
        return 0, [], ["%s: constructor raised %s (not exercised)" % (name, type(e).__name__)]
    data_in = np.asarray(a.problem.dataset.in_data if hasattr(a.problem, "dataset") else a.problem.problem.dataset.in_data, dtype=float)
    calls = []
    real_eval = a.problem.evaluate

    def spy(x, *args, **kws):
        x_ = np.asarray(x, dtype=float)
        x_ = x_.reshape(-1, data_in.shape[1]) if x_.ndim != 2 else x_
        idx = [int(np.argmin(np.sum((data_in - row[: data_in.shape[1]]) ** 2, axis=1))) for row in x_]
        comp = list(np.asarray(args[0]).reshape(-1)) if args else (list(np.asarray(kws["evaluation_index"]).reshape(-1)) if "evaluation_index" in kws else None)
        keys = list(zip(idx, [int(c) for c in comp])) if comp is not None and len(comp) == len(idx) else list(idx)
        calls.append({"idx": idx, "keys": keys, "active": sorted(active_of(a)), "count_before": int(a.sample_count)})
        return real_eval(x, *args, **kws)
    a.problem.evaluate = spy
    done = False
    for r in range(rounds):
        calls.clear()
        before = int(a.sample_count)
        try:
            done = bool(a.run_one_step())
        except Exception as e:
            msgs.append("%s round %d: run_one_step raised %s: %s" % (name, r + 1, type(e).__name__, str(e)[:100]))
            break
        requested = 0
        for c in calls:
            n += 1
            requested += len(c["idx"])
            bad = [i for i in c["idx"] if i not in c["active"]]
            if bad:
                msgs.append("%s round %d: designs %r evaluated although not active at that time (active: %r)" % (name, r + 1, bad, c["active"]))
            if len(set(c["keys"])) != len(c["keys"]):
                msgs.append("%s round %d: a design (decoupled: a design/objective pair) evaluated twice in one call: %r" % (name, r + 1, c["keys"]))
            if full and sorted(c["idx"]) != c["active"]:
                msgs.append("%s round %d: evaluated %r, active designs were %r" % (name, r + 1, sorted(c["idx"]), c["active"]))
            if not full and len(c["idx"]) != min(int(getattr(a, "batch_size", 1)), len(c["active"])):
                msgs.append("%s round %d: %d designs evaluated, batch %r, %d active" % (name, r + 1, len(c["idx"]), getattr(a, "batch_size", 1), len(c["active"])))
        n += 1
        if int(a.sample_count) - before != requested:
            msgs.append("%s round %d: sample_count grew by %d, %d evaluations requested" % (name, r + 1, int(a.sample_count) - before, requested))
        if done:
            st = (sorted(a.S), sorted(a.P), int(a.sample_count), int(a.round))
            calls.clear()
            again = a.run_one_step()
            n += 1
            if not again or calls or st != (sorted(a.S), sorted(a.P), int(a.sample_count), int(a.round)):
                msgs.append("%s: a step after completion is not idle" % name)
            break
        if msgs:
            break
    return n, msgs, []


SP, SU, S_ = "SP", "SU", "S"
common = dict(epsilon=0.1, delta=0.1, dataset_name="Test", noise_var=0.01)
JOBS = [
    ("VOGP", dict(common, order="orthant", conf_contraction=16, batch_size=1), SP, False, 12),
    ("VOGP", dict(common, order=60, conf_contraction=16, batch_size=3), SP, False, 8),
    ("EpsilonPAL", dict(common, conf_contraction=16, batch_size=2), SP, False, 10),
    ("PaVeBaGP", dict(common, order="orthant", conf_contraction=16, type="IH", batch_size=2), SU, False, 10),
    ("PaVeBaGP", dict(common, order=120, conf_contraction=16, type="DE", batch_size=1), SU, False, 2),
    ("VOGP", dict(common, order=120, conf_contraction=32, batch_size=2), SP, False, 10),
    ("EpsilonPAL", dict(common, conf_contraction=32, batch_size=1), SP, False, 12),
    ("PaVeBaPartialGP", dict(common, order="orthant", conf_contraction=16, confidence_type="hyperrectangle", batch_size=2), SU, False, 8),
    ("PaVeBa", dict(common, order="orthant", conf_contraction=8), SU, True, 6),
    ("PaVeBa", dict(common, order=60, conf_contraction=8), SU, True, 6),
    ("Auer", dict(common, conf_contraction=8), S_, True, 6),
]

if __name__ == "__main__":
    import multiprocessing as mp
    with mp.Pool(min(11, os.cpu_count() or 1)) as pool:
        res = pool.map(drive, JOBS, chunksize=1)
    n = sum(r[0] for r in res)
    msgs = [m for r in res for m in r[1]]
    for m in msgs[:8]:
        print(m)
    for r in res:
        for note in r[2]:
            print("note:", note)
    print("STANDIN " + json.dumps({"checks": n, "violations": len(msgs)}))
    sys.exit(1 if msgs else 0)
