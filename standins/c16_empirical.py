# bounded stand-in for C16: random add/update/clear histories of the empirical model vs an independent accumulator.  NOT a proof.
import json, os, sys, warnings
warnings.filterwarnings("ignore")
import numpy as np
from vopy.models import EmpiricalMeanVarModel
rng = np.random.default_rng(int(os.environ.get("VERIF_SEED", "0") or 0))
bad, n, msgs = 0, 0, []
for trial in range(150):
    D, m = int(rng.integers(2, 5)), int(rng.integers(2, 4))
    nv = float(rng.uniform(0.1, 2))
    tm, tv = bool(rng.integers(0, 2)), bool(rng.integers(0, 2))
    mdl = EmpiricalMeanVarModel(3, m, nv, D, track_means=tm, track_variances=tv)
    acc = [[] for _ in range(D)]
    for step in range(int(rng.integers(1, 7))):
        op = rng.choice(["add", "add", "add", "clear", "update"])
        if op == "add":
            k = int(rng.integers(1, 5))
            idx = [int(i) for i in rng.integers(0, D, size=k)]
            Y = rng.normal(size=(k, m))
            mdl.add_sample(idx, Y)
            for i, y in zip(idx, Y):
                acc[i].append(y)
        elif op == "clear":
            mdl.clear_data(); acc = [[] for _ in range(D)]
        else:
            mdl.update()
    mdl.update()
    q = [int(i) for i in rng.permutation(D)]
    X = np.hstack([rng.normal(size=(D, 3)), np.array(q, dtype=float)[:, None]])
    mu, cov = mdl.predict(X)
    for r, i in enumerate(q):
        s = np.array(acc[i])
        em = s.mean(axis=0) if (tm and len(s)) else np.zeros(m)
        if tv:
            ev = np.diag(s.var(axis=0)) if len(s) >= 2 else np.eye(m) * nv
        else:
            ev = np.eye(m)
        n += 1
        if not (np.allclose(mu[r], em, atol=1e-9) and np.allclose(cov[r], ev, atol=1e-9)):
            bad += 1; msgs.append("design %d: mean %s vs %s" % (i, mu[r], em))
    try:
        mdl.add_sample([D], rng.normal(size=(1, m))); bad += 1; msgs.append("index == design_count accepted")
    except Exception:
        pass
    n += 1
print("\n".join(msgs[:6]))
print("STANDIN " + json.dumps({"checks": n, "violations": bad}))
sys.exit(1 if bad else 0)
