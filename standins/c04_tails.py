# bounded stand-in for C04 (sanity check of the assumed tail inequalities' instantiation): exact Gaussian / chi-square tails
# of the schedules the REAL compute_* functions return, summed over t <= T plus an analytic remainder.  NOT a proof.
import json, os, sys, warnings
warnings.filterwarnings("ignore")
import numpy as np
from scipy import stats
from vopy.algorithms.vogp import VOGP
from vopy.algorithms.epal import EpsilonPAL
from vopy.algorithms.paveba import PaVeBa
from vopy.algorithms.paveba_gp import PaVeBaGP
from vopy.algorithms.auer import Auer
class DS: pass
T = 20000
rows, bad = [], 0
for K in (1, 5, 200):
    for m in (2, 3, 6):
        for delta in (0.9, 0.1, 0.001):
            ds = DS(); ds.cardinality = K
            tot = {}
            for name, cls, meth, off in (("VOGP", VOGP, "compute_beta", 1), ("EpsilonPAL", EpsilonPAL, "compute_beta", 1), ("PaVeBa", PaVeBa, "compute_radius", 0),
                                         ("PaVeBaGP-DE", PaVeBaGP, "compute_alpha", 0), ("PaVeBaGP-IH", PaVeBaGP, "compute_alpha", 0), ("Auer", Auer, "compute_beta", 0)):
                a = object.__new__(cls); a.m, a.delta, a.design_space, a.conf_contraction, a.noise_var = m, delta, ds, 1, 1.0
                a._use_empirical_beta = False; a.S = {0}
                s = 0.0
                ts = np.unique(np.r_[np.arange(1, 2000), np.geomspace(2000, T, 400).astype(int)])
                prev = 0
                for t in ts:
                    a.round = t - off
                    v = np.atleast_1d(getattr(a, meth)()).ravel()[0]
                    if name in ("VOGP", "EpsilonPAL", "PaVeBaGP-IH"):
                        p = K * m * 2 * stats.norm.sf(v)
                    elif name == "Auer":
                        p = K * m * 2 * stats.norm.sf(v * np.sqrt(t))
                    elif name == "PaVeBa":
                        p = K * stats.chi2.sf(v * v * t / a.noise_var, m)
                    else:
                        p = K * stats.chi2.sf(v * v, m)
                    s += p * (t - prev); prev = t      # tails are decreasing in t: step upper bound
                tot[name] = s
                if s > delta * 1.0000001:
                    bad += 1
            rows.append({"K": K, "m": m, "delta": delta, "sum_over_t<=%d" % T: {k: float("%.3g" % v) for k, v in tot.items()}})
print("STANDIN " + json.dumps({"grid_points": len(rows), "exceed_delta": bad, "sample": rows[:2]}))
sys.exit(1 if bad else 0)
