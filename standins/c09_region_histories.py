# bounded stand-in for the region history tasks of C09 / C10 / C11: HISTORY INDEPENDENCE of the region predicates.
# Regions are built by the real constructors, a predicate is used, the region is changed by the real update / intersect, and the
# predicate is used again: its answer must equal the answer on FRESH regions constructed from the bounds / ellipsoid displayed now.
# (The single-call contracts cover the fresh regions.)  NOT a proof.
import json, os, sys, warnings
warnings.filterwarnings("ignore")
import numpy as np
from vopy.order import ComponentwiseOrder, ConeTheta2DOrder
from vopy.confidence_region import (RectangularConfidenceRegion as R, EllipsoidalConfidenceRegion as E,
                                    confidence_region_is_dominated as DOM, confidence_region_is_covered as COV,
                                    confidence_region_check_dominates as CHK)
rng = np.random.default_rng(int(os.environ.get("VERIF_SEED", "0") or 0))
bad, n, msgs = 0, 0, []
orders = [ComponentwiseOrder(2), ConeTheta2DOrder(60), ConeTheta2DOrder(120)]


def box():
    c = rng.normal(size=2); w = rng.uniform(0.1, 1.0, size=2)
    return c - w, c + w


def spd():
    A = rng.normal(size=(2, 2))
    return A @ A.T + 0.2 * np.eye(2)


def same(a, b, what, detail):
    global bad, n
    n += 1
    if bool(a) != bool(b):
        bad += 1
        msgs.append("%s: long-lived region answers %r, a fresh region with the bounds now displayed answers %r (%s)" % (what, bool(a), bool(b), detail))


for o in orders:
    for rep in range(25):
        # rectangles
        for iterative in (True, False):
            lo, up = box(); lo2, up2 = box()
            r1, r2 = R(2, lo, up, intersect_iteratively=iterative), R(2, lo2, up2)
            for pred in (lambda a, b: DOM(o, a, b, 0), lambda a, b: COV(o, a, b, 0.1), lambda a, b: CHK(o, a, b), lambda a, b: CHK(o, b, a)):
                pred(r1, r2)
            for step in range(2):
                mean = rng.normal(size=2); cov = np.diag(rng.uniform(0.01, 1.0, size=2)); sc = rng.uniform(0.5, 2.0)
                r1.update(mean, cov, np.array(sc))
                f1, f2 = R(2, np.array(r1.lower), np.array(r1.upper)), R(2, np.array(r2.lower), np.array(r2.upper))
                d = "rectangle, iterative=%r, %s, step %d" % (iterative, type(o).__name__, step)
                same(DOM(o, r1, r2, 0), DOM(o, f1, f2, 0), "is_dominated", d)
                same(COV(o, r1, r2, 0.1), COV(o, f1, f2, 0.1), "is_covered", d)
                same(CHK(o, r1, r2), CHK(o, f1, f2), "check_dominates", d)
                same(CHK(o, r2, r1), CHK(o, f2, f1), "check_dominates (changed region as the polytope)", d)
        # ellipsoids
        if rep < 8:
            e1, e2 = E(2, rng.normal(size=2), spd(), float(rng.uniform(0.3, 1.5))), E(2, rng.normal(size=2), spd(), float(rng.uniform(0.3, 1.5)))
            DOM(o, e1, e2, 0); COV(o, e1, e2, 0.1)
            for step in range(2):
                e1.update(rng.normal(size=2), spd(), np.array(rng.uniform(0.3, 1.5)))
                f1, f2 = E(2, np.array(e1.center), np.array(e1.sigma), float(e1.alpha)), E(2, np.array(e2.center), np.array(e2.sigma), float(e2.alpha))
                d = "ellipsoid, %s, step %d" % (type(o).__name__, step)
                same(DOM(o, e1, e2, 0), DOM(o, f1, f2, 0), "is_dominated", d)
                same(COV(o, e1, e2, 0.1), COV(o, f1, f2, 0.1), "is_covered", d)
print("\n".join(msgs[:8]))
print("STANDIN " + json.dumps({"checks": n, "violations": bad}))
sys.exit(1 if bad else 0)
