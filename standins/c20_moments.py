# bounded stand-in for C20's statistical clause (law of the noise): sample moments of the real noisy evaluation. NOT a proof.
import json, os, sys, warnings
warnings.filterwarnings("ignore")
import numpy as np
from vopy.utils import get_noisy_evaluations_chol
np.random.seed(int(os.environ.get("VERIF_SEED", "0") or 0))
bad, n = 0, 0
for k in (2, 3):
    A = np.random.normal(size=(k, k)); cov = A @ A.T + 0.5 * np.eye(k)
    L = np.linalg.cholesky(cov)
    N = 200000
    y = get_noisy_evaluations_chol(np.zeros((N, k)), L)
    emp = np.cov(y.T, bias=True)
    se = 5 * np.sqrt((np.outer(np.diag(cov), np.diag(cov)) + cov ** 2) / N)      # 5-sigma band of the sample covariance entries
    n += 1
    if np.any(np.abs(emp - cov) > se) or np.any(np.abs(y.mean(axis=0)) > 5 * np.sqrt(np.diag(cov) / N)):
        bad += 1
print("STANDIN " + json.dumps({"factors": n, "draws_each": 200000, "violations": bad}))
sys.exit(1 if bad else 0)
