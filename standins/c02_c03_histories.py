# bounded stand-in for C02 / C03: HISTORY INDEPENDENCE of the elimination and promotion phases.
# The deductive contracts of discarding / pareto_updating / epsiloncovering / useful_updating speak about one call on an object
# whose only state is the declared one (S, P, U, the displayed regions, slack constants, Auer's widths).  A result that also
# depends on something remembered from an earlier call (a cache, a memo, a stale copy) is invisible to a single-call contract.
# Here every phase of every algorithm is driven over multi-round histories on one long-lived object, with the regions redrawn
# every round; before each call a TWIN is built that has only the declared state (deep copies), the same phase is called on
# both, and the resulting S, P, U, latch and return value must agree.  The real region predicates are used.  NOT a proof.
import copy, json, os, sys, warnings
warnings.filterwarnings("ignore")
import numpy as np
import vopy.algorithms.paveba as m_paveba
import vopy.algorithms.paveba_gp as m_paveba_gp
import vopy.algorithms.paveba_partial_gp as m_partial
import vopy.algorithms.vogp as m_vogp
import vopy.algorithms.epal as m_epal
import vopy.algorithms.auer as m_auer
import vopy.algorithms.vogp_ad as m_vogp_ad
from vopy.confidence_region import RectangularConfidenceRegion, EllipsoidalConfidenceRegion
from vopy.order import ConeTheta2DOrder, ComponentwiseOrder

which = sys.argv[1] if len(sys.argv) > 1 else "C02"
seed = int(os.environ.get("VERIF_SEED", "0") or 0)
rng = np.random.default_rng(seed)
N, M, ROUNDS = 5, 2, 4
EPS = 0.15

DECLARED = ("S", "P", "U", "order", "epsilon", "design_space", "cone_alpha_eps", "cone_alpha", "u_star_eps", "u_star", "beta_t", "m",
            "round", "sample_count", "enable_epsilon_covering", "max_discretization_depth", "delta", "conf_contraction",
            "_use_empirical_beta", "batch_size", "noise_var")


class DS:
    pass


def regions(kind, truth, width):
    out = []
    for i in range(N):
        c = truth[i] + rng.uniform(-0.9, 0.9, size=M) * width
        if kind == "rect":
            w = rng.uniform(0.5, 1.0, size=M) * width
            out.append(RectangularConfidenceRegion(M, c - w, c + w))
        else:
            A = rng.normal(size=(M, M))
            out.append(EllipsoidalConfidenceRegion(M, c, A @ A.T + 0.3 * np.eye(M), float(width * rng.uniform(0.5, 1.0))))
    return out


def make(mod, cls, kind, order, phases, with_U):
    a = object.__new__(getattr(mod, cls))
    a.S, a.P = set(range(N)), set()
    if with_U:
        a.U = set()
    a.order, a.epsilon, a.m = order, EPS, M
    a.round, a.sample_count, a.delta, a.conf_contraction, a.batch_size, a.noise_var = 0, 0, 0.1, 1.0, 1, 1.0
    alpha = np.asarray(getattr(order.ordering_cone, "alpha", np.ones((order.ordering_cone.W.shape[0], 1)))).flatten()
    a.cone_alpha, a.cone_alpha_eps = alpha, alpha * EPS
    try:
        us, _ = m_vogp.VOGP.compute_u_star(a)
    except Exception:
        us = np.ones(M) / np.sqrt(M)
    a.u_star, a.u_star_eps = us, us * EPS
    a._use_empirical_beta = False
    a.enable_epsilon_covering, a.max_discretization_depth = False, 2
    ds = DS()
    ds.points = rng.uniform(size=(N, 2)); ds.cardinality = N; ds.point_depths = [2] * N
    ds.confidence_regions = [None] * N
    a.design_space = ds
    return a, kind, phases


def twin_of(a):
    t = object.__new__(type(a))
    for k in DECLARED:
        if k in a.__dict__:
            if k == "order":
                t.order = a.order
            elif k == "design_space":
                ds = DS()
                ds.points = np.array(a.design_space.points); ds.cardinality = a.design_space.cardinality
                ds.point_depths = list(a.design_space.point_depths)
                ds.confidence_regions = [copy.deepcopy(r) for r in a.design_space.confidence_regions]
                t.design_space = ds
            else:
                setattr(t, k, copy.deepcopy(a.__dict__[k]))
    return t


def norm(x):
    if isinstance(x, (set, frozenset, list, tuple, np.ndarray)):
        try:
            return sorted(int(v) for v in x)
        except Exception:
            return repr(x)
    return None if x is None else (bool(x) if isinstance(x, (bool, np.bool_)) else repr(x))


def state(a, res):
    return {"S": sorted(a.S), "P": sorted(a.P), "U": sorted(getattr(a, "U", ())), "latch": bool(getattr(a, "enable_epsilon_covering", False)), "result": norm(res)}


orders = [ComponentwiseOrder(2), ConeTheta2DOrder(60)]
C02 = {"discarding"}
configs = []
for o in orders:
    configs += [
        (m_paveba, "PaVeBa", "ell", o, ["discarding", "pareto_updating", "useful_updating"], True),
        (m_paveba_gp, "PaVeBaGP", "rect", o, ["discarding", "pareto_updating", "useful_updating"], True),
        (m_paveba_gp, "PaVeBaGP", "ell", o, ["discarding", "pareto_updating", "useful_updating"], True),
        (m_partial, "PaVeBaPartialGP", "ell", o, ["discarding", "pareto_updating", "useful_updating"], True),
        (m_vogp, "VOGP", "rect", o, ["discarding", "epsiloncovering"], False),
        (m_vogp_ad, "VOGP_AD", "rect", o, ["discarding", "epsiloncovering"], False),
    ]
configs += [(m_epal, "EpsilonPAL", "rect", orders[0], ["discarding", "epsiloncovering"], False),
            (m_auer, "Auer", "rect", orders[0], ["discarding", "pareto_updating"], False)]

def run_config(job):
    """One long-lived object, one multi-round history; returns (checks, violations, messages, notes)."""
    global rng
    idx, rep = job
    rng = np.random.default_rng([seed, idx, rep])
    (mod, cls, kind, order, phases, with_U) = configs[idx]
    bad, n, msgs, skipped = 0, 0, [], []
    a, kind, phases = make(mod, cls, kind, order, phases, with_U)
    truth = rng.normal(size=(N, M)) * 0.5
    dead = False
    for r in range(1, ROUNDS + 1):
        if dead or not a.S:
            break
        a.round = r
        width = (0.9, 0.8, 0.5, 0.3, 0.2)[min(r, 5) - 1]
        a.design_space.confidence_regions = regions(kind, truth, width)
        if cls == "Auer":
            a.beta_t = np.full((len(a.S), M), width)       # widths equal across objectives and designs
        for ph in phases:
            t = twin_of(a)
            try:
                rt = getattr(t, ph)()
            except Exception as e:
                skipped.append("%s.%s: %s on a fresh object (phase not exercised)" % (cls, ph, type(e).__name__)); dead = True; break
            st_t = state(t, rt)
            try:
                ra = getattr(a, ph)()
                st_a = state(a, ra)
            except Exception as e:
                st_a = {"raise": type(e).__name__ + ": " + str(e)[:80]}
            n += 1
            counted = (ph in C02) == (which == "C02")
            if st_a != st_t and counted:
                bad += 1
                msgs.append("%s.%s round %d, %s regions, %s: long-lived object %r  !=  object with only the declared state %r" % (cls, ph, r, kind, type(order).__name__, st_a, st_t))
            if st_a != st_t:
                dead = True; break
            if cls == "Auer" and ph == "discarding":
                a.beta_t = np.full((len(a.S), M), width)    # keep the positional widths aligned with S (alignment precondition)
    return n, bad, msgs, skipped


if __name__ == "__main__":
    import multiprocessing as mp
    REPS = 3
    jobs = [(i, rep) for i in range(len(configs)) for rep in range(REPS)]
    with mp.Pool(min(8, os.cpu_count() or 1)) as pool:
        results = pool.map(run_config, jobs, chunksize=1)
    n = sum(r[0] for r in results); bad = sum(r[1] for r in results)
    msgs = [m for r in results for m in r[2]]; skipped = [m for r in results for m in r[3]]
    print("\n".join(msgs[:6]))
    for s_ in sorted(set(skipped))[:6]:
        print("note:", s_)
    print("STANDIN " + json.dumps({"checks": n, "violations": bad}))
    sys.exit(1 if bad else 0)
