# bounded stand-in for C19: gaps / eps-coverage / eps-F1 vs independent oracles on random and lattice data.  NOT a proof.
import json, os, sys, warnings
warnings.filterwarnings("ignore")
import numpy as np
from scipy.optimize import minimize
from vopy.order import ConeTheta2DOrder, ConeOrder3D, ComponentwiseOrder
from vopy.utils.utils import get_delta, get_smallmij, is_covered, get_uncovered_size
from vopy.utils.evaluate import calculate_epsilonF1_score
from vopy.datasets import Dataset
rng = np.random.default_rng(int(os.environ.get("VERIF_SEED", "0") or 0))
bad, n, msgs = 0, 0, []


def cover_dist(W, vi, vj):
    """min |u| s.t. W u >= 0 and W (vj + u - vi) >= 0"""
    m = len(vi)
    cons = [{"type": "ineq", "fun": lambda u: W @ u}, {"type": "ineq", "fun": lambda u: W @ (vj + u - vi)}]
    best = np.inf
    for x0 in (np.zeros(m), np.maximum(vi - vj, 0) + 0.1, rng.normal(size=m)):
        r = minimize(lambda u: u @ u, x0, constraints=cons, method="SLSQP", options={"ftol": 1e-14, "maxiter": 500})
        if r.success and np.min(W @ r.x) > -1e-8 and np.min(W @ (vj + r.x - vi)) > -1e-8:
            best = min(best, float(np.sqrt(max(r.fun, 0))))
    return best


for o in (ComponentwiseOrder(2), ConeTheta2DOrder(45), ConeTheta2DOrder(60), ConeTheta2DOrder(135), ConeOrder3D("acute")):
    W, alpha = o.ordering_cone.W, o.ordering_cone.alpha
    m = W.shape[1]
    for _ in range(10):
        N = int(rng.integers(3, 8))
        mu = np.round(rng.normal(size=(N, m)) * 3) / 3
        d = get_delta(mu, W, alpha)
        for i in range(N):
            exp = max(min(max(0.0, float(W[k] @ (mu[j] - mu[i]))) / float(alpha[k]) for k in range(W.shape[0])) for j in range(N))
            n += 1
            if abs(float(d[i, 0]) - exp) > 1e-9:
                bad += 1; msgs.append("gap of design %d: %r vs %r" % (i, float(d[i, 0]), exp))
        for _ in range(6):
            i, j = rng.integers(0, N, size=2)
            eps = float(rng.choice([0.05, 0.2, 0.5, 1.0]))
            dist = cover_dist(W, mu[i], mu[j])
            if abs(dist - eps) < 1e-3 * (1 + eps) or not np.isfinite(dist):
                continue
            n += 1
            if bool(is_covered(mu[i], mu[j], eps, W)) != (dist <= eps):
                bad += 1; msgs.append("is_covered eps=%g dist=%g" % (eps, dist))
# eps-F1: range, value 1 for the true Pareto set, order invariance, monotone in eps
class DS(Dataset):
    def __init__(self, out):
        self.out_data = out; self.in_data = np.zeros((len(out), 1)); self._cardinality = len(out); self.in_dim = 1; self.out_dim = out.shape[1]
for o in (ComponentwiseOrder(2), ConeTheta2DOrder(60), ConeTheta2DOrder(120)):
    for _ in range(12):
        N = int(rng.integers(3, 9))
        out = rng.normal(size=(N, 2))
        ds = DS(out)
        true = [int(i) for i in o.get_pareto_set(out)]
        pred = [int(i) for i in rng.choice(N, size=int(rng.integers(1, N + 1)), replace=False)]
        prev = -1.0
        for eps in (0.0, 0.1, 0.3, 1.0, 3.0):
            f = calculate_epsilonF1_score(ds, o, true, pred, eps)
            f2 = calculate_epsilonF1_score(ds, o, true, list(reversed(pred)), eps)
            ft = calculate_epsilonF1_score(ds, o, true, list(true), eps)
            n += 1
            if not (0 <= f <= 1 + 1e-12) or abs(f - f2) > 1e-12 or abs(ft - 1) > 1e-12 or f < prev - 1e-12:
                bad += 1; msgs.append("F1 eps=%g: %r %r %r prev %r" % (eps, f, f2, ft, prev))
            prev = f
print("\n".join(msgs[:6]))
print("STANDIN " + json.dumps({"checks": n, "violations": bad}))
sys.exit(1 if bad else 0)
