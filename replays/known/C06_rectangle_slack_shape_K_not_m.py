# native witness of the known finding C06: rectangle-type PaVeBa variants pass the per-facet vector alpha*eps (K entries) to
# RectangularConfidenceRegion.is_covered, which accepts only a scalar or an m-vector: ValueError whenever K not in {1, m}.
# run: PYTHONPATH=/repo /venv/bin/python replays/known/C06_rectangle_slack_shape_K_not_m.py
import warnings; warnings.filterwarnings("ignore")
import numpy as np
from vopy.algorithms.paveba_gp import PaVeBaGP
from vopy.confidence_region import RectangularConfidenceRegion
from vopy.order import PolyhedralConeOrder
from vopy.ordering_cone import OrderingCone
try:
    OBLIGATION
except NameError:
    OBLIGATION = "C06/PaVeBa_family.rectangles.cone_with_K_facets_not_m/no-raise"
W = np.array([[1.0, 0.0], [0.0, 1.0], [1 / np.sqrt(2), 1 / np.sqrt(2)]])      # 3 facets, 2 objectives
order = PolyhedralConeOrder(OrderingCone(W))
class DS: pass
ds = DS(); ds.cardinality = 2
ds.confidence_regions = [RectangularConfidenceRegion(2, np.array([0.0, 0.0]), np.array([1.0, 1.0])),
                         RectangularConfidenceRegion(2, np.array([0.5, 0.5]), np.array([1.5, 1.5]))]
a = object.__new__(PaVeBaGP)
a.order, a.epsilon, a.design_space = order, 0.1, ds
a.cone_alpha = order.ordering_cone.alpha.flatten(); a.cone_alpha_eps = a.cone_alpha * a.epsilon
a.S, a.P, a.U = {0, 1}, set(), set()
try:
    a.pareto_updating()
    print("completed: P =", a.P)
    print("REPLAY-NOT-REPRODUCED obligation=%s" % OBLIGATION); raise SystemExit(4)
except ValueError as e:
    print("pareto_updating raised ValueError:", e)
    print("REPLAY-CONFIRMED obligation=%s" % OBLIGATION); raise SystemExit(1)
