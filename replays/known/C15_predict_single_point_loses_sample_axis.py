import sys, json, math
import numpy as np
np.seterr(all="ignore")
from vopy.confidence_region import *
from vopy.order import PolyhedralConeOrder
from vopy.ordering_cone import OrderingCone

def mk_order(W, alpha):
    cone = object.__new__(OrderingCone)
    cone.W = np.array(W, dtype=float); cone.dim = cone.W.shape[1]; cone.alpha = np.array(alpha, dtype=float)
    return PolyhedralConeOrder(cone)

def same(a, b, tol=1e-7):
    if a is None or b is None:
        return a is None and b is None
    if isinstance(b, (list, tuple)) and not isinstance(a, np.ndarray) and any(isinstance(x, (np.ndarray, list, tuple)) for x in b):
        return isinstance(a, (list, tuple)) and len(a) == len(b) and all(same(x, y, tol) for x, y in zip(a, b))
    if isinstance(b, str) or isinstance(a, str):
        return a == b
    if isinstance(b, bool) or isinstance(a, (bool, np.bool_)):
        return bool(a) == bool(b)
    a = np.asarray(a, dtype=float); b = np.asarray(b, dtype=float)
    if a.shape != b.shape:
        return False
    return bool(np.all(np.abs(a - b) <= tol * (1 + np.abs(b))))

# replay of obligation C15/CorrelatedExactGPyTorchModel.predict[d=2,m=2,N=1,extra_cols=0]/means_(N,m)_and_covariances_(N,m,m)_are_the_posterior_at_the_queried_points
# solver: z3-5.1.0  status: failed (counter-model below)
OBLIGATION = 'C15/CorrelatedExactGPyTorchModel.predict[d=2,m=2,N=1,extra_cols=0]/means_(N,m)_and_covariances_(N,m,m)_are_the_posterior_at_the_queried_points'
MODEL = {}
import warnings; warnings.filterwarnings('ignore')
from vopy.models import CorrelatedExactGPyTorchModel
np.random.seed(0)
M = CorrelatedExactGPyTorchModel(2, 2, 0.1); M.add_sample(np.random.rand(4, 2), np.random.rand(4, 2)); M.update()
mu, cv = M.predict(np.random.rand(1, 2))
print('N=1: means shape', mu.shape, 'covariances shape', cv.shape, ' expected', (1, 2), (1, 2, 2))
if mu.shape != (1, 2) or cv.shape != (1, 2, 2):
    print('REPLAY-CONFIRMED obligation=%s' % OBLIGATION)
    raise SystemExit(1)
print('REPLAY-NOT-REPRODUCED obligation=%s' % OBLIGATION)
raise SystemExit(4)

# ---- replay output ----
# N=1: means shape (2,) covariances shape (1, 2, 2)  expected (1, 2) (1, 2, 2)
# REPLAY-CONFIRMED obligation=C15/CorrelatedExactGPyTorchModel.predict[d=2,m=2,N=1,extra_cols=0]/means_(N,m)_and_covariances_(N,m,m)_are_the_posterior_at_the_queried_points
