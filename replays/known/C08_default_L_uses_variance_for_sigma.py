import sys, json, math
import numpy as np
np.seterr(all="ignore")
from vopy.confidence_region import *
from vopy.order import PolyhedralConeOrder
from vopy.ordering_cone import OrderingCone

def mk_order(W, alpha):
    cone = object.__new__(OrderingCone)
    cone.W = np.array(W, dtype=float); cone.dim = cone.W.shape[1]; cone.alpha = np.array(alpha, dtype=float)
    return PolyhedralConeOrder(cone)

def same(a, b, tol=1e-7):
    if a is None or b is None:
        return a is None and b is None
    if isinstance(b, (list, tuple)) and not isinstance(a, np.ndarray) and any(isinstance(x, (np.ndarray, list, tuple)) for x in b):
        return isinstance(a, (list, tuple)) and len(a) == len(b) and all(same(x, y, tol) for x, y in zip(a, b))
    if isinstance(b, str) or isinstance(a, str):
        return a == b
    if isinstance(b, bool) or isinstance(a, (bool, np.bool_)):
        return bool(a) == bool(b)
    a = np.asarray(a, dtype=float); b = np.asarray(b, dtype=float)
    if a.shape != b.shape:
        return False
    return bool(np.all(np.abs(a - b) <= tol * (1 + np.abs(b))))

# replay of obligation C08/NaiveElimination.__init__.default_L[K=2,m=2]/default_L_is_the_theoretical_sample_count(sigma = sqrt(noise_var))
# solver: z3-5.1.0  status: failed (counter-model below)
OBLIGATION = 'C08/NaiveElimination.__init__.default_L[K=2,m=2]/default_L_is_the_theoretical_sample_count(sigma = sqrt(noise_var))'
MODEL = {
"sigma": "2",
"ceil!4": "3",
"delta": "31/36",
"epsilon": "10",
"beta": "1.0355339059?",
"L_spec": "1",
"chol!6_0_0": "2",
"chol!6_1_1": "2",
"chol!6_1_0": "0",
"noise_var": "4",
"/0": "[(10, 10) -> 1, (5, 10) -> 1/2, (0, 2) -> 0, else -> 288/31]",
"np_sqrt": "[else -> 1.4142135623?]",
"np_log": "[else -> 5/8]"
}
import math, types
import vopy.algorithms.naive_elimination as M
eps, delta, nv, beta = (10/1), (31/36), (4/1), 1.035533905932737622004221810524
K, m = 2, 2
ds = types.SimpleNamespace(in_data=np.zeros((K, 2)), out_data=np.zeros((K, m)), in_dim=2, out_dim=m)
M.get_dataset_instance = lambda name: ds
order = types.SimpleNamespace(ordering_cone=types.SimpleNamespace(beta=beta))
a = M.NaiveElimination(eps, delta, 'stub', order, nv)
spec = math.ceil(4 * ((1 + math.sqrt(2)) * math.sqrt(nv) * beta / eps) ** 2 * math.log(4 * m / (2 * delta / (K * (K - 1)))))
print('noise_var', nv, 'eps', eps, 'delta', delta, 'beta', beta, ': library L =', int(a.L), ' formula with sigma = sqrt(noise_var):', spec)
if int(a.L) != spec:
    print('REPLAY-CONFIRMED obligation=%s' % OBLIGATION)
    raise SystemExit(1)
print('REPLAY-NOT-REPRODUCED obligation=%s' % OBLIGATION)
raise SystemExit(4)

# ---- replay output ----
# noise_var 4.0 eps 10.0 delta 0.8611111111111112 beta 1.0355339059327375 : library L = 9  formula with sigma = sqrt(noise_var): 3
# REPLAY-CONFIRMED obligation=C08/NaiveElimination.__init__.default_L[K=2,m=2]/default_L_is_the_theoretical_sample_count(sigma = sqrt(noise_var))
