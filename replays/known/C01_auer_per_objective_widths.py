# native witness of the known finding C01 (Auer with per-objective confidence widths, i.e. use_empirical_beta=True):
# pareto_updating() compares the ONE scalar M(p, j) with EVERY objective's summed width (np.all(M < beta)), so a single narrow
# objective lets a design pass although, with every truth inside its displayed box, another design exceeds it by more
# than eps in every objective.  Here the real discarding() and pareto_updating() run on two designs with aligned widths.
# run: PYTHONPATH=/repo /venv/bin/python replays/known/C01_auer_per_objective_widths.py
import warnings; warnings.filterwarnings("ignore")
import numpy as np
from vopy.algorithms.auer import Auer
from vopy.confidence_region import RectangularConfidenceRegion
try:
    OBLIGATION
except NameError:
    OBLIGATION = "C01/lemma.Auer_truth_level_facts[m=2]/PASS_and_FREE:a_pair_that_passes_the_promotion_tests_has_gap_at_most_eps(per-objective widths)"
eps, m = 1.0, 2
cen = np.array([[0.0, 0.0], [0.0, 5.0]])            # displayed centres of designs 0 and 1
wid = np.array([[10.0, 0.01], [10.0, 0.01]])        # per-objective half-widths (objective 0 poorly known, objective 1 well known)
mu = np.array([[-10.0, 0.0], [10.0, 5.0]])          # true means: inside the displayed boxes
assert np.all(np.abs(mu - cen) <= wid)
class DS: pass
ds = DS(); ds.cardinality = 2
ds.confidence_regions = [RectangularConfidenceRegion(m, cen[i] - wid[i], cen[i] + wid[i]) for i in range(2)]
a = object.__new__(Auer); a.epsilon = eps; a.design_space = ds
a.S, a.P = {0, 1}, set()
a.beta_t = np.array([wid[x] for x in list(a.S)])    # row i = own widths of the i-th design of S (what modeling() leaves)
a.discarding()
a.pareto_updating()
gap = lambda p: max(max(0.0, float(np.min(mu[q] - mu[p]))) for q in range(2) if q != p)   # componentwise cone: alpha_k = 1
print("S after the round:", sorted(a.S), " P:", sorted(a.P))
print("true gaps:", {p: gap(p) for p in range(2)}, " eps =", eps)
bad = [p for p in a.P if gap(p) > eps]
if bad:
    print("design(s) %r declared Pareto with true gap > eps although every truth is inside its displayed region" % bad)
    print("REPLAY-CONFIRMED obligation=%s" % OBLIGATION); raise SystemExit(1)
print("REPLAY-NOT-REPRODUCED obligation=%s" % OBLIGATION); raise SystemExit(4)
