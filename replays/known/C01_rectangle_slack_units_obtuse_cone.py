# native witness of the known finding C01 (rectangle-type PaVeBa variants under a non-orthant cone)
# run: PYTHONPATH=/repo /venv/bin/python replays/known/C01_rectangle_slack_units_obtuse_cone.py
import warnings; warnings.filterwarnings("ignore")
import numpy as np
from vopy.algorithms.paveba_gp import PaVeBaGP
from vopy.confidence_region import RectangularConfidenceRegion
from vopy.order import ConeTheta2DOrder
from vopy.utils import get_delta
try:
    OBLIGATION
except NameError:
    OBLIGATION = "C01/lemma.truth_level_facts[m=2,K=2]/rectangle_promotion:objective_space_slack_alpha_eps_bounds_the_gap"
eps, h = 0.1, 0.02
order = ConeTheta2DOrder(135)
W, alpha = order.ordering_cone.W, order.ordering_cone.alpha.flatten()
c = np.array([[0.0, 0.0], np.linalg.solve(W, np.array([0.05, 0.05]))])    # region centres
# true means on corners of the two rectangles (inside the regions), chosen to maximise the facet functionals of mu_1 - mu_0
best = None
for s0 in ((-1, -1), (-1, 1), (1, -1), (1, 1)):
    for s1 in ((-1, -1), (-1, 1), (1, -1), (1, 1)):
        m0, m1 = c[0] + h * np.array(s0), c[1] + h * np.array(s1)
        g = min(np.maximum(W @ (m1 - m0), 0) / alpha)
        if best is None or g > best[0]:
            best = (g, m0, m1)
mu = np.array([best[1], best[2]])
class DS: pass
ds = DS(); ds.cardinality = 2
ds.confidence_regions = [RectangularConfidenceRegion(2, c[i] - h, c[i] + h) for i in range(2)]   # truths sit on corners: inside
a = object.__new__(PaVeBaGP)
a.order, a.epsilon, a.design_space = order, eps, ds
a.cone_alpha = alpha; a.cone_alpha_eps = alpha * eps
a.S, a.P, a.U = {0, 1}, set(), set()
a.discarding(); a.pareto_updating()
gap = get_delta(mu, W, order.ordering_cone.alpha).flatten()
print("alpha", alpha, " W @ alpha", W @ alpha, " (the rectangle routine reads alpha*eps as an objective-space shift)")
print("P after the round:", sorted(a.P), " gaps:", gap, " eps:", eps)
if 0 in a.P and gap[0] > eps:
    print("REPLAY-CONFIRMED obligation=%s (design 0 is declared Pareto with gap %.4f > eps although every truth is inside its region)" % (OBLIGATION, gap[0]))
    raise SystemExit(1)
print("REPLAY-NOT-REPRODUCED obligation=%s" % OBLIGATION); raise SystemExit(4)
