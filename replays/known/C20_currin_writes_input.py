import sys, json, math
import numpy as np
np.seterr(all="ignore")
from vopy.confidence_region import *
from vopy.order import PolyhedralConeOrder
from vopy.ordering_cone import OrderingCone

def mk_order(W, alpha):
    cone = object.__new__(OrderingCone)
    cone.W = np.array(W, dtype=float); cone.dim = cone.W.shape[1]; cone.alpha = np.array(alpha, dtype=float)
    return PolyhedralConeOrder(cone)

def same(a, b, tol=1e-7):
    if a is None or b is None:
        return a is None and b is None
    if isinstance(b, (list, tuple)) and not isinstance(a, np.ndarray) and any(isinstance(x, (np.ndarray, list, tuple)) for x in b):
        return isinstance(a, (list, tuple)) and len(a) == len(b) and all(same(x, y, tol) for x, y in zip(a, b))
    if isinstance(b, str) or isinstance(a, str):
        return a == b
    if isinstance(b, bool) or isinstance(a, (bool, np.bool_)):
        return bool(a) == bool(b)
    a = np.asarray(a, dtype=float); b = np.asarray(b, dtype=float)
    if a.shape != b.shape:
        return False
    return bool(np.all(np.abs(a - b) <= tol * (1 + np.abs(b))))

# replay of obligation C20/BraninCurrin.evaluate[frame]/frame:evaluation-never-modifies-the-callers-input
# solver: z3-5.1.0(after fixing nonlinear factors)  status: failed (counter-model below)
OBLIGATION = 'C20/BraninCurrin.evaluate[frame]/frame:evaluation-never-modifies-the-callers-input'
MODEL = {
"x_1_0": "0",
"x_0_0": "0",
"x_1_1": "0",
"x_0_1": "0",
"np_exp": "[else -> 1/2]"
}
x = np.array([[(0/1), (0/1)], [(0/1), (0/1)]], dtype=float)
noise_cholesky = np.array([[(0/1), (0/1)], [(0/1), (0/1)]], dtype=float)
import vopy.maximization_problem as _mod
import vopy.maximization_problem as _m0
_obj0 = object.__new__(_m0.BraninCurrin)
_obj0.noise_var = (0/1)
_obj0.noise_cholesky = noise_cholesky
import copy
_before = {n: copy.deepcopy(v) for n, v in {'x': x}.items()}
try:
    _res = _obj0.evaluate(x, noisy=False)
except Exception as _e:
    print('raised', type(_e).__name__, _e)
_changed = [n for n, v in {'x': x}.items() if not np.array_equal(np.asarray(v), np.asarray(_before[n]))]
print('inputs written by the call:', _changed)
for n in _changed: print(n, 'before', np.asarray(_before[n]).tolist(), 'after', np.asarray(eval(n)).tolist())
if _changed:
    print('REPLAY-CONFIRMED obligation=%s (the call wrote to its input)' % OBLIGATION)
    raise SystemExit(1)
print('REPLAY-NOT-REPRODUCED obligation=%s' % OBLIGATION)
raise SystemExit(4)

# ---- replay output ----
# inputs written by the call: ['x']
# x before [[0.0, 0.0], [0.0, 0.0]] after [[0.0, 1e-09], [0.0, 1e-09]]
# REPLAY-CONFIRMED obligation=C20/BraninCurrin.evaluate[frame]/frame:evaluation-never-modifies-the-callers-input (the call wrote to its input)
