# native witness of the known finding C15 (CorrelatedExactGPyTorchModel.get_lengthscale_and_var): the reported lengthscales
# are the shared ARD data kernel's vector, squeezed - one entry per INPUT dimension (0-d for a 1-D input), not one entry per
# objective.  AdaptivelyDiscretizedDesignSpace.calculate_design_vh indexes them by OBJECTIVE: VOGP_AD's refinement test raises
# IndexError when there are more objectives than input dimensions (or a 1-D input) and silently uses input dimension i's
# lengthscale for objective i otherwise.
# run: PYTHONPATH=/repo /venv/bin/python replays/known/C15_correlated_lengthscales_per_input_dimension.py
import warnings; warnings.filterwarnings("ignore")
import numpy as np, torch
from vopy.models.gpytorch import CorrelatedExactGPyTorchModel
from vopy.design_space import AdaptivelyDiscretizedDesignSpace
try:
    OBLIGATION
except NameError:
    OBLIGATION = "C15/CorrelatedExactGPyTorchModel.get_lengthscale_and_var[d=2,m=3]/one_lengthscale_entry_per_objective_agreeing_with_the_kernel"
np.random.seed(0); torch.manual_seed(0)
bad = []
for d, m in ((1, 2), (2, 2), (2, 3), (3, 2)):
    mdl = CorrelatedExactGPyTorchModel(d, m, 0.1)
    mdl.add_sample(np.random.rand(5, d), np.random.randn(5, m)); mdl.update()
    ls, var = mdl.get_lengthscale_and_var()
    kernel_ls = mdl.model.covar_module.data_covar_module.lengthscale.detach().numpy().reshape(-1)   # shared by every objective
    per_objective = np.shape(ls)[:1] == (m,) and np.size(ls) == m * d
    print("input_dim=%d objectives=%d: reported lengthscales shape %s (kernel: one shared ARD vector of %d), variances shape %s" % (d, m, np.shape(ls), len(kernel_ls), np.shape(var)))
    if not per_objective:
        bad.append((d, m, np.shape(ls)))
    ds = AdaptivelyDiscretizedDesignSpace(d, m, delta=0.1, max_depth=3, confidence_type="hyperrectangle")
    try:
        ds.calculate_design_vh(mdl, 0)
        print("   calculate_design_vh: returned (objective i used the lengthscale of INPUT dimension i)")
    except Exception as e:
        print("   calculate_design_vh raised %s: %s" % (type(e).__name__, e))
if bad:
    print("REPLAY-CONFIRMED obligation=%s" % OBLIGATION); raise SystemExit(1)
print("REPLAY-NOT-REPRODUCED obligation=%s" % OBLIGATION); raise SystemExit(4)
