import sys, json, math
import numpy as np
np.seterr(all="ignore")
from vopy.confidence_region import *
from vopy.order import PolyhedralConeOrder
from vopy.ordering_cone import OrderingCone

def mk_order(W, alpha):
    cone = object.__new__(OrderingCone)
    cone.W = np.array(W, dtype=float); cone.dim = cone.W.shape[1]; cone.alpha = np.array(alpha, dtype=float)
    return PolyhedralConeOrder(cone)

def same(a, b, tol=1e-7):
    if a is None or b is None:
        return a is None and b is None
    if isinstance(b, (list, tuple)) and not isinstance(a, np.ndarray) and any(isinstance(x, (np.ndarray, list, tuple)) for x in b):
        return isinstance(a, (list, tuple)) and len(a) == len(b) and all(same(x, y, tol) for x, y in zip(a, b))
    if isinstance(b, str) or isinstance(a, str):
        return a == b
    if isinstance(b, bool) or isinstance(a, (bool, np.bool_)):
        return bool(a) == bool(b)
    a = np.asarray(a, dtype=float); b = np.asarray(b, dtype=float)
    if a.shape != b.shape:
        return False
    return bool(np.all(np.abs(a - b) <= tol * (1 + np.abs(b))))

# replay of obligation C20/get_noisy_evaluations_chol[n=1,k=2]/samples_are_means_plus_L_times_standard_normal_draw(covariance L L^T)
# solver: z3-5.1.0(after fixing nonlinear factors)  status: failed (counter-model below)
OBLIGATION = 'C20/get_noisy_evaluations_chol[n=1,k=2]/samples_are_means_plus_L_times_standard_normal_draw(covariance L L^T)'
MODEL = {
"Lc_1_0": "1",
"rnd!0_0_0": "3",
"rnd!0_0_1": "0",
"Lc_0_1": "0"
}
import vopy.utils.utils as U
Lc = np.array([[(0/1), (0/1)], [(1/1), (0/1)]], dtype=float)
k = 2
E = np.eye(k)
_orig = np.random.normal
np.random.normal = lambda *a, **kw: E.copy()   # deterministic draw: read off the linear map
out = U.get_noisy_evaluations_chol(np.zeros((k, k)), Lc)
np.random.normal = _orig
cov_realised = out.T @ out      # covariance of z -> (row) z @ M is M^T M
cov_configured = Lc @ Lc.T
print('factor', Lc.tolist()); print('realised covariance', cov_realised.tolist()); print('configured covariance', cov_configured.tolist())
if not np.allclose(cov_realised, cov_configured):
    print('REPLAY-CONFIRMED obligation=%s (noise covariance differs from the configured one)' % OBLIGATION)
    raise SystemExit(1)
print('REPLAY-NOT-REPRODUCED obligation=%s' % OBLIGATION)
raise SystemExit(4)

# ---- replay output ----
# factor [[0.0, 0.0], [1.0, 0.0]]
# realised covariance [[1.0, 0.0], [0.0, 0.0]]
# configured covariance [[0.0, 0.0], [0.0, 1.0]]
# REPLAY-CONFIRMED obligation=C20/get_noisy_evaluations_chol[n=1,k=2]/samples_are_means_plus_L_times_standard_normal_draw(covariance L L^T) (noise covariance differs from the configured one)
