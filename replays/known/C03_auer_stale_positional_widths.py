# native witness of the known finding C03 (Auer, use_empirical_beta=True): after discarding() has removed designs from S,
# pareto_updating() addresses beta_t by the NEW positions, so designs are compared with other designs' widths.
# run: PYTHONPATH=/repo /venv/bin/python replays/known/C03_auer_stale_positional_widths.py
import warnings; warnings.filterwarnings("ignore")
import itertools
import numpy as np
from vopy.algorithms.auer import Auer
from vopy.confidence_region import RectangularConfidenceRegion
try:
    OBLIGATION
except NameError:
    OBLIGATION = "C03/Auer.run_one_step[m=2,any beta mode]/call-pre(Auer.pareto_updating): own widths"
eps, m = 0.05, 2
rng = np.random.default_rng(7)
found = None
for trial in range(4000):
    N = 4
    cen = rng.uniform(0, 1, size=(N, m))
    wid = rng.choice([0.01, 0.02, 0.2, 0.4], size=N)          # per-design widths (heteroscedastic)
    class DS: pass
    ds = DS(); ds.cardinality = N
    ds.confidence_regions = [RectangularConfidenceRegion(m, cen[i] - wid[i], cen[i] + wid[i]) for i in range(N)]
    a = object.__new__(Auer); a.epsilon = eps; a.design_space = ds
    a.S, a.P = set(range(N)), set()
    a.beta_t = np.array([[wid[x]] * m for x in list(a.S)])     # what modeling() leaves: row i = width of the i-th design of S
    a.discarding()
    if len(a.S) == N:
        continue                                               # nothing discarded: positions still agree
    S1 = set(a.S)
    a.pareto_updating()
    got = (set(a.S), set(a.P))
    # the specified transition with each design's OWN displayed half-width
    w = {x: wid[x] for x in S1}
    M = lambda i, j: max(0.0, float(np.max(cen[i] + eps - cen[j])))
    P1 = {p for p in S1 if not any(q != p and M(p, q) < w[p] + w[q] for q in S1)}
    new = {p for p in P1 if not any(M(s, p) <= w[p] + w[s] for s in S1 - P1)}
    exp = (S1 - new, new)
    if got != exp:
        found = (cen, wid, S1, got, exp)
        break
if found:
    cen, wid, S1, got, exp = found
    print("centres", cen.tolist()); print("own half-widths", wid.tolist()); print("S after discarding", sorted(S1))
    print("REAL  (S, P) after pareto_updating:", sorted(got[0]), sorted(got[1]))
    print("SPEC  (own widths):               ", sorted(exp[0]), sorted(exp[1]))
    print("REPLAY-CONFIRMED obligation=%s" % OBLIGATION); raise SystemExit(1)
print("REPLAY-NOT-REPRODUCED obligation=%s" % OBLIGATION); raise SystemExit(4)
