import sys, json, math
import numpy as np
np.seterr(all="ignore")
from vopy.confidence_region import *
from vopy.order import PolyhedralConeOrder
from vopy.ordering_cone import OrderingCone

def mk_order(W, alpha):
    cone = object.__new__(OrderingCone)
    cone.W = np.array(W, dtype=float); cone.dim = cone.W.shape[1]; cone.alpha = np.array(alpha, dtype=float)
    return PolyhedralConeOrder(cone)

def same(a, b, tol=1e-7):
    if a is None or b is None:
        return a is None and b is None
    if isinstance(b, (list, tuple)) and not isinstance(a, np.ndarray) and any(isinstance(x, (np.ndarray, list, tuple)) for x in b):
        return isinstance(a, (list, tuple)) and len(a) == len(b) and all(same(x, y, tol) for x, y in zip(a, b))
    if isinstance(b, str) or isinstance(a, str):
        return a == b
    if isinstance(b, bool) or isinstance(a, (bool, np.bool_)):
        return bool(a) == bool(b)
    a = np.asarray(a, dtype=float); b = np.asarray(b, dtype=float)
    if a.shape != b.shape:
        return False
    return bool(np.all(np.abs(a - b) <= tol * (1 + np.abs(b))))

# replay of obligation C13/get_pareto_set_naive[N=2,m=2]/no_returned_vector_is_strictly_dominated_by_any_vector
# solver: z3-5.1.0  status: failed (counter-model below)
OBLIGATION = 'C13/get_pareto_set_naive[N=2,m=2]/no_returned_vector_is_strictly_dominated_by_any_vector'
MODEL = {
"D_0_0": "True",
"el_1_0": "100001/10000099999000",
"D_1_0": "True",
"D_0_1": "False",
"el_0_1": "-1/10000099999000",
"el_0_0": "-1/10000099999000",
"el_1_1": "100001/10000099999000",
"D_1_1": "True"
}
from vopy.order import PolyhedralConeOrder
from vopy.ordering_cone import OrderingCone
el = np.array([[(-1/10000099999000), (-1/10000099999000)], [(100001/10000099999000), (100001/10000099999000)]], dtype=float)
N = len(el)
pairs = [(i, j) for i in range(N) for j in range(N) if i != j and np.allclose(el[i], el[j]) and not np.array_equal(el[i], el[j])]
print('vectors', el.tolist(), 'near-tie pairs', pairs)
bad = False
for (i, j) in pairs:
    d = el[j] - el[i]
    if np.linalg.norm(d) == 0: continue
    u = d / np.linalg.norm(d); c, s_ = np.cos(np.pi / 6), np.sin(np.pi / 6)
    W = np.array([u, [c * u[0] - s_ * u[1], s_ * u[0] + c * u[1]]])   # pointed cone containing d
    order = PolyhedralConeOrder(OrderingCone(W))
    got = list(order.get_pareto_set_naive(el))
    strict = [(a, b) for a in got for b in range(N) if b != a and order.dominates(el[b], el[a]).all() and not order.dominates(el[a], el[b]).all()]
    uncovered = [b for b in range(N) if not any(order.dominates(el[a], el[b]).all() for a in got)]
    print('cone', W.tolist(), 'returned', got, 'returned-but-strictly-dominated', strict, 'not covered', uncovered)
    bad = bad or bool(strict) or bool(uncovered)
if bad:
    print('REPLAY-CONFIRMED obligation=%s' % OBLIGATION)
    raise SystemExit(1)
print('REPLAY-NOT-REPRODUCED obligation=%s' % OBLIGATION)
raise SystemExit(4)

# ---- replay output ----
# vectors [[-9.99990000199997e-14, -9.99990000199997e-14], [1.000000000099999e-08, 1.000000000099999e-08]] near-tie pairs [(0, 1)]
# cone [[0.7071067811865476, 0.7071067811865476], [0.25881904510252085, 0.9659258262890683]] returned [0, 1] returned-but-strictly-dominated [(0, 1)] not covered []
# REPLAY-CONFIRMED obligation=C13/get_pareto_set_naive[N=2,m=2]/no_returned_vector_is_strictly_dominated_by_any_vector
