# native witness for the (fixed) finding C06: batch size larger than the number of candidates
# run: PYTHONPATH=/repo /venv/bin/python replays/known/C06_batch_larger_than_active_set.py
import numpy as np
from vopy.acquisition import optimize_acqf_discrete
OBLIGATION = "C07/optimize_acqf_discrete[choices=2,q=3]/no-raise"
class Acq:
    def __call__(self, x):
        return np.arange(len(x), dtype=float)
try:
    rows, vals = optimize_acqf_discrete(Acq(), 3, np.array([[0.0, 0.0], [1.0, 1.0]]))
    print("returned", rows.tolist(), vals.tolist())
    print("REPLAY-NOT-REPRODUCED obligation=%s" % OBLIGATION); raise SystemExit(4)
except ValueError as e:
    print("raised ValueError:", e)
    print("REPLAY-CONFIRMED obligation=%s" % OBLIGATION); raise SystemExit(1)
