import sys, json, math
import numpy as np
np.seterr(all="ignore")
from vopy.confidence_region import *
from vopy.order import PolyhedralConeOrder
from vopy.ordering_cone import OrderingCone

def mk_order(W, alpha):
    cone = object.__new__(OrderingCone)
    cone.W = np.array(W, dtype=float); cone.dim = cone.W.shape[1]; cone.alpha = np.array(alpha, dtype=float)
    return PolyhedralConeOrder(cone)

def same(a, b, tol=1e-7):
    if a is None or b is None:
        return a is None and b is None
    if isinstance(b, (list, tuple)) and not isinstance(a, np.ndarray) and any(isinstance(x, (np.ndarray, list, tuple)) for x in b):
        return isinstance(a, (list, tuple)) and len(a) == len(b) and all(same(x, y, tol) for x, y in zip(a, b))
    if isinstance(b, str) or isinstance(a, str):
        return a == b
    if isinstance(b, bool) or isinstance(a, (bool, np.bool_)):
        return bool(a) == bool(b)
    a = np.asarray(a, dtype=float); b = np.asarray(b, dtype=float)
    if a.shape != b.shape:
        return False
    return bool(np.all(np.abs(a - b) <= tol * (1 + np.abs(b))))

# replay of obligation C19/get_smallmij[m=2,K=2,alpha_shape=2x1]/result_is_min_over_facets_of_clipped_functional_over_own_alpha
# solver: z3-5.1.0(after fixing nonlinear factors)  status: failed (counter-model below)
OBLIGATION = 'C19/get_smallmij[m=2,K=2,alpha_shape=2x1]/result_is_min_over_facets_of_clipped_functional_over_own_alpha'
MODEL = {
"W_1_0": "1/5",
"W_0_0": "1/10",
"W_1_1": "0",
"W_0_1": "0",
"vi_1": "0",
"al_1_0": "11989/4",
"al_0_0": "1/4",
"vi_0": "0",
"vj_1": "3",
"vj_0": "5"
}
vi = np.array([(0/1), (0/1)], dtype=float)
vj = np.array([(5/1), (3/1)], dtype=float)
W = np.array([[(1/10), (0/1)], [(1/5), (0/1)]], dtype=float)
alpha = np.array([[(1/4)], [(11989/4)]], dtype=float)
import vopy.utils.utils as _mod
try:
    _res = _mod.get_smallmij(vi, vj, W, alpha)
    _out = ('return', _res)
except Exception as _e:
    _out = ('raise', type(_e).__name__)
_pred = ('return', (2/11989))
_ok = _out[0] == 'return' and same(_out[1], _pred[1])
print('REAL-OUTCOME', _out); print('ENGINE-PREDICTED', _pred)
if _ok:
    print('REPLAY-CONFIRMED obligation=%s (real code behaves as in the counter-model, where the clause is false)' % OBLIGATION)
    raise SystemExit(1)
print('REPLAY-NOT-REPRODUCED obligation=%s' % OBLIGATION)
raise SystemExit(4)

# ---- replay output ----
# REAL-OUTCOME ('return', 0.0001668195846192343)
# ENGINE-PREDICTED ('return', 0.0001668195846192343)
# REPLAY-CONFIRMED obligation=C19/get_smallmij[m=2,K=2,alpha_shape=2x1]/result_is_min_over_facets_of_clipped_functional_over_own_alpha (real code behaves as in the counter-model, where the clause is false)
