import sys, json, math
import numpy as np
np.seterr(all="ignore")
from vopy.confidence_region import *
from vopy.order import PolyhedralConeOrder
from vopy.ordering_cone import OrderingCone

def mk_order(W, alpha):
    cone = object.__new__(OrderingCone)
    cone.W = np.array(W, dtype=float); cone.dim = cone.W.shape[1]; cone.alpha = np.array(alpha, dtype=float)
    return PolyhedralConeOrder(cone)

def same(a, b, tol=1e-7):
    if a is None or b is None:
        return a is None and b is None
    if isinstance(b, (list, tuple)) and not isinstance(a, np.ndarray) and any(isinstance(x, (np.ndarray, list, tuple)) for x in b):
        return isinstance(a, (list, tuple)) and len(a) == len(b) and all(same(x, y, tol) for x, y in zip(a, b))
    if isinstance(b, str) or isinstance(a, str):
        return a == b
    if isinstance(b, bool) or isinstance(a, (bool, np.bool_)):
        return bool(a) == bool(b)
    a = np.asarray(a, dtype=float); b = np.asarray(b, dtype=float)
    if a.shape != b.shape:
        return False
    return bool(np.all(np.abs(a - b) <= tol * (1 + np.abs(b))))

# replay of obligation C15/get_gpytorch_model_w_known_hyperparams[IndependentExactGPyTorchModel,initial_sample_cnt=0]/returned_model_is_up_to_date:the_GP_conditions_on_exactly_the_samples_the_wrapper_holds
# solver: z3-5.1.0  status: failed (counter-model below)
OBLIGATION = 'C15/get_gpytorch_model_w_known_hyperparams[IndependentExactGPyTorchModel,initial_sample_cnt=0]/returned_model_is_up_to_date:the_GP_conditions_on_exactly_the_samples_the_wrapper_holds'
MODEL = {}
import warnings, types; warnings.filterwarnings('ignore')
import vopy.models.gpytorch as G
np.random.seed(0)
G.GPyTorchMultioutputExactModel.train = lambda self: None   # hyper-parameter fitting is irrelevant to the bookkeeping
X, Y = np.random.rand(6, 2), np.random.rand(6, 2)
M = G.get_gpytorch_model_w_known_hyperparams(G.IndependentExactGPyTorchModel, None, 0.1, 0, X=X, Y=Y)
held = tuple(M.train_inputs.shape); cond = tuple(M.model.train_inputs[0].shape)
print('wrapper holds', held[0], 'samples; inner GP conditions on', cond[-2], 'samples')
if held[0] != cond[-2]:
    print('REPLAY-CONFIRMED obligation=%s' % OBLIGATION)
    raise SystemExit(1)
print('REPLAY-NOT-REPRODUCED obligation=%s' % OBLIGATION)
raise SystemExit(4)

# ---- replay output ----
# wrapper holds 0 samples; inner GP conditions on 6 samples
# REPLAY-CONFIRMED obligation=C15/get_gpytorch_model_w_known_hyperparams[IndependentExactGPyTorchModel,initial_sample_cnt=0]/returned_model_is_up_to_date:the_GP_conditions_on_exactly_the_samples_the_wrapper_holds
