import sys, json, math
import numpy as np
np.seterr(all="ignore")
from vopy.confidence_region import *
from vopy.order import PolyhedralConeOrder
from vopy.ordering_cone import OrderingCone

def mk_order(W, alpha):
    cone = object.__new__(OrderingCone)
    cone.W = np.array(W, dtype=float); cone.dim = cone.W.shape[1]; cone.alpha = np.array(alpha, dtype=float)
    return PolyhedralConeOrder(cone)

def same(a, b, tol=1e-7):
    if a is None or b is None:
        return a is None and b is None
    if isinstance(b, (list, tuple)) and not isinstance(a, np.ndarray) and any(isinstance(x, (np.ndarray, list, tuple)) for x in b):
        return isinstance(a, (list, tuple)) and len(a) == len(b) and all(same(x, y, tol) for x, y in zip(a, b))
    if isinstance(b, str) or isinstance(a, str):
        return a == b
    if isinstance(b, bool) or isinstance(a, (bool, np.bool_)):
        return bool(a) == bool(b)
    a = np.asarray(a, dtype=float); b = np.asarray(b, dtype=float)
    if a.shape != b.shape:
        return False
    return bool(np.all(np.abs(a - b) <= tol * (1 + np.abs(b))))

# replay of obligation C15/GPyTorchModelListExactModel.get_lengthscale_and_var[d=3,m=2]/one_lengthscale_row_and_one_variance_per_objective
# solver: z3-5.1.0  status: failed (counter-model below)
OBLIGATION = 'C15/GPyTorchModelListExactModel.get_lengthscale_and_var[d=3,m=2]/one_lengthscale_row_and_one_variance_per_objective'
MODEL = {}
import warnings; warnings.filterwarnings('ignore')
from vopy.models import GPyTorchModelListExactModel
np.random.seed(0)
M = GPyTorchModelListExactModel(3, 2, 0.1)
for i in range(2): M.add_sample(np.random.rand(3, 3), np.random.rand(3), i)
M.update()
try:
    ls, var = M.get_lengthscale_and_var(); out = (ls.shape, var.shape)
except Exception as e:
    out = 'raise ' + type(e).__name__ + ': ' + str(e)
print('input_dim=3 objectives=2:', out, ' expected', ((2, 3), (2,)))
if out != ((2, 3), (2,)):
    print('REPLAY-CONFIRMED obligation=%s' % OBLIGATION)
    raise SystemExit(1)
print('REPLAY-NOT-REPRODUCED obligation=%s' % OBLIGATION)
raise SystemExit(4)

# ---- replay output ----
# input_dim=3 objectives=2: ((2, 3), (3,))  expected ((2, 3), (2,))
# REPLAY-CONFIRMED obligation=C15/GPyTorchModelListExactModel.get_lengthscale_and_var[d=3,m=2]/one_lengthscale_row_and_one_variance_per_objective
