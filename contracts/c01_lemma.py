"""C01 -- valid confidence regions imply an eps-accurate Pareto set (PaVeBa family; Auer instance).

A lemma over contracts (DESIGN 4/C01): the step contracts proved for the real discarding / pareto_updating /
useful_updating bodies (C02/C03, same Specs functions), the meaning of the two region predicates at the true means
(C09/C10) and the hypotheses H-valid (truth inside every region when it is displayed), H-nondeg (displayed regions have
non-empty interior: radii / scales are positive, C04) and termination.  Truth-level relations:
    Td(a, b): mu_a weakly dominates mu_b           G(p, q): m(p, q) <= eps  (q does not exceed p by eps along every cone direction)
"""
import z3

from pyvc.harness import task
from pyvc import setmode as SM
from pyvc import values as V
from . import spec as S
from .algos import COV, DOM, REGION, AlgoState, Specs, set_is, slack_num
from .c19_gaps import mij_spec

I = z3.IntSort()
e, x, y, p, q, a_, d_ = z3.Ints("e!q x!q y!q p!q q!q a!q d!q")


def _paveba(name):
    @task("C01", "lemma.%s" % name)
    def _t(t):
        t.mode = "lemma over the step contracts; sets, regions, predicate answers and true means arbitrary"
        A = AlgoState(t, name)
        sp = Specs(A)
        S0, P0, U0, REG = A.S0, A.P0, A.U0, A.REG0
        N = A.N
        Td = z3.Function("Td", I, I, z3.BoolSort())
        G = z3.Function("G", I, I, z3.BoolSort())
        INSIDE = z3.Function("INSIDE", REGION, I, z3.BoolSort())
        rank = z3.Function("rank", REGION, z3.RealSort())
        r1, r2 = z3.Consts("r1!q r2!q", REGION)
        zero, ae = slack_num(0), A.alpha_eps
        dsg = lambda i: z3.And(i >= 0, i < N)
        # truth-level facts (each proved as an arithmetic lemma below or in C12/C19)
        t.assume(z3.ForAll([x], Td(x, x)), z3.ForAll([x, y, e], z3.Implies(z3.And(Td(x, y), Td(y, e)), Td(x, e))),
                 z3.ForAll([x], G(x, x)), z3.ForAll([p, a_, q], z3.Implies(z3.And(G(p, a_), Td(a_, q)), G(p, q))))
        # meaning of the predicates at the true means (C09 / C10; lemma below)
        M1 = z3.ForAll([r1, r2, p, q], z3.Implies(z3.And(DOM(A.order, r1, r2, zero), INSIDE(r1, p), INSIDE(r2, q)), Td(q, p)))
        M2 = z3.ForAll([r1, r2, p, q], z3.Implies(z3.And(z3.Not(COV(A.order, r1, r2, ae)), INSIDE(r1, p), INSIDE(r2, q)), G(p, q)))
        t.assume(M1, M2)
        # H-valid for every design's stored region (regions of non-active designs are not touched: modeling contract)
        t.axiom("H-valid: truth inside every region when displayed (hypothesis of the property)", z3.ForAll([e], z3.Implies(dsg(e), INSIDE(z3.Select(REG, e), e))))
        # H-nondeg + pointed cone with interior: a dominated region has strictly smaller rank g(R) = max_{z in R} (sum_k W_k).z
        t.axiom("rank: DOM(R1, R2, 0) => g(R2) > g(R1) for non-degenerate regions", z3.ForAll([r1, r2], z3.Implies(DOM(A.order, r1, r2, zero), rank(r2) > rank(r1))))
        t.must_fail()
        active = lambda i: z3.Or(z3.Select(S0, i), z3.Select(U0, i))
        alive = lambda Sx, Px: (lambda i: z3.Or(z3.Select(Sx, i), z3.Select(Px, i)))
        # ---- discarding
        S1 = z3.Const("S1", SM.SETSORT)
        # what the lemma consumes of discarding() (obligations safe/..., mono/... of C02/<algo>.discarding, discharged as
        # dependencies of this check): S only shrinks, and a design leaves S only with a zero-slack certificate
        cert = sp.cert_paveba(S0, U0, REG)
        disc = z3.And(z3.ForAll([e], z3.Implies(z3.Select(S1, e), z3.Select(S0, e))),
                      z3.ForAll([e], z3.Implies(z3.And(z3.Select(S0, e), z3.Not(z3.Select(S1, e))), cert(e))))
        # same-round chains of discards: the g-maximal dominator of a discarded design survives (finite_argmax instance)
        pd = z3.Int("pd")
        Dset = lambda i: z3.And(active(i), Td(i, pd))
        astar = z3.Int("astar")
        argmax_inst = z3.Implies(z3.Exists([y], Dset(y)), z3.And(Dset(astar), z3.ForAll([y], z3.Implies(Dset(y), rank(z3.Select(REG, y)) <= rank(z3.Select(REG, astar))))))
        t.axiom("finite_argmax: a real function on a non-empty finite set attains its maximum (one instance)", argmax_inst)
        t.prove("I2a:a_design_discarded_now_is_weakly_dominated_by_a_design_that_stays_active",
                z3.Implies(z3.And(disc, dsg(pd), z3.Select(S0, pd), z3.Not(z3.Select(S1, pd))),
                           z3.And(alive(S1, P0)(astar), Td(astar, pd))))
        I2 = lambda Sx, Px: z3.ForAll([d_], z3.Implies(z3.And(dsg(d_), z3.Not(alive(Sx, Px)(d_))), z3.Exists([a_], z3.And(alive(Sx, Px)(a_), Td(a_, d_)))))
        claimC = z3.ForAll([x], z3.Implies(z3.And(z3.Select(S0, x), z3.Not(z3.Select(S1, x))), z3.Exists([a_], z3.And(alive(S1, P0)(a_), Td(a_, x)))))
        t.prove("I2b:every_discarded_design_keeps_a_dominator_among_the_active_ones(given I2a for each new discard)",
                z3.Implies(z3.And(disc, I2(S0, P0), claimC), I2(S1, P0)))
        # ---- pareto_updating: promoted designs have gap <= eps against EVERY design
        I3 = lambda Px: z3.ForAll([p, q], z3.Implies(z3.And(z3.Select(Px, p), dsg(q)), G(p, q)))
        I4 = z3.ForAll([x, q], z3.Implies(z3.And(z3.Select(S0, x), z3.Select(P0, q), z3.Not(z3.Select(U0, q))), G(x, q)))
        S2, P2 = z3.Consts("S2 P2", SM.SETSORT)
        new = sp.new(S0, [S0, U0], REG, ae)
        # consumed of pareto_updating() (safe/..., mono/... of C03/<algo>.pareto_updating): a design enters P only from S and
        # only when no active region can cover it; candidates stay in S or move to P; S shrinks, P grows
        prom = z3.And(z3.ForAll([e], z3.Implies(z3.And(z3.Select(P2, e), z3.Not(z3.Select(P0, e))), new(e))),
                      z3.ForAll([e], z3.Implies(z3.Select(S0, e), z3.Or(z3.Select(S2, e), z3.Select(P2, e)))),
                      z3.ForAll([e], z3.Implies(z3.Select(S2, e), z3.Select(S0, e))),
                      z3.ForAll([e], z3.Implies(z3.Select(P0, e), z3.Select(P2, e))),
                      z3.ForAll([e], z3.Implies(z3.Select(P2, e), z3.Or(z3.Select(P0, e), z3.Select(S0, e)))))
        inv0 = z3.And(z3.ForAll([e], z3.Implies(z3.Select(U0, e), z3.Select(P0, e))), z3.ForAll([e], z3.Implies(alive(S0, P0)(e), dsg(e))))
        t.prove("I3:a_promoted_design_has_gap_at_most_eps_against_every_design", z3.Implies(z3.And(inv0, I2(S0, P0), I3(P0), I4, prom), I3(P2)))
        t.prove("I2:promotion_keeps_the_active_union", z3.Implies(prom, z3.ForAll([e], alive(S0, P0)(e) == alive(S2, P2)(e))))
        # ---- useful_updating re-establishes I4 for the next round
        U3 = z3.Const("U3", SM.SETSORT)
        # consumed of useful_updating() (safe/..., mono/...): U keeps every member of P that can still cover a candidate
        use = z3.And(z3.ForAll([e], z3.Implies(sp.useful(S0, P0, REG, ae)(e), z3.Select(U3, e))),
                     z3.ForAll([e], z3.Implies(z3.Select(U3, e), z3.Select(P0, e))))
        t.prove("I4:every_candidate_has_gap_at_most_eps_against_members_of_P_that_are_no_longer_useful",
                z3.Implies(z3.And(inv0, use), z3.ForAll([x, q], z3.Implies(z3.And(z3.Select(S0, x), z3.Select(P0, q), z3.Not(z3.Select(U3, q))), G(x, q)))))
        # ---- final
        empty = z3.ForAll([e], z3.Not(z3.Select(S0, e)))
        t.prove("final:every_design_left_out_of_P_is_weakly_dominated_by_a_member_of_P", z3.Implies(z3.And(empty, I2(S0, P0)),
                z3.ForAll([d_], z3.Implies(z3.And(dsg(d_), z3.Not(z3.Select(P0, d_))), z3.Exists([a_], z3.And(z3.Select(P0, a_), Td(a_, d_)))))))
        t.prove("final:every_member_of_P_has_gap_at_most_eps", z3.Implies(I3(P0), z3.ForAll([p, q], z3.Implies(z3.And(z3.Select(P0, p), dsg(q)), G(p, q)))))
    return _t


for _n in ("PaVeBa", "PaVeBaGP", "PaVeBaPartialGP"):
    _paveba(_n)


def _truth_lemmas(m, K):
    @task("C01", "lemma.truth_level_facts[m=%d,K=%d]" % (m, K))
    def _t(t):
        """Arithmetic behind the truth-level relations: the gap bound is monotone along weak domination, and the meaning of
        'not coverable' for ELLIPSOIDS (per-facet slack alpha_k eps) and for RECTANGLES (slack vector alpha*eps read in objective space)."""
        W = [S.reals("w%d" % k, m) for k in range(K)]
        al = S.reals("al", K)
        eps = z3.Real("eps")
        mp, mq, ma = S.reals("mp", m), S.reals("mq", m), S.reals("ma", m)
        pos = z3.And(eps >= 0, *[a > 0 for a in al])
        gap = lambda i, j: mij_spec(W, al, i, j)
        # mono_gap: dominating a design cannot lower the gap bound.  Per facet (a): W_k.(mq - mp) <= W_k.(ma - mp) when ma dominates mq,
        # hence the clipped, alpha-scaled terms are ordered; (b) the minimum of ordered terms is ordered (abstract reals).
        clip = lambda v: z3.If(v < 0, z3.RealVal(0), v)
        for k in range(K):
            t.prove("mono_gap/a:facet_%d_term_is_monotone" % k,
                    z3.Implies(z3.And(pos, S.dot(W[k], S.vsub(ma, mq)) >= 0),
                               clip(S.dot(W[k], S.vsub(mq, mp))) / al[k] <= clip(S.dot(W[k], S.vsub(ma, mp))) / al[k]), use_pre=False)
        xs, ys = S.reals("x", K), S.reals("y", K)
        zmin = lambda v: __import__("functools").reduce(lambda a, b: z3.If(b < a, b, a), v)
        t.prove("mono_gap/b:minimum_of_termwise_smaller_values_is_smaller", z3.Implies(z3.And(*[x <= y for x, y in zip(xs, ys)], zmin(ys) <= eps), zmin(xs) <= eps), use_pre=False)
        t.prove("self_gap_is_zero", z3.Implies(pos, gap(mp, mp) <= eps), use_pre=False)
        # ellipsoids: not coverable with per-facet slack alpha_k eps, truths inside => some facet has W_k (mu_q - mu_p) < alpha_k eps => gap <= eps
        some_facet = z3.Or(*[S.dot(W[k], S.vsub(mq, mp)) < al[k] * eps for k in range(K)])
        t.prove("ellipsoid_promotion:a_facet_below_its_own_alpha_eps_bounds_the_gap", z3.Implies(z3.And(pos, some_facet), gap(mp, mq) <= eps), use_pre=False)
        if K == m:
            # rectangles: the slack handed over is the vector (alpha_1 eps, .., alpha_K eps) SUBTRACTED IN OBJECTIVE SPACE:
            # not coverable => some facet has W_k (mu_q - mu_p - alpha*eps) < 0, i.e. W_k (mu_q - mu_p) < eps (W alpha)_k
            svec = [al[c] * eps for c in range(m)]
            rect_facet = z3.Or(*[S.dot(W[k], S.vsub(S.vsub(mq, svec), mp)) < 0 for k in range(K)])
            goal = z3.Implies(z3.And(pos, rect_facet), gap(mp, mq) <= eps)
            t.prove("rectangle_promotion:objective_space_slack_alpha_eps_bounds_the_gap", goal, use_pre=False, replay=rect_replay())
            # residual (outside the finding's witness class): cones with (W alpha)_k <= alpha_k for every facet, e.g. the orthant
            # and acute cones.  Per facet: W_k (d - alpha*eps) < 0 and (W alpha)_k <= alpha_k give W_k d < alpha_k eps, which is the
            # ellipsoid case proved above.
            dd = S.vsub(mq, mp)
            steps = []
            for k in range(K):
                steps.append(z3.Implies(z3.And(pos, S.dot(W[k], al) <= al[k], S.dot(W[k], S.vsub(dd, svec)) < 0), S.dot(W[k], dd) < al[k] * eps))
            t.prove("rectangle_promotion:objective_space_slack_alpha_eps_bounds_the_gap/residual", z3.And(*steps), use_pre=False, timeout_ms=max(t.timeout_ms, 30000))
    return _t


def rect_replay():
    def builder(mdl):
        return ["exec(open('replays/known/C01_rectangle_slack_units_obtuse_cone.py').read())"]
    return builder


_truth_lemmas(2, 2)
_truth_lemmas(3, 3)
_truth_lemmas(2, 3)


# ----------------------------------------------------------------------------------------------
# Auer's instance.  The componentwise order; a design's displayed region is the box centre +- own half-widths.
#   CERT(i, j):  m^(i, j) exceeds w_i,k + w_j,k in EVERY objective k          (the discarding test of the real body)
#   PASS(p, j):  not ( M^(p, j) < w_p,k + w_j,k for every k )                  (first stage of pareto_updating: p passes against j)
#   FREE(x, q):  not ( M^(x, q) <= w_q,k + w_x,k for every k )                 (second stage: the non-passing x does not need q)
# Consumed of the real bodies (C02/C03 Auer tasks, safe/ and mono/ clauses, discharged as dependencies of this check):
#   a design leaves S only with CERT against another candidate; it enters P only from S, only if it PASSes against every
#   other candidate and every non-passing candidate is FREE of it.
# Truth-level meaning of the three tests when the truths are inside the boxes: the arithmetic lemma below.
# ----------------------------------------------------------------------------------------------

@task("C01", "lemma.Auer")
def _auer_lemma(t):
    t.mode = "lemma over the Auer step contracts; sets, test answers and true means arbitrary"
    N = z3.Int("N")
    S0, P0, S1, S2, P2 = z3.Consts("S0 P0 S1 S2 P2", SM.SETSORT)
    Td = z3.Function("Td", I, I, z3.BoolSort())
    G = z3.Function("G", I, I, z3.BoolSort())
    CERT = z3.Function("CERT", I, I, z3.BoolSort())
    PASS = z3.Function("PASS", I, I, z3.BoolSort())
    FREE = z3.Function("FREE", I, I, z3.BoolSort())
    rank = z3.Function("rank_truth", I, z3.RealSort())     # sum of the true objective values
    dsg = lambda i: z3.And(i >= 0, i < N)
    inS = lambda i: z3.Select(S0, i)
    t.assume(N >= 0, z3.ForAll([e], z3.Implies(z3.Or(z3.Select(S0, e), z3.Select(P0, e)), dsg(e))),
             z3.ForAll([e], z3.Not(z3.And(z3.Select(S0, e), z3.Select(P0, e)))))
    t.assume(z3.ForAll([x], Td(x, x)), z3.ForAll([x, y, e], z3.Implies(z3.And(Td(x, y), Td(y, e)), Td(x, e))),
             z3.ForAll([x], G(x, x)), z3.ForAll([p, a_, q], z3.Implies(z3.And(G(p, a_), Td(a_, q)), G(p, q))),
             z3.ForAll([x, y], z3.Implies(Td(x, y), rank(x) >= rank(y))))
    # meaning of the tests for candidates (H-valid: the truths of the candidates are inside their displayed boxes); the
    # arithmetic is lemma.Auer_truth_level_facts
    t.axiom("H-valid + arithmetic lemma: a certified pair is strictly dominated in truth", z3.ForAll([x, y], z3.Implies(z3.And(inS(x), inS(y), CERT(x, y)), z3.And(Td(y, x), rank(y) > rank(x)))))
    t.axiom("H-valid + arithmetic lemma: a passing pair has gap at most eps", z3.ForAll([x, y], z3.Implies(z3.And(inS(x), inS(y), PASS(x, y)), G(x, y))))
    t.axiom("H-valid + arithmetic lemma: a free pair has gap at most eps", z3.ForAll([x, y], z3.Implies(z3.And(inS(x), inS(y), FREE(x, y)), G(x, y))))
    t.must_fail()
    alive = lambda Sx, Px: (lambda i: z3.Or(z3.Select(Sx, i), z3.Select(Px, i)))
    I2 = lambda Sx, Px: z3.ForAll([d_], z3.Implies(z3.And(dsg(d_), z3.Not(alive(Sx, Px)(d_))), z3.Exists([a_], z3.And(alive(Sx, Px)(a_), Td(a_, d_)))))
    I3 = lambda Px: z3.ForAll([p, q], z3.Implies(z3.And(z3.Select(Px, p), dsg(q)), G(p, q)))
    I4 = lambda Sx, Px: z3.ForAll([x, q], z3.Implies(z3.And(z3.Select(Sx, x), z3.Select(Px, q)), G(x, q)))
    # ---- discarding
    disc = z3.And(z3.ForAll([e], z3.Implies(z3.Select(S1, e), z3.Select(S0, e))),
                  z3.ForAll([e], z3.Implies(z3.And(z3.Select(S0, e), z3.Not(z3.Select(S1, e))), z3.Exists([y], z3.And(inS(y), y != e, CERT(e, y))))))
    pd, astar = z3.Int("pd"), z3.Int("astar")
    Dset = lambda i: z3.And(alive(S0, P0)(i), Td(i, pd))
    t.axiom("finite_argmax: a real function on a non-empty finite set attains its maximum (one instance)",
            z3.Implies(z3.Exists([y], Dset(y)), z3.And(Dset(astar), z3.ForAll([y], z3.Implies(Dset(y), rank(y) <= rank(astar))))))
    t.prove("I2a:a_design_discarded_now_is_weakly_dominated_by_a_design_that_stays_active",
            z3.Implies(z3.And(disc, dsg(pd), z3.Select(S0, pd), z3.Not(z3.Select(S1, pd))), z3.And(alive(S1, P0)(astar), Td(astar, pd))))
    claimC = z3.ForAll([x], z3.Implies(z3.And(z3.Select(S0, x), z3.Not(z3.Select(S1, x))), z3.Exists([a_], z3.And(alive(S1, P0)(a_), Td(a_, x)))))
    t.prove("I2b:every_discarded_design_keeps_a_dominator_among_the_active_ones(given I2a for each new discard)",
            z3.Implies(z3.And(disc, I2(S0, P0), claimC), I2(S1, P0)))
    t.prove("I4:kept_by_discarding", z3.Implies(z3.And(disc, I4(S0, P0)), I4(S1, P0)))
    # ---- pareto_updating
    P1 = lambda i: z3.ForAll([y], z3.Implies(z3.And(inS(y), y != i), PASS(i, y)))
    HELD = lambda i: z3.Exists([a_], z3.And(inS(a_), z3.Not(P1(a_)), z3.Not(FREE(a_, i))))   # (a_: P1 binds y itself)
    prom = z3.And(z3.ForAll([e], z3.Implies(z3.And(z3.Select(P2, e), z3.Not(z3.Select(P0, e))), z3.And(inS(e), P1(e), z3.Not(HELD(e))))),
                  z3.ForAll([e], z3.Implies(z3.Select(S0, e), z3.Or(z3.Select(S2, e), z3.Select(P2, e)))),
                  z3.ForAll([e], z3.Implies(z3.Select(S2, e), z3.Select(S0, e))),
                  z3.ForAll([e], z3.Implies(z3.Select(P0, e), z3.Select(P2, e))),
                  z3.ForAll([e], z3.Implies(z3.Select(P2, e), z3.Or(z3.Select(P0, e), z3.Select(S0, e)))),
                  z3.ForAll([e], z3.Not(z3.And(z3.Select(S2, e), z3.Select(P2, e)))))
    t.prove("I3:a_promoted_design_has_gap_at_most_eps_against_every_design", z3.Implies(z3.And(I2(S0, P0), I3(P0), I4(S0, P0), prom), I3(P2)), timeout_ms=max(t.timeout_ms, 60000))
    t.prove("I4:every_remaining_candidate_has_gap_at_most_eps_against_every_member_of_P", z3.Implies(z3.And(I4(S0, P0), prom), I4(S2, P2)), timeout_ms=max(t.timeout_ms, 60000))
    t.prove("I2:promotion_keeps_the_active_union", z3.Implies(prom, z3.ForAll([e], alive(S0, P0)(e) == alive(S2, P2)(e))))
    # ---- final
    empty = z3.ForAll([e], z3.Not(z3.Select(S0, e)))
    t.prove("final:every_design_left_out_of_P_is_weakly_dominated_by_a_member_of_P", z3.Implies(z3.And(empty, I2(S0, P0)),
            z3.ForAll([d_], z3.Implies(z3.And(dsg(d_), z3.Not(z3.Select(P0, d_))), z3.Exists([a_], z3.And(z3.Select(P0, a_), Td(a_, d_)))))))
    t.prove("final:every_member_of_P_has_gap_at_most_eps", z3.Implies(I3(P0), z3.ForAll([p, q], z3.Implies(z3.And(z3.Select(P0, p), dsg(q)), G(p, q)))))


def _auer_truth(m):
    @task("C01", "lemma.Auer_truth_level_facts[m=%d]" % m)
    def _t(t):
        """Arithmetic behind CERT / PASS / FREE for two candidates whose true means lie in their displayed boxes
        (componentwise order, alpha_k = 1: gap(p, q) <= eps  iff  some objective has mu_q <= mu_p + eps)."""
        cp, cq, wp, wq, mp, mq = (S.reals(n, m) for n in ("cp", "cq", "wp", "wq", "mp", "mq"))
        eps = z3.Real("eps")
        inside = z3.And(*[z3.And(cp[k] - wp[k] <= mp[k], mp[k] <= cp[k] + wp[k], cq[k] - wq[k] <= mq[k], mq[k] <= cq[k] + wq[k]) for k in range(m)])
        zmax = lambda v: __import__("functools").reduce(lambda a, b: z3.If(b > a, b, a), v)
        zmin = lambda v: __import__("functools").reduce(lambda a, b: z3.If(b < a, b, a), v)
        small_m = zmax([z3.RealVal(0), zmin([cq[k] - cp[k] for k in range(m)])])                    # m^(p, q)
        big_m = lambda a, b: zmax([z3.RealVal(0), zmax([a[k] + eps - b[k] for k in range(m)])])      # M^(a, b)
        pre = z3.And(eps >= 0, inside)
        nondeg = z3.And(*[z3.And(wp[k] > 0, wq[k] > 0) for k in range(m)])
        uniform = z3.And(*[z3.And(wp[k] == wp[0], wq[k] == wq[0]) for k in range(m)])
        cert = z3.And(*[small_m > wp[k] + wq[k] for k in range(m)])
        t.prove("CERT:a_design_beaten_by_more_than_both_own_widths_in_every_objective_is_strictly_dominated_in_truth",
                z3.Implies(z3.And(pre, z3.And(*[w >= 0 for w in wp + wq]), cert), z3.And(*[mq[k] > mp[k] for k in range(m)])), use_pre=False)
        gap_ok = z3.Or(*[mq[k] <= mp[k] + eps for k in range(m)])
        passes = z3.Not(z3.And(*[big_m(cp, cq) < wp[k] + wq[k] for k in range(m)]))
        free = z3.Not(z3.And(*[big_m(cp, cq) <= wp[k] + wq[k] for k in range(m)]))
        # the tests compare ONE scalar M^ with EVERY objective's summed width: with per-objective widths (use_empirical_beta)
        # a single narrow objective lets the pair pass although the truths differ by more than eps in every objective
        t.prove("PASS_and_FREE:a_pair_that_passes_the_promotion_tests_has_gap_at_most_eps(per-objective widths)",
                z3.Implies(z3.And(pre, nondeg, z3.Or(passes, free)), gap_ok), use_pre=False, replay=auer_widths_replay())
        t.prove("PASS_and_FREE:a_pair_that_passes_the_promotion_tests_has_gap_at_most_eps/residual(widths equal across objectives)",
                z3.Implies(z3.And(pre, nondeg, uniform, z3.Or(passes, free)), gap_ok), use_pre=False)
    return _t


def auer_widths_replay():
    def builder(mdl):
        return ["exec(open('replays/known/C01_auer_per_objective_widths.py').read())"]
    return builder


_auer_truth(2)
_auer_truth(3)
