"""C20 -- problems return the nearest design's value plus configured noise; inputs untouched; scaling inverses."""
from fractions import Fraction

import z3

from pyvc.harness import InArr, InConst, InReal, task, cls_ref
from pyvc import libmodel as L
from pyvc import values as V
from pyvc.values import SObj
from pyvc.symexec import find_obj
from . import spec as S

UT = "vopy/utils/utils.py"
MP = "vopy/maximization_problem.py"


def sqd(a, b):
    return sum(((V.R(x) - V.R(y)) * (V.R(x) - V.R(y)) for x, y in zip(a[1:], b[1:])), (V.R(a[0]) - V.R(b[0])) * (V.R(a[0]) - V.R(b[0])))


def first_argmin(r, i, F, C, nC, d):
    """r is the first index minimising the squared distance of row i of F to the rows of C."""
    fi = [F.a[i, c] for c in range(d)]
    rows = [[C.a[j, c] for c in range(d)] for j in range(nC)]
    return z3.Or(*[z3.And(V.Z(r) == j, *([sqd(fi, rows[j]) <= sqd(fi, rows[k]) for k in range(nC)] +
                                            [sqd(fi, rows[k]) > sqd(fi, rows[j]) for k in range(j)])) for j in range(nC)])


def _closest(nF, nC, d, squared):
    @task("C20", "get_closest_indices[find=%d,check=%d,d=%d,squared=%s]" % (nF, nC, d, squared))
    def _t(t):
        F = t.inp("F", InArr("F", (nF, d)))
        C = t.inp("C", InArr("C", (nC, d)))
        paths = t.run(UT, "get_closest_indices_from_points", [F, C], {"squared": squared})
        t.must_fail()
        t.no_raise(paths)
        FS, CS = t.inputs["F"].snapshot, t.inputs["C"].snapshot

        def goal(p):
            r = p.value
            if not isinstance(r, L.SArr) or r.shape != (nF,) or r.kind != "i":
                return False
            return z3.And(*[first_argmin(r.flat()[i], i, FS, CS, nC, d) for i in range(nF)])
        t.prove_paths("each_result_is_the_first_nearest_row", paths, goal)
        t.frame_unchanged("frame:inputs-not-written", paths, ["F", "C"])
        t.agree(paths, k=2)
        t.implicit()
    return _t


_closest(1, 3, 2, True)
_closest(2, 3, 2, True)
_closest(2, 2, 1, False)
_closest(1, 4, 3, True)


@task("C20", "get_closest_indices[empty]")
def _closest_empty(t):
    F = t.inp("F", InArr("F", (0, 2)))
    C = t.inp("C", InArr("C", (3, 2)))
    paths = t.run(UT, "get_closest_indices_from_points", [F, C])
    t.prove("empty_query_gives_empty_list", z3.BoolVal(len(paths) == 1 and paths[0].kind == "return" and paths[0].value == []))


def dataset_stub(t, D, d, m):
    ind = t.inp("in_data", InArr("ind", (D, d)))
    outd = t.inp("out_data", InArr("outd", (D, m)))
    return SObj("DatasetStub", {"in_data": ind, "out_data": outd, "in_dim": d, "out_dim": m})


def _pfd_eval(xshape, D, d, m, noisy):
    @task("C20", "ProblemFromDataset.evaluate[x=%s,D=%d,m=%d,noisy=%s]" % ("x".join(map(str, xshape)), D, m, noisy))
    def _t(t):
        ds = dataset_stub(t, D, d, m)
        chol = t.inp("noise_cholesky", InArr("Lc", (m, m)))
        nv = t.inp("noise_var", InReal("noise_var"))
        prob = SObj(cls_ref(MP, "ProblemFromDataset"), {"dataset": ds, "noise_var": nv, "noise_cholesky": chol})
        x = t.inp("x", InArr("x", xshape))
        paths = t.run(MP, "ProblemFromDataset.evaluate", [x], {"noisy": noisy}, self_val=prob)
        t.must_fail()
        t.no_raise(paths)
        N = 1 if len(xshape) == 1 else xshape[0]
        XS = t.inputs["x"].snapshot
        X2 = L.SArr(XS.a.reshape(N, d), "f")
        IN, OUT, LC = t.inputs["in_data"].snapshot, t.inputs["out_data"].snapshot, t.inputs["noise_cholesky"].snapshot

        def goal(p):
            r = p.value
            if not isinstance(r, L.SArr) or r.shape != (N, m):
                return False
            cs = []
            E = None
            if noisy:
                rnd = p.st.roots.get("__random__") or []
                if len(rnd) != 1 or rnd[0].shape != (N, m):
                    return False
                E = rnd[0]
            for i in range(N):
                idx = z3.Int("near_%d" % i)
                row_ok = []
                for j in range(D):
                    vals = []
                    for c in range(m):
                        base = V.R(OUT.a[j, c])
                        if noisy:
                            # noise with the configured covariance Lc Lc^T: each sample row is Lc z, i.e. E @ Lc^T
                            base = base + sum(V.R(E.a[i, k]) * V.R(LC.a[c, k]) for k in range(m))
                        vals.append(V.R(r.a[i, c]) == base)
                    row_ok.append(z3.Implies(idx == j, z3.And(*vals)))
                cs.append(z3.Exists([idx], z3.And(first_argmin(idx, i, X2, IN, D, d), *row_ok)))
            return z3.And(*cs)
        name = "value_of_nearest_design" + ("_plus_noise_with_the_configured_covariance" if noisy else "_exactly")
        t.prove_paths(name, paths, goal, replay=noise_replay(t) if noisy else None)
        t.frame_unchanged("frame:x-and-dataset-not-written", paths, ["x", "in_data", "out_data", "noise_cholesky"])
        t.implicit()
    return _t


def noise_replay(t):
    def builder(m):
        me = lambda x: m.eval(V.Z(x), model_completion=True)
        from pyvc.harness import _arr_src
        LC = t.inputs["noise_cholesky"].snapshot
        k = LC.shape[0]
        return ["import vopy.utils.utils as U",
                "Lc = %s" % _arr_src(me, LC),
                "k = %d" % k,
                "E = np.eye(k)",
                "_orig = np.random.normal",
                "np.random.normal = lambda *a, **kw: E.copy()   # deterministic draw: read off the linear map",
                "out = U.get_noisy_evaluations_chol(np.zeros((k, k)), Lc)",
                "np.random.normal = _orig",
                "cov_realised = out.T @ out      # covariance of z -> (row) z @ M is M^T M",
                "cov_configured = Lc @ Lc.T",
                "print('factor', Lc.tolist()); print('realised covariance', cov_realised.tolist()); print('configured covariance', cov_configured.tolist())",
                "if not np.allclose(cov_realised, cov_configured):",
                "    print('REPLAY-CONFIRMED obligation=%s (noise covariance differs from the configured one)' % OBLIGATION)",
                "    raise SystemExit(1)",
                "print('REPLAY-NOT-REPRODUCED obligation=%s' % OBLIGATION)", "raise SystemExit(4)"]
    return builder


_pfd_eval((2,), 3, 2, 2, False)
_pfd_eval((1, 2), 3, 2, 2, False)
_pfd_eval((2, 2), 3, 2, 2, False)
_pfd_eval((2, 2), 2, 2, 3, False)
_pfd_eval((1, 2), 2, 2, 2, True)
_pfd_eval((2, 2), 2, 2, 2, True)


def _noisy_chol(n, k):
    @task("C20", "get_noisy_evaluations_chol[n=%d,k=%d]" % (n, k))
    def _t(t):
        means = t.inp("means", InArr("mu", (n, k)))
        chol = t.inp("noise_cholesky", InArr("Lc", (k, k)))
        LC = t.inputs["noise_cholesky"].snapshot
        # a Cholesky factor: lower triangular
        t.assume(*[V.R(LC.a[i, j]) == 0 for i in range(k) for j in range(k) if j > i])
        paths = t.run(UT, "get_noisy_evaluations_chol", [means, chol])
        t.must_fail()
        t.cover("non-diagonal-factor-allowed", [V.R(LC.a[1, 0]) != 0])
        t.no_raise(paths)
        MU = t.inputs["means"].snapshot

        def goal(p):
            r = p.value
            rnd = p.st.roots.get("__random__") or []
            if not isinstance(r, L.SArr) or r.shape != (n, k) or len(rnd) != 1 or rnd[0].shape != (n, k):
                return False
            E = rnd[0]
            return z3.And(*[V.R(r.a[i, c]) == V.R(MU.a[i, c]) + sum(V.R(E.a[i, j]) * V.R(LC.a[c, j]) for j in range(k))
                            for i in range(n) for c in range(k)])
        t.prove_paths("samples_are_means_plus_L_times_standard_normal_draw(covariance L L^T)", paths, goal, replay=noise_replay(t))
        t.frame_unchanged("frame:inputs-not-written", paths, ["means", "noise_cholesky"])
    return _t


_noisy_chol(1, 2)
_noisy_chol(2, 2)
_noisy_chol(1, 3)


@task("C20", "get_noisy_evaluations_chol.raises")
def _noisy_raises(t):
    means = t.inp("means", InArr("mu", (2, 3)))
    chol = t.inp("noise_cholesky", InArr("Lc", (2, 2)))
    paths = t.run(UT, "get_noisy_evaluations_chol", [means, chol])
    t.prove("dimension_mismatch_is_rejected_with_an_exception", z3.BoolVal(bool(paths) and all(p.kind == "raise" for p in paths)))


def _constructor(cls, m):
    @task("C20", "%s.__init__[m=%d]" % (cls, m))
    def _t(t):
        nv = t.inp("noise_var", InReal("noise_var"))
        t.assume(nv > 0)
        if cls == "ProblemFromDataset":
            ds = SObj("DatasetStub", {"out_dim": m, "in_dim": 2})
            obj = SObj(cls_ref(MP, cls))
            paths = t.run(MP, cls + ".__init__", [ds, nv], self_val=obj)
        else:
            obj = SObj(cls_ref(MP, "ContinuousProblem"), {"out_dim": m})
            paths = t.run(MP, "ContinuousProblem.__init__", [nv], self_val=obj)
        t.no_raise(paths)

        def goal(p):
            o = find_obj(p.st, obj.oid)
            C = o.fields["noise_cholesky"]
            if C.shape != (m, m):
                return False
            cs = []
            for i in range(m):
                for j in range(m):
                    if i == j:
                        cs.append(z3.And(V.R(C.a[i, i]) > 0, V.R(C.a[i, i]) * V.R(C.a[i, i]) == V.R(nv)))
                    else:
                        cs.append(V.R(C.a[i, j]) == 0)
            return z3.And(*cs)
        t.prove_paths("noise_factor_is_sqrt_noise_var_times_identity", paths, goal)
    return _t


_constructor("ProblemFromDataset", 2)
_constructor("ProblemFromDataset", 3)
_constructor("ContinuousProblem", 2)


@task("C20", "lemma.noise_covariance_of_constructed_factors")
def _noise_cov_lemma(t):
    """For the factors the constructors produce (c*I) the realised map E -> E C and the specified E -> E C^T coincide."""
    c = z3.Real("c")
    e = S.reals("e", 2)
    C = [[c, 0], [0, c]]
    a = [sum(e[k] * C[k][j] for k in range(2)) for j in range(2)]
    b = [sum(e[k] * C[j][k] for k in range(2)) for j in range(2)]
    t.prove("E_C_equals_E_Ctranspose_for_scalar_multiples_of_identity", z3.And(*[x == y for x, y in zip(a, b)]), use_pre=False)


@task("C20", "BraninCurrin.evaluate[frame]")
def _branin_frame(t):
    x = t.inp("x", InArr("x", (2, 2)))
    XS = t.inputs["x"].snapshot
    t.assume(*[z3.And(V.R(v) >= 0, V.R(v) <= 1) for v in XS.flat()])
    chol = t.inp("noise_cholesky", InArr("Lc", (2, 2)))
    obj = SObj(cls_ref(MP, "BraninCurrin"), {"noise_var": z3.Real("nv"), "noise_cholesky": chol})
    paths = t.run(MP, "ContinuousProblem.evaluate", [x], {"noisy": False}, self_val=obj)
    t.cover("a-zero-in-the-second-column-is-allowed", [V.R(XS.a[0, 1]) == 0])
    t.no_raise(paths)
    t.prove_paths("result_shape_N_by_2", paths, lambda p: z3.BoolVal(isinstance(p.value, L.SArr) and p.value.shape == (2, 2)))
    t.frame_unchanged("frame:evaluation-never-modifies-the-callers-input", paths, ["x"])


@task("C20", "BraninCurrin.evaluate[frame,single 1-D point]")
def _branin_frame_1d(t):
    x = t.inp("x", InArr("x", (2,)))
    XS = t.inputs["x"].snapshot
    t.assume(*[z3.And(V.R(v) >= 0, V.R(v) <= 1) for v in XS.flat()])
    chol = t.inp("noise_cholesky", InArr("Lc", (2, 2)))
    obj = SObj(cls_ref(MP, "BraninCurrin"), {"noise_var": z3.Real("nv"), "noise_cholesky": chol})
    paths = t.run(MP, "ContinuousProblem.evaluate", [x], {"noisy": False}, self_val=obj)
    t.no_raise(paths)
    t.prove_paths("result_shape_1_by_2", paths, lambda p: z3.BoolVal(isinstance(p.value, L.SArr) and p.value.shape == (1, 2)))
    # values AND shape of the caller's array object are as before the call
    t.frame_unchanged("frame:evaluation-never-modifies-the-callers-input(values and shape)", paths, ["x"])


class StubProblem:
    def __init__(self, t, N, m):
        self.vals = L.fresh_array("vals", (N, m))
        self.calls = []

    def getattr(self, ex, st, name):
        if name == "evaluate":
            return self
        raise AttributeError(name)

    def call(self, ex, st, args, kwargs, node):
        self.calls.append((args, dict(kwargs)))
        return L.copy(self.vals)

    def clone(self, memo):
        return self


def _decoupled(N, m, evidx):
    @task("C20", "DecoupledEvaluationProblem.evaluate[N=%d,m=%d,index=%s]" % (N, m, evidx))
    def _t(t):
        inner = StubProblem(t, N, m)
        obj = SObj(cls_ref(MP, "DecoupledEvaluationProblem"), {"problem": inner})
        x = t.inp("x", InArr("x", (N, 2)))
        paths = t.run(MP, "DecoupledEvaluationProblem.evaluate", [x, evidx], self_val=obj)
        bad_len = isinstance(evidx, list) and len(evidx) != N
        if bad_len:
            t.prove("length_mismatch_is_rejected_with_an_exception", z3.BoolVal(bool(paths) and all(p.kind == "raise" for p in paths) and not inner.calls))
            return
        t.no_raise(paths)
        VS = inner.vals

        def goal(p):
            r = p.value
            if evidx is None:
                return z3.And(z3.BoolVal(r.shape == (N, m)), *[V.Z(V.eq(a, b)) for a, b in zip(r.flat(), VS.flat())])
            if isinstance(evidx, int):
                return z3.And(z3.BoolVal(r.shape == (N,)), *[V.Z(V.eq(r.flat()[i], VS.a[i, evidx])) for i in range(N)])
            return z3.And(z3.BoolVal(r.shape == (N,)), *[V.Z(V.eq(r.flat()[i], VS.a[i, evidx[i]])) for i in range(N)])
        t.prove_paths("exactly_the_requested_components_of_the_underlying_evaluation", paths, goal)
        t.prove("underlying_problem_evaluated_once_on_x", z3.BoolVal(len(inner.calls) == 1 and inner.calls[0][0][0] is x))
    return _t


_decoupled(2, 2, None)
_decoupled(2, 3, 1)
_decoupled(3, 2, [1, 0, 1])
_decoupled(2, 3, [2, 2])
_decoupled(2, 2, [0])


def _normalize(N, d):
    @task("C20", "normalize_unnormalize[N=%d,d=%d]" % (N, d))
    def _t(t):
        data = t.inp("data", InArr("data", (N, d)))
        lo = [t.inp("lo%d" % i, InReal("lo%d" % i)) for i in range(d)]
        up = [t.inp("up%d" % i, InReal("up%d" % i)) for i in range(d)]
        t.assume(*[a != b for a, b in zip(lo, up)])
        bounds = [(a, b) for a, b in zip(lo, up)]
        DS = t.inputs["data"].snapshot
        p1 = t.run(UT, "normalize", [data, bounds])
        t.no_raise(p1, clause="no-raise(normalize)")
        t.prove_paths("normalize_is_columnwise_affine_map", p1,
                      lambda p: z3.And(*[V.R(p.value.a[r, c]) * (up[c] - lo[c]) == V.R(DS.a[r, c]) - lo[c] for r in range(N) for c in range(d)]))
        t.frame_unchanged("frame:data-not-written(normalize)", p1, ["data"])
        if len(p1) == 1:
            p2 = t.run(UT, "unnormalize", [p1[0].value, bounds])
            t.no_raise(p2, clause="no-raise(unnormalize)")
            t.prove_paths("unnormalize_after_normalize_is_identity", p2,
                          lambda p: z3.And(*[V.R(p.value.a[r, c]) == V.R(DS.a[r, c]) for r in range(N) for c in range(d)]))
        q1 = t.run(UT, "unnormalize", [data, bounds])
        if len(q1) == 1:
            q2 = t.run(UT, "normalize", [q1[0].value, bounds])
            t.prove_paths("normalize_after_unnormalize_is_identity", q2,
                          lambda p: z3.And(*[V.R(p.value.a[r, c]) == V.R(DS.a[r, c]) for r in range(N) for c in range(d)]))
    return _t


_normalize(2, 2)
_normalize(1, 3)


@task("C20", "normalize.raises")
def _normalize_raises(t):
    data = t.inp("data", InArr("data", (2, 2)))
    paths = t.run(UT, "normalize", [data, [(Fraction(0), Fraction(1))]])
    t.prove("bounds_length_mismatch_is_rejected_with_an_exception", z3.BoolVal(bool(paths) and all(p.kind == "raise" for p in paths)))


# ----------------------------------------------------------------------------------------------
# Dataset.__init__: inputs min-max scaled to [0, 1], objectives standardised (zero mean, unit population variance),
# dimensions recorded, cardinality mismatch rejected.  The sklearn scalers are used BY CONTRACT (default options).
# ----------------------------------------------------------------------------------------------
DS = "vopy/datasets/dataset.py"


def _dataset_init(N, d, m, declared=None):
    @task("C20", "Dataset.__init__[N=%d,d=%d,m=%d,declared=%s]" % (N, d, m, declared if declared is not None else N))
    def _t(t):
        t.mode = "N=%d designs, %d inputs, %d objectives; raw data symbolic" % (N, d, m)
        X = t.inp("in_data", InArr("x", (N, d)))
        Y = t.inp("out_data", InArr("y", (N, m)))
        XS, YS = t.inputs["in_data"].snapshot, t.inputs["out_data"].snapshot
        obj = SObj(cls_ref(DS, "Dataset"), {"in_data": X, "out_data": Y, "_cardinality": declared if declared is not None else N,
                                            "_in_dim": d, "_out_dim": m})
        paths = t.run(DS, "Dataset.__init__", [], self_val=obj)
        t.must_fail()
        if declared is not None and declared != N:
            t.prove("cardinality_mismatch_is_rejected_with_an_exception", z3.BoolVal(bool(paths) and all(p.kind == "raise" for p in paths)))
            return
        t.no_raise(paths)

        def cols(A, n):
            return [[A.a[i, c] for i in range(A.shape[0])] for c in range(n)]

        def goal(p):
            o = find_obj(p.st, obj.oid)
            xi, yo = o.fields.get("in_data"), o.fields.get("out_data")
            if getattr(xi, "shape", None) != (N, d) or getattr(yo, "shape", None) != (N, m):
                return False
            cs = [z3.BoolVal(o.fields.get("in_dim") == d and o.fields.get("out_dim") == m)]
            for c, col in enumerate(cols(XS, d)):
                mn, mx = col[0], col[0]
                for v in col[1:]:
                    mn = V.ite(V.lt(v, mn), v, mn)
                    mx = V.ite(V.gt(v, mx), v, mx)
                rng = V.sub(mx, mn)
                sc = V.ite(V.eq(rng, 0), Fraction(1), rng)
                for i in range(N):
                    cs.append(V.R(xi.a[i, c]) == V.R(V.div(V.sub(col[i], mn), sc)))      # (x - min) / (max - min): in [0, 1]
            for c, col in enumerate(cols(YS, m)):
                tot = col[0]
                for v in col[1:]:
                    tot = V.add(tot, v)
                mean = V.div(tot, N)
                var = Fraction(0)
                for v in col:
                    var = V.add(var, V.mul(V.sub(v, mean), V.sub(v, mean)))
                var = V.div(var, N)
                sd = V.ite(V.eq(var, 0), Fraction(1), L.sqrt_scalar(var))
                for i in range(N):
                    cs.append(V.R(yo.a[i, c]) == V.R(V.div(V.sub(col[i], mean), sd)))    # (y - mean) / population std
            return z3.And(*cs)
        t.prove_each_path("inputs_min_max_scaled_and_objectives_standardised_columnwise_dimensions_recorded", paths, goal, timeout_ms=max(t.timeout_ms, 60000))
        if N == 2:
            # consequences for the smallest case (the general statements are properties of the two formulas, not of VOPy code)
            def cons(p):
                o = find_obj(p.st, obj.oid)
                xi, yo = o.fields.get("in_data"), o.fields.get("out_data")
                cs = []
                for c in range(d):
                    cs += [z3.And(V.R(xi.a[i, c]) >= 0, V.R(xi.a[i, c]) <= 1) for i in range(N)]
                for c in range(m):
                    cs.append(V.R(yo.a[0, c]) + V.R(yo.a[1, c]) == 0)
                return z3.And(*cs)
            t.prove_each_path("N=2:inputs_in_unit_interval_and_objective_columns_sum_to_zero", paths, cons, timeout_ms=max(t.timeout_ms, 60000))
    return _t


_dataset_init(3, 2, 2)
_dataset_init(2, 1, 2)
_dataset_init(3, 2, 2, declared=4)


def _dataset_loader(cls, in_dim, out_dim, negate_first=False):
    @task("C20", "%s.__init__[loader]" % cls)
    def _t(t):
        """Bundled dataset loader: the file's first _in_dim columns are the inputs, the remaining ones the objectives (SNW: first
        objective negated), copied, then handed to Dataset.__init__ (called by contract; its body is the task above).
        The file content itself (and hence the declared cardinality) is external: rows = 3 here, _cardinality overridden."""
        from .c06_evaluating import Stub
        rows = 3
        data = t.inp("file_data", InArr("f", (rows, in_dim + out_dim)))
        FS = t.inputs["file_data"].snapshot
        obj = SObj(cls_ref(DS, cls), {"_cardinality": rows})
        seen = []

        def lib_hook(ex, st, dotted, args, kwargs, node):
            if dotted == "importlib.resources.files":
                return Stub("resources")
            if dotted in ("numpy.load", "numpy.genfromtxt"):
                return data
            return NotImplemented
        t.hooks["lib"] = lib_hook

        def c_super(ex, st, self_val, args, kwargs, node):
            seen.append(dict(self_val.fields))
            st.roots.setdefault("super_calls", []).append(dict(self_val.fields))
            return [(st, None)]
        t.contracts[DS + "::Dataset.__init__"] = c_super
        paths = t.run(DS, cls + ".__init__", [], self_val=obj)
        t.must_fail()
        t.no_raise(paths)

        def goal(p):
            calls = p.st.roots.get("super_calls") or []
            if len(calls) != 1:
                return False
            xi, yo = calls[0].get("in_data"), calls[0].get("out_data")
            if getattr(xi, "shape", None) != (rows, in_dim) or getattr(yo, "shape", None) != (rows, out_dim):
                return False
            cs = []
            for i in range(rows):
                for c in range(in_dim):
                    cs.append(V.R(xi.a[i, c]) == V.R(FS.a[i, c]))
                for c in range(out_dim):
                    want = V.R(FS.a[i, in_dim + c])
                    cs.append(V.R(yo.a[i, c]) == (-want if (negate_first and c == 0) else want))
            return z3.And(*cs)
        t.prove_paths("first_in_dim_columns_are_inputs_the_rest_objectives_then_Dataset_init", paths, goal)
    return _t


_dataset_loader("Test", 4, 2)
_dataset_loader("SNW", 3, 2, negate_first=True)
_dataset_loader("DiskBrake", 4, 2)
_dataset_loader("VehicleSafety", 5, 3)
