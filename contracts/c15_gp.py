"""C15 -- GP model wrappers: the data bookkeeping around gpytorch (what the wrapper holds, what the inner
exact GP conditions on after update(), output shapes for every N >= 1, per-objective routing, reported
hyper-parameter shapes).  gpytorch itself is called by contract: an ExactGP conditioned on `gp_data`, called in eval
mode on X, returns the exact posterior post(gp_data, X) (opaque; A-GP) with the shapes measured on the real library."""
import z3

from pyvc.harness import InArr, InInt, InReal, task, cls_ref
from pyvc import libmodel as L
from pyvc import values as V
from pyvc.values import Opaque, SObj, Unsupported
from pyvc.symexec import find_obj, BoundLib

GP = "vopy/models/gpytorch.py"


class MVN:
    def __init__(self, fields):
        self.fields = fields

    def getattr(self, ex, st, name):
        if name in self.fields:
            return self.fields[name]
        raise Unsupported("posterior attribute " + name)

    def clone(self, memo):
        return self


class Noop:
    """likelihood / module objects whose methods (.eval(), .train(), .to()) have no effect we track."""

    def getattr(self, ex, st, name):
        return NoopMethod(self)

    def clone(self, memo):
        return self


class NoopMethod:
    def __init__(self, owner):
        self.owner = owner

    def call(self, ex, st, args, kwargs, node):
        return self.owner if False else None

    def clone(self, memo):
        return self


class GPStub:
    """An ExactGP of the given kind.  Ghost state gp_data = (inputs, targets) it conditions on."""

    def __init__(self, kind, inputs, targets, m):
        self.kind, self.m = kind, m
        self.gp_data = (inputs, targets)
        self.calls = []
        self.oid = V.fresh_id()

    def getattr(self, ex, st, name):
        if name in ("to", "eval", "train", "set_train_data"):
            return BoundLib(self, name)
        if name == "models":
            return self.models
        if name == "train_targets":          # gpytorch ExactGP: the data it conditions on
            return self.gp_data[1]
        if name == "train_inputs":
            return (self.gp_data[0],)
        raise Unsupported("gp attribute " + name)

    def method(self, ex, st, name, args):
        if name == "to":
            return self
        if name in ("eval", "train"):
            st.roots.setdefault("gp_log", []).append((self.oid, name))
            return None
        if name == "set_train_data":
            self.gp_data = (args[0], args[1])
            st.roots.setdefault("gp_log", []).append((self.oid, "set_train_data"))
            return None
        raise Unsupported(name)

    def call(self, ex, st, args, kwargs, node):
        X = L.as_arr(args[0])
        n = V.fresh_id()
        self.calls.append((L.copy(X), self.gp_data))
        if self.kind == "multitask":
            if X.ndim != 3 or X.shape[1] != 1:
                raise Unsupported("multitask GP called with shape %s" % (X.shape,))
            N = X.shape[0]
            post = {"mean": L.SArr(L.fresh_array("pm%d" % n, (N, 1, self.m)).a, "f", "torch"),
                    "covariance_matrix": L.SArr(L.fresh_array("pc%d" % n, (N, self.m, self.m)).a, "f", "torch")}
        elif self.kind == "batch":
            if X.ndim != 2:
                raise Unsupported("batch-independent GP called with shape %s" % (X.shape,))
            N = X.shape[0]
            post = {"mean": L.SArr(L.fresh_array("pm%d" % n, (N, self.m)).a, "f", "torch"),
                    "variance": L.SArr(L.fresh_array("pv%d" % n, (N, self.m)).a, "f", "torch")}
        else:
            raise Unsupported("kind")
        st.roots.setdefault("posteriors", []).append((self.oid, post, L.copy(X), self.gp_data))
        return MVN(post)

    def clone(self, memo):
        from pyvc.symexec import clone_val
        g = GPStub(self.kind, clone_val(self.gp_data[0], memo), clone_val(self.gp_data[1], memo), self.m)
        g.oid, g.calls = self.oid, self.calls
        return g


def install_gp_classes(t, m):
    def mk(kind):
        def c(ex, st, cls, args, kwargs, node):
            g = GPStub(kind, args[0], args[1], m)
            st.roots.setdefault("gp_log", []).append((g.oid, "created"))
            return [(st, g)]
        return c
    t.contracts[GP + "::MultitaskExactGPModel.__new__"] = mk("multitask")
    t.contracts[GP + "::BatchIndependentExactGPModel.__new__"] = mk("batch")
    t.trusted.add("A-GP: gpytorch ExactGP in eval mode returns the exact posterior given its train data; output shapes as measured on gpytorch 1.12 "
                  "(multitask: mean (N,1,m), covariance (N,m,m) for input (N,1,d); batch-independent: mean (N,m), variance (N,m) for input (N,d))")


def wrapper(t, cls, d, m, held, model_kind):
    ti = t.inp("train_inputs", InArr("ti", (held, d)))
    tt = t.inp("train_targets", InArr("tt", (held, m)))
    ti.origin = "torch"
    tt.origin = "torch"
    obj = SObj(cls_ref(GP, cls), {"device": "cpu", "input_dim": d, "output_dim": m, "train_inputs": ti, "train_targets": tt,
                                  "likelihood": Noop(),
                                  "kernel_type": Opaque("Kernel", z3.Const("rbf", z3.DeclareSort("Kernel"))),
                                  "model_kind": cls_ref(GP, model_kind), "model": None})
    return obj


def same_arr(a, b):
    return a.shape == b.shape and L.same_elems(a, b)


def _add_sample(cls, kind, d, m, held, n, extra_col):
    @task("C15", "%s.add_sample[d=%d,m=%d,held=%d,new=%d,extra_cols=%d]" % (cls, d, m, held, n, extra_col))
    def _t(t):
        obj = wrapper(t, cls, d, m, held, kind)
        X = t.inp("X", InArr("X", (n, d + extra_col)))
        Y = t.inp("Y", InArr("Y", (n, m)))
        paths = t.run(GP, "GPyTorchMultioutputExactModel.add_sample", [X, Y], self_val=obj)
        t.must_fail()
        t.no_raise(paths)
        TI, TT, XS, YS = [t.inputs[k].snapshot for k in ("train_inputs", "train_targets", "X", "Y")]

        def goal(p):
            o = find_obj(p.st, obj.oid)
            a, b = o.fields["train_inputs"], o.fields["train_targets"]
            if a.shape != (held + n, d) or b.shape != (held + n, m):
                return False
            cs = [V.Z(V.eq(a.a[i, c], TI.a[i, c])) for i in range(held) for c in range(d)]
            cs += [V.Z(V.eq(a.a[held + i, c], XS.a[i, c])) for i in range(n) for c in range(d)]
            cs += [V.Z(V.eq(b.a[i, c], TT.a[i, c])) for i in range(held) for c in range(m)]
            cs += [V.Z(V.eq(b.a[held + i, c], YS.a[i, c])) for i in range(n) for c in range(m)]
            return z3.And(*cs) if cs else True
        t.prove_paths("held_data_is_old_data_followed_by_the_new_rows(first input_dim columns)", paths, goal)
        t.frame_unchanged("frame:X-Y-not-written", paths, ["X", "Y"])
    return _t


_add_sample("CorrelatedExactGPyTorchModel", "MultitaskExactGPModel", 2, 2, 0, 2, 0)
_add_sample("CorrelatedExactGPyTorchModel", "MultitaskExactGPModel", 2, 3, 2, 1, 1)
_add_sample("IndependentExactGPyTorchModel", "BatchIndependentExactGPModel", 1, 2, 1, 2, 0)


def _update(cls, kind, gpk, d, m, held, first, old_n=1):
    @task("C15", "%s.update[d=%d,m=%d,held=%d,%s]" % (cls, d, m, held, "first" if first else ("again" if old_n == 1 else "again,old data of %d samples" % old_n)))
    def _t(t):
        install_gp_classes(t, m)
        obj = wrapper(t, cls, d, m, held, kind)
        if not first:
            # the inner GP currently conditions on OTHER data (old_n samples; possibly as many as are held now: a replaced data set)
            obj.fields["model"] = GPStub(gpk, L.fresh_array("old_i", (old_n, d)), L.fresh_array("old_t", (old_n, m)), m)
        paths = t.run(GP, "GPyTorchMultioutputExactModel.update", [], self_val=obj)
        t.no_raise(paths)

        def goal(p):
            o = find_obj(p.st, obj.oid)
            g = o.fields["model"]
            if not isinstance(g, GPStub) or g.kind != gpk:
                return False
            log = [e[1] for e in (p.st.roots.get("gp_log") or []) if e[0] == g.oid]
            return z3.BoolVal(same_arr(L.as_arr(g.gp_data[0]), t.inputs["train_inputs"].snapshot) and
                              same_arr(L.as_arr(g.gp_data[1]), t.inputs["train_targets"].snapshot) and log[-1:] == ["eval"])
        t.prove_paths("after_update_the_exact_GP_conditions_on_exactly_the_held_samples_and_is_in_eval_mode", paths, goal)
    return _t


for _first in (True, False):
    _update("CorrelatedExactGPyTorchModel", "MultitaskExactGPModel", "multitask", 2, 2, 3, _first)
    _update("IndependentExactGPyTorchModel", "BatchIndependentExactGPModel", "batch", 1, 3, 2, _first)
_update("IndependentExactGPyTorchModel", "BatchIndependentExactGPModel", "batch", 2, 2, 0, False)
_update("IndependentExactGPyTorchModel", "BatchIndependentExactGPModel", "batch", 2, 2, 2, False, old_n=2)
_update("CorrelatedExactGPyTorchModel", "MultitaskExactGPModel", "multitask", 2, 2, 3, False, old_n=3)


def _predict(cls, gpk, d, m, N, extra_col):
    @task("C15", "%s.predict[d=%d,m=%d,N=%d,extra_cols=%d]" % (cls, d, m, N, extra_col))
    def _t(t):
        obj = wrapper(t, cls, d, m, 2, "MultitaskExactGPModel" if gpk == "multitask" else "BatchIndependentExactGPModel")
        g = GPStub(gpk, obj.fields["train_inputs"], obj.fields["train_targets"], m)
        obj.fields["model"] = g
        X = t.inp("X", InArr("X", (N, d + extra_col)))
        paths = t.run(GP, cls + ".predict", [X], self_val=obj)
        t.must_fail()
        t.no_raise(paths)
        XS = t.inputs["X"].snapshot

        def goal(p):
            if p.kind != "return" or not isinstance(p.value, tuple) or len(p.value) != 2:
                return False
            mu, cv = p.value
            posts = p.st.roots.get("posteriors") or []
            if len(posts) != 1 or not isinstance(mu, L.SArr) or not isinstance(cv, L.SArr):
                return False
            _, post, Xq, data = posts[0]
            ok_shape = mu.shape == (N, m) and cv.shape == (N, m, m)
            if not ok_shape:
                return False
            # the GP is queried at the first input_dim columns of the N points, conditioned on the held data
            q = Xq.a.reshape(N, d)
            cs = [V.Z(V.eq(q[i, c], XS.a[i, c])) for i in range(N) for c in range(d)]
            pm = post["mean"].a.reshape(N, m)
            cs += [V.Z(V.eq(mu.a[i, c], pm[i, c])) for i in range(N) for c in range(m)]
            if gpk == "multitask":
                pc = post["covariance_matrix"].a
                cs += [V.Z(V.eq(cv.a[i, a, b], pc[i, a, b])) for i in range(N) for a in range(m) for b in range(m)]
            else:
                pv = post["variance"].a
                cs += [V.Z(V.eq(cv.a[i, a, b], pv[i, a] if a == b else 0)) for i in range(N) for a in range(m) for b in range(m)]
            return z3.And(*cs)
        t.prove_paths("means_(N,m)_and_covariances_(N,m,m)_are_the_posterior_at_the_queried_points", paths, goal, replay=predict_replay(cls, d, m, N))
    return _t


def predict_replay(cls, d, m, N):
    def builder(mdl):
        return ["import warnings; warnings.filterwarnings('ignore')",
                "from vopy.models import %s" % cls,
                "np.random.seed(0)",
                "M = %s(%d, %d, 0.1); M.add_sample(np.random.rand(4, %d), np.random.rand(4, %d)); M.update()" % (cls, d, m, d, m),
                "mu, cv = M.predict(np.random.rand(%d, %d))" % (N, d),
                "print('N=%d: means shape', mu.shape, 'covariances shape', cv.shape, ' expected', (%d, %d), (%d, %d, %d))" % (N, N, m, N, m, m),
                "if mu.shape != (%d, %d) or cv.shape != (%d, %d, %d):" % (N, m, N, m, m),
                "    print('REPLAY-CONFIRMED obligation=%s' % OBLIGATION)", "    raise SystemExit(1)",
                "print('REPLAY-NOT-REPRODUCED obligation=%s' % OBLIGATION)", "raise SystemExit(4)"]
    return builder


for _cls, _k in (("CorrelatedExactGPyTorchModel", "multitask"), ("IndependentExactGPyTorchModel", "batch")):
    for _N in (1, 2, 3):
        _predict(_cls, _k, 2, 2, _N, 0)
    _predict(_cls, _k, 1, 3, 1, 0)
    _predict(_cls, _k, 1, 3, 2, 1)


# ----------------------------------------------------------------------------------------------
# model list (decoupled observations)
# ----------------------------------------------------------------------------------------------


class KernelStub:
    def __init__(self, d, tag):
        self.d, self.tag = d, tag

    def getattr(self, ex, st, name):
        if name == "base_kernel":
            return self
        if name == "lengthscale":
            return L.SArr(L.fresh_array("ls_%s" % self.tag, (1, self.d)).a, "f", "torch")
        if name == "outputscale":
            return L.SArr(L.fresh_array("os_%s" % self.tag, ()).a, "f", "torch")
        raise Unsupported("kernel attribute " + name)

    def clone(self, memo):
        return self


class SingleStub(GPStub):
    def __init__(self, inputs, targets, d, tag):
        GPStub.__init__(self, "single", inputs, targets, 1)
        self.d, self.tag = d, tag

    def getattr(self, ex, st, name):
        if name == "likelihood":
            return Noop()
        if name == "covar_module":
            return KernelStub(self.d, self.tag)
        return GPStub.getattr(self, ex, st, name)

    def clone(self, memo):
        from pyvc.symexec import clone_val
        g = SingleStub(clone_val(self.gp_data[0], memo), clone_val(self.gp_data[1], memo), self.d, self.tag)
        g.oid, g.calls = self.oid, self.calls
        return g


class ModelListStub:
    def __init__(self, models):
        self.models = list(models)

    def getattr(self, ex, st, name):
        if name == "models":
            return self.models
        if name in ("eval", "train"):
            return NoopMethod(self)
        raise Unsupported("model list attribute " + name)

    def call(self, ex, st, args, kwargs, node):
        out = []
        for g, X in zip(self.models, args):
            X = L.as_arr(X)
            N = X.shape[0]
            n = V.fresh_id()
            post = {"mean": L.SArr(L.fresh_array("pm%d" % n, (N, 1)).a, "f", "torch"),
                    "covariance_matrix": L.SArr(L.fresh_array("pc%d" % n, (N, 1, 1)).a, "f", "torch")}
            st.roots.setdefault("posteriors", []).append((g.oid, post, L.copy(X), g.gp_data))
            out.append(MVN(post))
        if len(args) != len(self.models):
            raise Unsupported("model list called with %d inputs for %d models" % (len(args), len(self.models)))
        return out

    def clone(self, memo):
        from pyvc.symexec import clone_val
        return ModelListStub([clone_val(g, memo) for g in self.models])


def install_list_classes(t, d):
    cnt = [0]

    def c_single(ex, st, cls, args, kwargs, node):
        g = SingleStub(args[0], args[1], d, "m%d" % cnt[0])
        cnt[0] += 1
        return [(st, g)]
    t.contracts[GP + "::SingleTaskGP.__new__"] = c_single

    def lib(ex, st, dotted, args, kwargs, node):
        if dotted == "gpytorch.models.IndependentModelList":
            return ModelListStub(args)
        if dotted == "gpytorch.likelihoods.LikelihoodList":
            return Noop()
        return NotImplemented
    t.hooks["lib"] = lib
    t.trusted.add("A-GP: SingleTaskGP / IndependentModelList: one exact GP per objective; for input (N,1,d) each returns mean (N,1), covariance (N,1,1)")


def list_wrapper(t, d, m, held):
    tis, tts = [], []
    for i in range(m):
        a = t.inp("ti%d" % i, InArr("ti%d" % i, (held[i], d)))
        b = t.inp("tt%d" % i, InArr("tt%d" % i, (held[i],)))
        a.origin = b.origin = "torch"
        tis.append(a)
        tts.append(b)
    obj = SObj(cls_ref(GP, "GPyTorchModelListExactModel"),
               {"device": "cpu", "input_dim": d, "output_dim": m, "train_inputs": tis, "train_targets": tts,
                "likelihoods": [Noop()] * m, "likelihood": Noop(), "kernel_type": Opaque("Kernel", z3.Const("rbf", z3.DeclareSort("Kernel"))),
                "model": None})
    return obj


def _list_add(d, m, held, dim_index, extra_col=0):
    n = 1 if isinstance(dim_index, int) else len(dim_index)
    nm = "GPyTorchModelListExactModel.add_sample[d=%d,m=%d,held=%s,dim_index=%s]" % (d, m, "".join(map(str, held)), dim_index)

    @task("C15", nm)
    def _t(t):
        obj = list_wrapper(t, d, m, held)
        rows = 2 if isinstance(dim_index, int) else n
        X = t.inp("X", InArr("X", (rows, d + extra_col)))
        Y = t.inp("Y", InArr("Y", (rows,)))
        paths = t.run(GP, "GPyTorchModelListExactModel.add_sample", [X, Y, dim_index], self_val=obj)
        t.must_fail()
        t.no_raise(paths)
        XS, YS = t.inputs["X"].snapshot, t.inputs["Y"].snapshot
        route = [dim_index] * rows if isinstance(dim_index, int) else list(dim_index)

        def goal(p):
            o = find_obj(p.st, obj.oid)
            cs = []
            for i in range(m):
                mine = [r for r in range(rows) if route[r] == i]
                a, b = o.fields["train_inputs"][i], o.fields["train_targets"][i]
                if a.shape != (held[i] + len(mine), d) or b.shape != (held[i] + len(mine),):
                    return False
                TI, TT = t.inputs["ti%d" % i].snapshot, t.inputs["tt%d" % i].snapshot
                cs += [V.Z(V.eq(a.a[k, c], TI.a[k, c])) for k in range(held[i]) for c in range(d)]
                cs += [V.Z(V.eq(b.a[k], TT.a[k])) for k in range(held[i])]
                for j, r in enumerate(mine):
                    cs += [V.Z(V.eq(a.a[held[i] + j, c], XS.a[r, c])) for c in range(d)]
                    cs.append(V.Z(V.eq(b.a[held[i] + j], YS.a[r])))
            return z3.And(*cs) if cs else True
        t.prove_paths("each_objective_gets_exactly_its_own_rows_in_order_other_objectives_untouched", paths, goal)
        t.frame_unchanged("frame:X-Y-not-written", paths, ["X", "Y"])
    return _t


_list_add(2, 2, (1, 0), 1)
_list_add(2, 3, (0, 1, 2), [2, 0, 1, 0, 2])
_list_add(1, 2, (1, 1), [1, 1, 0])
_list_add(2, 2, (0, 0), [0, 1], extra_col=1)


@task("C15", "GPyTorchModelListExactModel.add_sample.raises")
def _list_add_raises(t):
    obj = list_wrapper(t, 2, 2, (0, 0))
    X = t.inp("X", InArr("X", (2, 2)))
    Y = t.inp("Y", InArr("Y", (2,)))
    p1 = t.run(GP, "GPyTorchModelListExactModel.add_sample", [X, Y, [0]], self_val=obj)
    t.prove("index_list_of_wrong_length_is_rejected_with_an_exception", z3.BoolVal(bool(p1) and all(p.kind == "raise" for p in p1)))
    Y2 = t.inp("Y2", InArr("Y2", (2, 1)))
    p2 = t.run(GP, "GPyTorchModelListExactModel.add_sample", [X, Y2, 0], self_val=obj)
    t.prove("two_dimensional_targets_raise_ValueError", z3.BoolVal(bool(p2) and all(p.kind == "raise" for p in p2)))


def _list_update(d, m, held, first, same_size=False):
    @task("C15", "GPyTorchModelListExactModel.update[d=%d,m=%d,held=%s,%s]" % (d, m, "".join(map(str, held)), "first" if first else ("again" if not same_size else "again,old data of the same sizes")))
    def _t(t):
        install_list_classes(t, d)
        obj = list_wrapper(t, d, m, held)
        if not first:
            old_n = (lambda i: held[i]) if same_size else (lambda i: 1)
            obj.fields["model"] = ModelListStub([SingleStub(L.fresh_array("oi%d" % i, (old_n(i), d)), L.fresh_array("ot%d" % i, (old_n(i),)), d, "old%d" % i) for i in range(m)])
        paths = t.run(GP, "GPyTorchModelListExactModel.update", [], self_val=obj)
        t.no_raise(paths)

        def goal(p):
            o = find_obj(p.st, obj.oid)
            ml = o.fields["model"]
            if not isinstance(ml, ModelListStub) or len(ml.models) != m:
                return False
            ok = all(same_arr(L.as_arr(ml.models[i].gp_data[0]), t.inputs["ti%d" % i].snapshot) and
                     same_arr(L.as_arr(ml.models[i].gp_data[1]), t.inputs["tt%d" % i].snapshot) for i in range(m))
            return z3.BoolVal(ok)
        t.prove_paths("after_update_objective_i_conditions_on_exactly_objective_i_held_samples", paths, goal)
    return _t


_list_update(2, 2, (2, 1), True)
_list_update(2, 2, (2, 1), False)
_list_update(1, 3, (0, 2, 0), False)
_list_update(2, 2, (2, 1), False, same_size=True)


@task("C15", "GPyTorchModelListExactModel.clear_data")
def _list_clear(t):
    obj = list_wrapper(t, 2, 3, (1, 2, 0))
    paths = t.run(GP, "GPyTorchModelListExactModel.clear_data", [], self_val=obj)
    t.prove_paths("every_objective_holds_no_sample", paths,
                  lambda p: z3.BoolVal(all(a.shape == (0, 2) for a in find_obj(p.st, obj.oid).fields["train_inputs"]) and
                                       all(b.shape == (0,) for b in find_obj(p.st, obj.oid).fields["train_targets"]) and
                                       len(find_obj(p.st, obj.oid).fields["train_inputs"]) == 3))


def _list_predict(d, m, N):
    @task("C15", "GPyTorchModelListExactModel.predict[d=%d,m=%d,N=%d]" % (d, m, N))
    def _t(t):
        obj = list_wrapper(t, d, m, tuple([1] * m))
        ml = ModelListStub([SingleStub(obj.fields["train_inputs"][i], obj.fields["train_targets"][i], d, "g%d" % i) for i in range(m)])
        obj.fields["model"] = ml
        X = t.inp("X", InArr("X", (N, d)))
        paths = t.run(GP, "GPyTorchModelListExactModel.predict", [X], self_val=obj)
        t.no_raise(paths)

        def goal(p):
            mu, cv = p.value
            posts = p.st.roots.get("posteriors") or []
            if mu.shape != (N, m) or cv.shape != (N, m, m) or len(posts) != m:
                return False
            cs = []
            for i in range(m):
                goid, post, Xq, data = posts[i]
                if goid != ml.models[i].oid:
                    return False
                pm, pc = post["mean"].a.reshape(N), post["covariance_matrix"].a.reshape(N)
                cs += [V.Z(V.eq(mu.a[k, i], pm[k])) for k in range(N)]
                for a in range(m):
                    cs += [V.Z(V.eq(cv.a[k, i, a], pc[k] if a == i else 0)) for k in range(N)]
            return z3.And(*cs)
        t.prove_paths("column_i_is_objective_i_posterior_only_off_diagonal_covariances_zero_shapes_(N,m)_(N,m,m)", paths, goal)
    return _t


for _N in (1, 2, 3):
    _list_predict(2, 2, _N)
_list_predict(1, 3, 1)


def _lsvar(d, m):
    @task("C15", "GPyTorchModelListExactModel.get_lengthscale_and_var[d=%d,m=%d]" % (d, m))
    def _t(t):
        obj = list_wrapper(t, d, m, tuple([1] * m))
        obj.fields["model"] = ModelListStub([SingleStub(obj.fields["train_inputs"][i], obj.fields["train_targets"][i], d, "g%d" % i) for i in range(m)])
        paths = t.run(GP, "GPyTorchModelListExactModel.get_lengthscale_and_var", [], self_val=obj)
        t.no_raise(paths)
        t.prove_paths("one_lengthscale_row_and_one_variance_per_objective", paths,
                      lambda p: z3.BoolVal(p.kind == "return" and isinstance(p.value, tuple) and p.value[0].shape == (m, d) and p.value[1].shape == (m,)),
                      replay=lsvar_replay(d, m))
        t.implicit()
    return _t


def lsvar_replay(d, m):
    def builder(mdl):
        return ["import warnings; warnings.filterwarnings('ignore')",
                "from vopy.models import GPyTorchModelListExactModel",
                "np.random.seed(0)",
                "M = GPyTorchModelListExactModel(%d, %d, 0.1)" % (d, m),
                "for i in range(%d): M.add_sample(np.random.rand(3, %d), np.random.rand(3), i)" % (m, d),
                "M.update()",
                "try:\n    ls, var = M.get_lengthscale_and_var(); out = (ls.shape, var.shape)\nexcept Exception as e:\n    out = 'raise ' + type(e).__name__ + ': ' + str(e)",
                "print('input_dim=%d objectives=%d:', out, ' expected', ((%d, %d), (%d,)))" % (d, m, m, d, m),
                "if out != ((%d, %d), (%d,)):" % (m, d, m),
                "    print('REPLAY-CONFIRMED obligation=%s' % OBLIGATION)", "    raise SystemExit(1)",
                "print('REPLAY-NOT-REPRODUCED obligation=%s' % OBLIGATION)", "raise SystemExit(4)"]
    return builder


_lsvar(2, 2)
_lsvar(1, 3)
_lsvar(3, 2)


# ----------------------------------------------------------------------------------------------
# train-and-freeze helpers
# ----------------------------------------------------------------------------------------------


def _factory(cls, gpk, kind, cnt, d=2, m=2, ntrain=3):
    @task("C15", "get_gpytorch_model_w_known_hyperparams[%s,initial_sample_cnt=%d]" % (cls, cnt))
    def _t(t):
        install_gp_classes(t, m)
        X = t.inp("X", InArr("X", (ntrain, d)))
        Y = t.inp("Y", InArr("Y", (ntrain, m)))
        made = []

        def c_new(ex, st, clsref, args, kwargs, node):
            o = SObj(cls_ref(GP, cls), {"device": "cpu", "input_dim": args[0], "output_dim": args[1],
                                        "train_inputs": L.SArr(L.mk([], (0, d), "f").a, "f", "torch"),
                                        "train_targets": L.SArr(L.mk([], (0, m), "f").a, "f", "torch"),
                                        "likelihood": Noop(), "kernel_type": Opaque("Kernel", z3.Const("rbf", z3.DeclareSort("Kernel"))),
                                        "model_kind": cls_ref(GP, kind), "model": None})
            made.append(o)
            st.roots["made"] = o
            return [(st, o)]
        t.contracts[GP + "::" + cls + ".__new__"] = c_new

        def c_train(ex, st, self_val, args, kwargs, node):
            st.roots.setdefault("gp_log", []).append(("wrapper", "train"))   # fits hyper-parameters; the data is not touched
            return [(st, None)]
        t.contracts[GP + "::GPyTorchMultioutputExactModel.train"] = c_train

        def lib(ex, st, dotted, args, kwargs, node):
            if dotted == "numpy.random.choice":
                n, k = args[0], args[1]
                idx = L.fresh_array("choice!%d" % V.fresh_id(), (k,), "i")
                for x in idx.flat():
                    st.pc.append(z3.And(x >= 0, x < V.Z(n)))
                st.roots["choice"] = idx
                return idx
            return NotImplemented
        t.hooks["lib"] = lib
        paths = t.run(GP, "get_gpytorch_model_w_known_hyperparams", [cls_ref(GP, cls), SObj("ProblemStub", {}), z3.Real("noise_var"), cnt, X, Y])
        t.must_fail()
        t.no_raise(paths)
        XS, YS = t.inputs["X"].snapshot, t.inputs["Y"].snapshot

        def up_to_date(p):
            o = p.value
            if not isinstance(o, SObj) or not isinstance(o.fields.get("model"), GPStub):
                return False
            g = o.fields["model"]
            return z3.BoolVal(same_arr(L.as_arr(g.gp_data[0]), o.fields["train_inputs"]) and same_arr(L.as_arr(g.gp_data[1]), o.fields["train_targets"]))
        t.prove_paths("returned_model_is_up_to_date:the_GP_conditions_on_exactly_the_samples_the_wrapper_holds", paths, up_to_date,
                      replay=factory_replay(cls, cnt))

        def holds_initial_only(p):
            o = p.value
            a, b = o.fields["train_inputs"], o.fields["train_targets"]
            if a.shape != (cnt, d) or b.shape != (cnt, m):
                return False
            ch = p.st.roots.get("choice")
            cs = []
            for k in range(cnt):
                alts = []
                for r in range(ntrain):
                    alts.append(z3.And(V.Z(ch.flat()[k]) == r, *([V.Z(V.eq(a.a[k, c], XS.a[r, c])) for c in range(d)] + [V.Z(V.eq(b.a[k, c], YS.a[r, c])) for c in range(m)])))
                cs.append(z3.Or(*alts))
            return z3.And(*cs) if cs else True
        t.prove_paths("wrapper_holds_only_the_initial_samples(training_data_forgotten)", paths, holds_initial_only)
    return _t


def factory_replay(cls, cnt):
    def builder(mdl):
        return ["import warnings, types; warnings.filterwarnings('ignore')",
                "import vopy.models.gpytorch as G",
                "np.random.seed(0)",
                "G.GPyTorchMultioutputExactModel.train = lambda self: None   # hyper-parameter fitting is irrelevant to the bookkeeping",
                "X, Y = np.random.rand(6, 2), np.random.rand(6, 2)",
                "M = G.get_gpytorch_model_w_known_hyperparams(G.%s, None, 0.1, %d, X=X, Y=Y)" % (cls, cnt),
                "held = tuple(M.train_inputs.shape); cond = tuple(M.model.train_inputs[0].shape)",
                "print('wrapper holds', held[0], 'samples; inner GP conditions on', cond[-2], 'samples')",
                "if held[0] != cond[-2]:",
                "    print('REPLAY-CONFIRMED obligation=%s' % OBLIGATION)", "    raise SystemExit(1)",
                "print('REPLAY-NOT-REPRODUCED obligation=%s' % OBLIGATION)", "raise SystemExit(4)"]
    return builder


for _cls, _k, _kind in (("CorrelatedExactGPyTorchModel", "multitask", "MultitaskExactGPModel"), ("IndependentExactGPyTorchModel", "batch", "BatchIndependentExactGPModel")):
    _factory(_cls, _k, _kind, 1)
    _factory(_cls, _k, _kind, 2)
    _factory(_cls, _k, _kind, 0)


def _list_factory(cnt, d=2, m=2, ntrain=2):
    @task("C15", "get_gpytorch_modellist_w_known_hyperparams[initial_sample_cnt=%d]" % cnt)
    def _t(t):
        install_list_classes(t, d)
        X = t.inp("X", InArr("X", (ntrain, d)))
        Y = t.inp("Y", InArr("Y", (ntrain, m)))

        def c_new(ex, st, clsref, args, kwargs, node):
            o = SObj(cls_ref(GP, "GPyTorchModelListExactModel"),
                     {"device": "cpu", "input_dim": args[0], "output_dim": args[1],
                      "train_inputs": [L.SArr(L.mk([], (0, d), "f").a, "f", "torch") for _ in range(m)],
                      "train_targets": [L.SArr(L.mk([], (0,), "f").a, "f", "torch") for _ in range(m)],
                      "likelihoods": [Noop()] * m, "likelihood": Noop(),
                      "kernel_type": Opaque("Kernel", z3.Const("rbf", z3.DeclareSort("Kernel"))), "model": None})
            return [(st, o)]
        t.contracts[GP + "::GPyTorchModelListExactModel.__new__"] = c_new
        t.contracts[GP + "::GPyTorchModelListExactModel.train"] = lambda ex, st, sv, a, k, n: [(st, None)]
        prev = t.hooks.get("lib")

        def lib(ex, st, dotted, args, kwargs, node):
            if dotted == "numpy.random.choice":
                # one concrete representative per call is not general: fork over every possible index
                n, k = args[0], args[1]
                idx = L.fresh_array("choice!%d" % V.fresh_id(), (k,), "i")
                for x in idx.flat():
                    st.pc.append(z3.And(x >= 0, x < V.Z(n)))
                return idx
            return prev(ex, st, dotted, args, kwargs, node) if prev else NotImplemented
        t.hooks["lib"] = lib

        class Prob:
            def getattr(self, ex, st, name):
                return self

            def call(self, ex, st, args, kwargs, node):
                return L.fresh_array("obs!%d" % V.fresh_id(), (L.as_arr(args[0]).shape[0], m))

            def clone(self, memo):
                return self
        paths = t.run(GP, "get_gpytorch_modellist_w_known_hyperparams", [Prob(), z3.Real("noise_var"), cnt, X, Y])
        t.must_fail()
        t.no_raise(paths)

        def up_to_date(p):
            o = p.value
            if not isinstance(o, SObj) or not isinstance(o.fields.get("model"), ModelListStub):
                return False
            ml = o.fields["model"]
            return z3.BoolVal(all(same_arr(L.as_arr(ml.models[i].gp_data[0]), o.fields["train_inputs"][i]) and
                                  same_arr(L.as_arr(ml.models[i].gp_data[1]), o.fields["train_targets"][i]) for i in range(m)))
        t.prove_paths("returned_model_is_up_to_date:each_objective_GP_conditions_on_exactly_the_samples_the_wrapper_holds", paths, up_to_date,
                      replay=list_factory_replay(cnt))
        t.prove_paths("wrapper_holds_exactly_initial_sample_cnt_observations_in_total", paths,
                      lambda p: z3.BoolVal(sum(a.shape[0] for a in p.value.fields["train_inputs"]) == cnt))
    return _t


def list_factory_replay(cnt):
    def builder(mdl):
        return ["import warnings, types; warnings.filterwarnings('ignore')",
                "import vopy.models.gpytorch as G",
                "np.random.seed(0)",
                "G.GPyTorchModelListExactModel.train = lambda self: None",
                "X, Y = np.random.rand(6, 2), np.random.rand(6, 2)",
                "prob = types.SimpleNamespace(evaluate=lambda x: np.random.rand(len(x), 2))",
                "M = G.get_gpytorch_modellist_w_known_hyperparams(prob, 0.1, %d, X=X, Y=Y)" % cnt,
                "held = [len(a) for a in M.train_inputs]; cond = [int(g.train_inputs[0].shape[-2]) for g in M.model.models]",
                "print('wrapper holds', held, 'samples per objective; inner GPs condition on', cond)",
                "if held != cond:",
                "    print('REPLAY-CONFIRMED obligation=%s' % OBLIGATION)", "    raise SystemExit(1)",
                "print('REPLAY-NOT-REPRODUCED obligation=%s' % OBLIGATION)", "raise SystemExit(4)"]
    return builder


_list_factory(0)
_list_factory(1)


# ----------------------------------------------------------------------------------------------
# __init__: the likelihood is the model's OWN noise.  gpytorch's MultitaskGaussianLikelihood is constructed by contract
# (recorded); a full (m x m) noise covariance needs num_tasks = m and a task-noise factor of FULL rank m (gpytorch stores a
# rank-`rank` factor of task_noise_covar: a smaller rank silently replaces the noise by a low-rank approximation), and the
# matrix itself assigned to task_noise_covar; a scalar / per-objective noise uses rank 0 and the `noise` attribute.
# ----------------------------------------------------------------------------------------------
class LikStub:
    def __init__(self, kwargs):
        self.kwargs = dict(kwargs)
        self.attrs = {}
        self.calls = []

    def getattr(self, ex, st, name):
        if name in self.attrs:
            return self.attrs[name]
        return LikMethod(self, name)

    def setattr(self, ex, st, name, v):
        self.attrs[name] = v

    def clone(self, memo):
        return self


class LikMethod:
    def __init__(self, owner, name):
        self.owner, self.name = owner, name

    def call(self, ex, st, args, kwargs, node):
        self.owner.calls.append((self.name, list(args), dict(kwargs)))
        return self.owner if self.name == "to" else None

    def clone(self, memo):
        return self


def _init(noise_kind, m, d=2):
    @task("C15", "GPyTorchMultioutputExactModel.__init__[noise=%s,m=%d]" % (noise_kind, m))
    def _t(t):
        t.mode = "m=%d objectives, noise %s (symbolic entries); gpytorch likelihood constructor by contract" % (m, noise_kind)
        if noise_kind == "matrix":
            nv = t.inp("noise_var", InArr("nv", (m, m)))
        elif noise_kind == "vector":
            nv = t.inp("noise_var", InArr("nv", (m,)))
        else:
            nv = t.inp("noise_var", InReal("nv"))
        liks = []

        def lib_hook(ex, st, dotted, args, kwargs, node):
            if dotted == "gpytorch.likelihoods.MultitaskGaussianLikelihood":
                lk = LikStub(kwargs)
                liks.append(lk)
                return lk
            if dotted.startswith("gpytorch.constraints."):
                return Opaque("Constraint", z3.Const("constraint!%d" % V.fresh_id(), z3.DeclareSort("Constraint")))
            return NotImplemented
        t.hooks["lib"] = lib_hook
        obj = SObj(cls_ref(GP, "IndependentExactGPyTorchModel"), {})
        kind = cls_ref(GP, "BatchIndependentExactGPModel")
        paths = t.run(GP, "GPyTorchMultioutputExactModel.__init__", [d, m, nv, kind], self_val=obj)
        t.must_fail()
        t.no_raise(paths)
        NV = t.inputs["noise_var"].snapshot if noise_kind != "scalar" else None

        def goal(p):
            o = find_obj(p.st, obj.oid)
            if len(liks) != 1 or o.fields.get("likelihood") is not liks[0]:
                return False
            lk = liks[0]
            cs = [z3.BoolVal(lk.kwargs.get("num_tasks") == m), z3.BoolVal(o.fields.get("output_dim") == m and o.fields.get("input_dim") == d),
                  z3.BoolVal(o.fields.get("model") is None)]
            ti, tt = o.fields.get("train_inputs"), o.fields.get("train_targets")
            cs.append(z3.BoolVal(getattr(ti, "shape", None) == (0, d) and getattr(tt, "shape", None) == (0, m)))
            if noise_kind == "matrix":
                cov = lk.attrs.get("task_noise_covar")
                cs.append(z3.BoolVal(lk.kwargs.get("rank") == m and lk.kwargs.get("has_global_noise") is False and "noise" not in lk.attrs))
                cs.append(z3.BoolVal(isinstance(cov, L.SArr) and cov.shape == (m, m)))
                if isinstance(cov, L.SArr) and cov.shape == (m, m):
                    cs += [V.R(cov.a[i, j]) == V.R(NV.a[i, j]) for i in range(m) for j in range(m)]
            else:
                noise = lk.attrs.get("noise")
                cs.append(z3.BoolVal(lk.kwargs.get("rank") == 0 and lk.kwargs.get("has_task_noise") is False and "task_noise_covar" not in lk.attrs))
                if noise_kind == "vector":
                    cs.append(z3.BoolVal(isinstance(noise, L.SArr) and noise.shape == (m,)))
                    if isinstance(noise, L.SArr) and noise.shape == (m,):
                        cs += [V.R(noise.a[i]) == V.R(NV.a[i]) for i in range(m)]
                else:
                    cs.append(V.R(noise.flat()[0] if isinstance(noise, L.SArr) else noise) == V.R(nv) if noise is not None else z3.BoolVal(False))
            return z3.And(*cs)
        t.prove_paths("likelihood_is_the_models_own_noise(full_rank_task_covariance_or_plain_noise)_and_the_model_starts_empty", paths, goal)
    return _t


_init("matrix", 2)
_init("matrix", 3)
_init("scalar", 2)


# ----------------------------------------------------------------------------------------------
# reported hyper-parameters of the two multi-output classes: "one entry per objective, agreeing with the kernel".
# gpytorch's kernel objects are stubs with the parameter shapes measured on gpytorch 1.12:
#   multitask:          covar_module.data_covar_module.lengthscale (1, d)   [ONE ARD data kernel shared by the objectives]
#                       covar_module.task_covar_module.var (m,)
#   batch-independent:  covar_module.base_kernel.lengthscale (m, 1, d),  covar_module.outputscale (m,)
# ----------------------------------------------------------------------------------------------
def _mo_lsvar(cls, gpcls, d, m):
    @task("C15", "%s.get_lengthscale_and_var[d=%d,m=%d]" % (cls, d, m))
    def _t(t):
        t.mode = "d=%d, m=%d; kernel parameters symbolic" % (d, m)
        tt = lambda a: L.SArr(a.a, "f", "torch")
        if gpcls == "MultitaskExactGPModel":
            ls = tt(L.fresh_array("ls", (1, d)))
            var = tt(L.fresh_array("var", (m,)))
            cov = SObj("KernelStub", {"data_covar_module": SObj("KernelStub", {"lengthscale": ls}), "task_covar_module": SObj("KernelStub", {"var": var})})
            own = lambda i: [ls.a[0, c] for c in range(d)]          # every objective uses the shared data kernel
        else:
            ls = tt(L.fresh_array("ls", (m, 1, d)))
            var = tt(L.fresh_array("var", (m,)))
            cov = SObj("KernelStub", {"base_kernel": SObj("KernelStub", {"lengthscale": ls}), "outputscale": var})
            own = lambda i: [ls.a[i, 0, c] for c in range(d)]
        gp = SObj(cls_ref(GP, gpcls), {"covar_module": cov})
        obj = SObj(cls_ref(GP, cls), {"model": gp, "input_dim": d, "output_dim": m})
        paths = t.run(GP, "GPyTorchMultioutputExactModel.get_lengthscale_and_var", [], self_val=obj)
        t.no_raise(paths)

        def goal(p):
            if p.kind != "return" or not isinstance(p.value, tuple) or len(p.value) != 2:
                return False
            l_, v_ = L.as_arr(p.value[0]), L.as_arr(p.value[1])
            if l_.ndim < 1 or l_.shape[0] != m or l_.size != m * d:
                return False    # not one entry (row) per objective
            fl = l_.flat()
            return z3.And(*[V.R(fl[i * d + c]) == V.R(own(i)[c]) for i in range(m) for c in range(d)])

        def goal_var(p):
            if p.kind != "return" or not isinstance(p.value, tuple) or len(p.value) != 2:
                return False
            v_ = L.as_arr(p.value[1])
            if v_.shape != (m,):
                return False
            return z3.And(*[V.R(v_.a[i]) == V.R(var.a[i]) for i in range(m)])
        t.prove_paths("one_lengthscale_entry_per_objective_agreeing_with_the_kernel", paths, goal, replay=mo_lsvar_replay(cls, d, m))
        t.prove_paths("one_variance_per_objective_agreeing_with_the_kernel", paths, goal_var)
        t.implicit()
    return _t


def mo_lsvar_replay(cls, d, m):
    def builder(mdl):
        return ["exec(open('replays/known/C15_correlated_lengthscales_per_input_dimension.py').read())"] if cls.startswith("Correlated") else None
    return builder


for _d, _m in ((1, 2), (2, 2), (2, 3), (3, 2)):
    _mo_lsvar("IndependentExactGPyTorchModel", "BatchIndependentExactGPModel", _d, _m)
    _mo_lsvar("CorrelatedExactGPyTorchModel", "MultitaskExactGPModel", _d, _m)
