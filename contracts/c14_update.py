"""C14 -- displayed confidence regions are exactly the model's prediction scaled."""
import itertools

import z3

from pyvc.harness import InArr, InConst, InEll, InReal, InRect, task, cls_ref
from pyvc import libmodel as L
from pyvc import values as V
from pyvc.values import SObj
from pyvc.symexec import find_obj
from . import spec as S

CR = "vopy/confidence_region.py"
DS = "vopy/design_space.py"
UT = "vopy/utils/utils.py"


def _scale(t, kind, m):
    if kind == "scalar0d":
        s = t.inp("scale", InArr("sc", ()))
        return s, [t.inputs["scale"].snapshot.flat()[0]] * m
    if kind == "vec1":
        s = t.inp("scale", InArr("sc", (1,)))
        return s, [t.inputs["scale"].snapshot.flat()[0]] * m
    if kind == "vecm":
        s = t.inp("scale", InArr("sc", (m,)))
        return s, t.inputs["scale"].snapshot.flat()
    raise ValueError(kind)


def _rect_update(m, scale_kind, iterative, covshape="mm"):
    @task("C14", "Rect.update[m=%d,scale=%s,iterative=%s,cov=%s]" % (m, scale_kind, iterative, covshape))
    def _t(t):
        t.mode = "unrolled m=%d" % m
        R = InRect("r", m, iterative=iterative)
        r = t.inp("r", R)
        mean = t.inp("mean", InArr("mu", (m,)))
        cov = t.inp("cov", InArr("cov", (m, m) if covshape == "mm" else (1, m, m)))
        sc, svec = _scale(t, scale_kind, m)
        MU = t.inputs["mean"].snapshot.flat()
        C = t.inputs["cov"].snapshot
        diag = [C.a[j, j] if covshape == "mm" else C.a[0, j, j] for j in range(m)]
        t.assume(R.valid(), *[V.R(d) >= 0 for d in diag])
        t.assume(*[V.R(x) >= 0 for x in svec])
        paths = t.run(CR, "RectangularConfidenceRegion.update", [mean, cov, sc], self_val=r)
        t.must_fail()
        t.no_raise(paths)
        lo0, up0 = R.lower.snapshot.flat(), R.upper.snapshot.flat()

        def fresh_box(j, lo, up):
            """box coordinate j is the model prediction scaled: centre = mean_j, half-width = scale_j * std_j
            (half-width >= 0 and half-width^2 = scale_j^2 cov_jj characterise scale_j*sqrt(cov_jj) for scale >= 0)."""
            hw = (V.R(up) - V.R(lo)) / 2
            return z3.And((V.R(up) + V.R(lo)) / 2 == V.R(MU[j]), hw >= 0, hw * hw == V.R(svec[j]) * V.R(svec[j]) * V.R(diag[j]))

        def goal(p):
            o = find_obj(p.st, r.oid)
            lo, up = o.fields["lower"], o.fields["upper"]
            if not isinstance(lo, L.SArr) or lo.shape != (m,) or up.shape != (m,):
                return False
            cs = []
            if not iterative:
                for j in range(m):
                    cs.append(fresh_box(j, lo.flat()[j], up.flat()[j]))
                return z3.And(*cs)
            # iterative: intersection with the previous rectangle, or the new rectangle when disjoint
            Ln = [V.R(MU[j]) - L._SQRT(V.R(diag[j])) * V.R(svec[j]) for j in range(m)]
            Un = [V.R(MU[j]) + L._SQRT(V.R(diag[j])) * V.R(svec[j]) for j in range(m)]
            overlap_open = z3.And(*[z3.And(V.R(lo0[j]) < Un[j], Ln[j] < V.R(up0[j])) for j in range(m)])
            disjoint_closed = z3.Or(*[z3.Or(V.R(lo0[j]) > Un[j], Ln[j] > V.R(up0[j])) for j in range(m)])
            is_inter = z3.And(*[z3.And(V.R(lo.flat()[j]) == z3.If(V.R(lo0[j]) >= Ln[j], V.R(lo0[j]), Ln[j]),
                                       V.R(up.flat()[j]) == z3.If(V.R(up0[j]) <= Un[j], V.R(up0[j]), Un[j])) for j in range(m)])
            is_new = z3.And(*[z3.And(V.R(lo.flat()[j]) == Ln[j], V.R(up.flat()[j]) == Un[j]) for j in range(m)])
            return z3.And(z3.Implies(overlap_open, is_inter), z3.Implies(disjoint_closed, is_new), z3.Or(is_inter, is_new))

        def ordered(p):
            o = find_obj(p.st, r.oid)
            lo, up = o.fields["lower"], o.fields["upper"]
            return z3.And(*[V.R(a) <= V.R(b) for a, b in zip(lo.flat(), up.flat())])
        t.prove_paths("region_is_prediction_scaled" if not iterative else "intersection_or_new_when_disjoint", paths, goal)
        t.prove_paths("lower_le_upper", paths, ordered)
        t.frame_unchanged("frame:mean-cov-scale-not-written", paths, ["mean", "cov", "scale"])
        t.agree(paths, k=2)
        t.implicit()
    return _t


# m >= 2: vector optimisation has at least two objectives (m = 1 makes covariance.squeeze() 0-d, outside every property's range)
for _m in (2, 3, 4):
    for _sk in ("scalar0d", "vecm"):
        _rect_update(_m, _sk, False)
        _rect_update(_m, _sk, True)
_rect_update(2, "vec1", False)
_rect_update(2, "scalar0d", False, covshape="1mm")


@task("C14", "Rect.update.raises[non-square cov]")
def _rect_update_raises(t):
    R = InRect("r", 2)
    r = t.inp("r", R)
    mean = t.inp("mean", InArr("mu", (2,)))
    cov = t.inp("cov", InArr("cov", (2, 3)))
    sc = t.inp("scale", InArr("sc", ()))
    paths = t.run(CR, "RectangularConfidenceRegion.update", [mean, cov, sc], self_val=r)
    t.prove("is_rejected_with_an_exception", z3.BoolVal(bool(paths) and all(p.kind == "raise" for p in paths)))


def _intersect(m):
    @task("C14", "Rect.intersect[m=%d]" % m)
    def _t(t):
        R = InRect("r", m, iterative=True)
        r = t.inp("r", R)
        lo = t.inp("lo", InArr("nl", (m,)))
        up = t.inp("up", InArr("nu", (m,)))
        NL, NU = t.inputs["lo"].snapshot.flat(), t.inputs["up"].snapshot.flat()
        t.assume(R.valid(), *[V.R(a) <= V.R(b) for a, b in zip(NL, NU)])
        paths = t.run(CR, "RectangularConfidenceRegion.intersect", [lo, up], self_val=r)
        t.must_fail()
        t.no_raise(paths)
        lo0, up0 = R.lower.snapshot.flat(), R.upper.snapshot.flat()

        def goal(p):
            o = find_obj(p.st, r.oid)
            l1, u1 = o.fields["lower"].flat(), o.fields["upper"].flat()
            overlap_open = z3.And(*[z3.And(V.R(lo0[j]) < V.R(NU[j]), V.R(NL[j]) < V.R(up0[j])) for j in range(m)])
            disjoint_closed = z3.Or(*[z3.Or(V.R(lo0[j]) > V.R(NU[j]), V.R(NL[j]) > V.R(up0[j])) for j in range(m)])
            is_inter = z3.And(*[z3.And(V.R(l1[j]) == z3.If(V.R(lo0[j]) >= V.R(NL[j]), V.R(lo0[j]), V.R(NL[j])),
                                       V.R(u1[j]) == z3.If(V.R(up0[j]) <= V.R(NU[j]), V.R(up0[j]), V.R(NU[j]))) for j in range(m)])
            is_new = z3.And(*[z3.And(V.R(l1[j]) == V.R(NL[j]), V.R(u1[j]) == V.R(NU[j])) for j in range(m)])
            ordered = z3.And(*[V.R(a) <= V.R(b) for a, b in zip(l1, u1)])
            return z3.And(z3.Implies(overlap_open, is_inter), z3.Implies(disjoint_closed, is_new), z3.Or(is_inter, is_new), ordered)
        t.prove_paths("exact_intersection_or_new_and_ordered", paths, goal)
        t.frame_unchanged("frame:arguments-not-written", paths, ["lo", "up"])
    return _t


for _m in (1, 2, 3):
    _intersect(_m)


def _ell_update(m):
    @task("C14", "Ell.update[m=%d]" % m)
    def _t(t):
        E = InEll("e", m)
        e = t.inp("e", E)
        mean = t.inp("mean", InArr("mu", (m,)))
        cov = t.inp("cov", InArr("cov", (m, m)))
        sc = t.inp("scale", InArr("sc", ()))
        paths = t.run(CR, "EllipsoidalConfidenceRegion.update", [mean, cov, sc], self_val=e)
        t.no_raise(paths)

        def goal(p):
            o = find_obj(p.st, e.oid)
            c, sg, al = o.fields["center"], o.fields["sigma"], o.fields["alpha"]
            al = al.flat()[0] if isinstance(al, L.SArr) else al
            return z3.And(*([V.Z(V.eq(a, b)) for a, b in zip(c.flat(), t.inputs["mean"].snapshot.flat())] +
                            [V.Z(V.eq(a, b)) for a, b in zip(sg.flat(), t.inputs["cov"].snapshot.flat())] +
                            [V.Z(V.eq(al, t.inputs["scale"].snapshot.flat()[0]))]))
        t.prove_paths("centre_cov_radius_are_mean_cov_scale", paths, goal)
    return _t


for _m in (2, 3):
    _ell_update(_m)


@task("C14", "Ell.update.raises")
def _ell_update_raises(t):
    E = InEll("e", 2)
    e = t.inp("e", E)
    mean = t.inp("mean", InArr("mu", (2,)))
    cov = t.inp("cov", InArr("cov", (2, 2)))
    sc = t.inp("scale", InArr("sc", (2,)))
    paths = t.run(CR, "EllipsoidalConfidenceRegion.update", [mean, cov, sc], self_val=e)
    t.prove("vector_scale_is_rejected_with_an_exception", z3.BoolVal(bool(paths) and all(p.kind == "raise" for p in paths)))


# ----------------------------------------------------------------------------------------------------
# design-space update: interface contract of Model.predict is ASSUMED here (checked per model elsewhere)
# ----------------------------------------------------------------------------------------------------


class StubModel:
    """Model whose predict(X) obeys the interface contract: X has N rows -> means (N,m), covs (N,m,m)."""

    def __init__(self, t, m):
        self.t = t
        self.m = m
        self.calls = []

    def getattr(self, ex, st, name):
        if name == "predict":
            return self
        raise AttributeError(name)

    def call(self, ex, st, args, kwargs, node):
        X = L.as_arr(args[0])
        N = X.shape[0]
        mus = L.fresh_array("mus%d" % len(self.calls), (N, self.m))
        covs = L.fresh_array("covs%d" % len(self.calls), (N, self.m, self.m))
        self.calls.append((L.copy(X), L.copy(mus), L.copy(covs)))
        for i in range(N):
            for j in range(self.m):
                st.pc.append(V.R(covs.a[i, j, j]) >= 0)
        return (mus, covs)

    def clone(self, memo):
        return self


def _ds_update(cls, Ntot, m, idx, scale_kind, conf="rect"):
    nm = "%s.update[N=%d,m=%d,idx=%s,scale=%s,%s]" % (cls, Ntot, m, "None" if idx is None else "-".join(map(str, idx)), scale_kind, conf)

    @task("C14", nm)
    def _t(t):
        d = 2
        regions = []
        descs = []
        for i in range(Ntot):
            D = InRect("r%d" % i, m) if conf == "rect" else InEll("e%d" % i, m)
            t.inputs["reg%d" % i] = D
            descs.append(D)
            regions.append(D.sym)
            if conf == "rect":
                t.assume(D.valid())
        pts = t.inp("points", InArr("pts", (Ntot, d)))
        fields = {"points": pts, "confidence_regions": regions, "cardinality": Ntot}
        ds = SObj(cls_ref(DS, cls), fields, tag="ds")
        model = StubModel(t, m)
        n = Ntot if idx is None else len(idx)
        if scale_kind == "scalar0d":
            sc = t.inp("scale", InArr("sc", ()))
            srow = lambda k: [t.inputs["scale"].snapshot.flat()[0]] * m
        elif scale_kind == "vecm":
            sc = t.inp("scale", InArr("sc", (m,)))
            srow = lambda k: t.inputs["scale"].snapshot.flat()
        elif scale_kind == "perdesign":
            sc = t.inp("scale", InArr("sc", (n, m)))
            srow = lambda k: [t.inputs["scale"].snapshot.a[k, j] for j in range(m)]
        t.assume(*[V.R(x) >= 0 for x in t.inputs["scale"].snapshot.flat()])
        paths = t.run(DS, cls + ".update", [model, sc, None if idx is None else list(idx)], self_val=ds)
        t.must_fail()
        t.no_raise(paths)
        ids = list(range(Ntot)) if idx is None else list(idx)
        t.prove("predict_called_once_on_the_selected_rows", z3.BoolVal(len(model.calls) == 1 and model.calls[0][0].shape == (len(ids), d)) if True else False)
        if len(model.calls) != 1:
            return
        X, mus, covs = model.calls[0]
        t.prove("predict_rows_are_points_of_indices", z3.And(*[V.Z(V.eq(X.a[k, c], t.inputs["points"].snapshot.a[ids[k], c])) for k in range(len(ids)) for c in range(d)]))

        def goal(p):
            cs = []
            for i in range(Ntot):
                o = find_obj(p.st, regions[i].oid)
                if i in ids:
                    k = ids.index(i)
                    if conf == "rect":
                        lo, up = o.fields["lower"].flat(), o.fields["upper"].flat()
                        for j in range(m):
                            hw = (V.R(up[j]) - V.R(lo[j])) / 2
                            s = V.R(srow(k)[j])
                            cs.append(z3.And((V.R(up[j]) + V.R(lo[j])) / 2 == V.R(mus.a[k, j]), hw >= 0,
                                             hw * hw == s * s * V.R(covs.a[k, j, j])))
                    else:
                        c, sg, al = o.fields["center"], o.fields["sigma"], o.fields["alpha"]
                        al = al.flat()[0] if isinstance(al, L.SArr) else al
                        cs += [V.Z(V.eq(c.flat()[j], mus.a[k, j])) for j in range(m)]
                        cs += [V.Z(V.eq(sg.a[a, b], covs.a[k, a, b])) for a in range(m) for b in range(m)]
                        cs.append(V.Z(V.eq(al, srow(k)[0])))
                else:
                    D = descs[i]
                    if conf == "rect":
                        cs += [V.Z(V.eq(a, b)) for a, b in zip(o.fields["lower"].flat(), D.lower.snapshot.flat())]
                        cs += [V.Z(V.eq(a, b)) for a, b in zip(o.fields["upper"].flat(), D.upper.snapshot.flat())]
                    else:
                        cs += [V.Z(V.eq(a, b)) for a, b in zip(o.fields["center"].flat(), D.center.snapshot.flat())]
                        cs += [V.Z(V.eq(a, b)) for a, b in zip(o.fields["sigma"].flat(), D.sigma.snapshot.flat())]
                        cs.append(V.Z(V.eq(o.fields["alpha"], D.alpha.sym)))
            return z3.And(*cs) if cs else True
        t.prove_paths("updated_regions_are_predictions_scaled_and_others_untouched", paths, goal)
        t.implicit()
    return _t


for _cls in ("FixedPointsDesignSpace", "AdaptivelyDiscretizedDesignSpace"):
    for _idx in (None, (0,), (2,), (1, 0), (2, 0), (0, 1, 2), (2, 0, 1)):
        for _sk in ("scalar0d", "vecm", "perdesign"):
            _ds_update(_cls, 3, 2, _idx, _sk)
    _ds_update(_cls, 2, 3, (1,), "vecm")
for _idx in (None, (1,), (2, 0)):
    _ds_update("FixedPointsDesignSpace", 3, 2, _idx, "scalar0d", conf="ell")


def _ds_update_raises(cls, scale_shape):
    @task("C14", "%s.update.raises[scale=%s]" % (cls, "x".join(map(str, scale_shape))))
    def _t(t):
        m, Ntot = 2, 3
        regions = [InRect("r%d" % i, m).sym for i in range(Ntot)]
        pts = t.inp("points", InArr("pts", (Ntot, 2)))
        ds = SObj(cls_ref(DS, cls), {"points": pts, "confidence_regions": regions, "cardinality": Ntot})
        sc = t.inp("scale", InArr("sc", scale_shape))
        paths = t.run(DS, cls + ".update", [StubModel(t, m), sc, [0, 1]], self_val=ds)
        t.prove("wrong_scale_shape_is_rejected_with_an_exception", z3.BoolVal(bool(paths) and all(p.kind == "raise" for p in paths)))
    return _t


for _cls in ("FixedPointsDesignSpace", "AdaptivelyDiscretizedDesignSpace"):
    _ds_update_raises(_cls, (3, 2))
    _ds_update_raises(_cls, (2, 2, 1))


@task("C14", "hyperrectangle_check_intersection[m=2]")
def _check_inter(t):
    m = 2
    a = [t.inp(n, InArr(n, (m,))) for n in ("l1", "u1", "l2", "u2")]
    paths = t.run(UT, "hyperrectangle_check_intersection", a)
    t.no_raise(paths)
    l1, u1, l2, u2 = [t.inputs[n].snapshot.flat() for n in ("l1", "u1", "l2", "u2")]
    spec = z3.And(*[z3.And(V.R(l1[j]) < V.R(u2[j]), V.R(l2[j]) < V.R(u1[j])) for j in range(m)])
    t.prove_paths("true_iff_open_boxes_overlap_in_every_coordinate", paths, lambda p: V.Bz(p.value) == spec)


# ----------------------------------------------------------------------------------------------
# FixedPointsDesignSpace.__init__: one region object PER design (no sharing), of the configured kind and objective count;
# unknown kinds rejected
# ----------------------------------------------------------------------------------------------
def _fpds_init(kind, cls_name):
    @task("C14", "FixedPointsDesignSpace.__init__[confidence_type=%s]" % kind)
    def _t(t):
        from pyvc.harness import cls_ref
        from pyvc.symexec import find_obj
        from pyvc.values import SObj
        N, d, m = 3, 2, 2
        pts = t.inp("points", InArr("pts", (N, d)))
        obj = SObj(cls_ref("vopy/design_space.py", "FixedPointsDesignSpace"))
        paths = t.run("vopy/design_space.py", "FixedPointsDesignSpace.__init__", [pts, m, kind], self_val=obj)
        if cls_name is None:
            t.prove("is_rejected_with_an_exception", z3.BoolVal(bool(paths) and all(p.kind == "raise" for p in paths)))
            return
        t.no_raise(paths)

        def goal(p):
            o = find_obj(p.st, obj.oid)
            regs = o.fields.get("confidence_regions")
            ok = (o.fields.get("points") is pts and o.fields.get("cardinality") == N and isinstance(regs, list) and len(regs) == N
                  and all(isinstance(r, SObj) and getattr(r.cls, "name", None) == cls_name for r in regs)
                  and len(set(r.oid for r in regs)) == N)                      # a separate region object per design
            if not ok:
                return False
            cs = []
            for r in regs:
                if cls_name == "RectangularConfidenceRegion":
                    cs.append(z3.BoolVal(r.fields["lower"].shape == (m,) and r.fields["upper"].shape == (m,)))
                else:
                    cs.append(z3.BoolVal(r.fields["center"].shape == (m,) and r.fields["sigma"].shape == (m, m)))
            return z3.And(*cs)
        t.prove_paths("one_separate_region_of_the_configured_kind_per_design", paths, goal)
    return _t


_fpds_init("hyperrectangle", "RectangularConfidenceRegion")
_fpds_init("hyperellipsoid", "EllipsoidalConfidenceRegion")
_fpds_init("sphere", None)
