"""C04 -- at contraction 1 the confidence schedules are valid with probability >= 1 - delta.

Split (DESIGN 4/C04):
 (a) code-facing, PROVED from the real bodies: the value each compute_* returns, for every round t, delta in
     (0,1), K >= 1, m in the stated range, is at least the MINIMAL VALID schedule of its region type:
        rectangles (per objective, Gaussian):  (scale_t)^2 * n_t  >=  2 log(K m pi^2 t^2 / (6 delta))
        ellipsoids (chi^2_m, Laurent-Massart): threshold_t >= m + 2 sqrt(m x_t) + 2 x_t,  x_t = log(K pi^2 t^2 / (6 delta))
     where n_t is the number of samples averaged (bandits: t; GP posteriors: 1), threshold_t = radius_t^2 * n_t / sigma^2;
     plus domains (log of a positive, sqrt of a non-negative) and positivity of the scale.
 (b) analytic, PROVED in SMT from NAMED axioms: with the minimal schedule the per-term tail bound is
     6 delta / (K m pi^2 t^2) (resp. 6 delta / (K pi^2 t^2)) and the union over designs, objectives and rounds sums to delta.
 (c) ASSUMED: the Gaussian / chi-square tail inequalities, sum 1/t^2 = pi^2/6, the union bound, exp/log laws.
"""
from fractions import Fraction

import z3

from pyvc.harness import InInt, InReal, task, cls_ref
from pyvc import libmodel as L
from pyvc import values as V
from pyvc.values import SObj

ALG = {
    "PaVeBa": ("vopy/algorithms/paveba.py", "compute_radius"),
    "PaVeBaGP": ("vopy/algorithms/paveba_gp.py", "compute_alpha"),
    "PaVeBaPartialGP": ("vopy/algorithms/paveba_partial_gp.py", "compute_alpha"),
    "VOGP": ("vopy/algorithms/vogp.py", "compute_beta"),
    "EpsilonPAL": ("vopy/algorithms/epal.py", "compute_beta"),
    "Auer": ("vopy/algorithms/auer.py", "compute_beta"),
}

LOG, PI = L.LOG, L.PI


def log_apps(exprs):
    out = {}
    seen = set()
    stack = list(exprs)
    while stack:
        e = stack.pop()
        if e.get_id() in seen:
            continue
        seen.add(e.get_id())
        if z3.is_app(e):
            if e.decl().name() == "np_log":
                out[e.get_id()] = e
            stack.extend(e.children())
    return list(out.values())


def log_axioms(t, exprs, products=()):
    """Instances of the ASSUMED laws of the natural logarithm for the arguments that occur:
    monotone (pairwise), sign around 1, and the listed product-rule instances log(a*b) = log a + log b."""
    apps = log_apps(exprs)
    ax = []
    for a in apps:
        x = a.arg(0)
        ax.append(z3.Implies(x >= 1, a >= 0))
        ax.append(z3.Implies(z3.And(x > 0, x <= 1), a <= 0))
        ax.append(z3.Implies(x > 1, a > 0))
    for i, a in enumerate(apps):
        for b in apps[i + 1:]:
            x, y = a.arg(0), b.arg(0)
            ax.append(z3.Implies(z3.And(x > 0, x <= y), a <= b))
            ax.append(z3.Implies(z3.And(y > 0, y <= x), b <= a))
    for (a, b) in products:
        ax.append(z3.Implies(z3.And(a > 0, b > 0), LOG(a * b) == LOG(a) + LOG(b)))
    t.trusted.add("axiom: natural logarithm is monotone on (0,inf), log 1 = 0, log(ab) = log a + log b (instances)")
    return ax


LOG_ENCL = {2: ("0.6931", "0.6932"), 3: ("1.0986", "1.0987"), 4: ("1.3862", "1.3863"), 5: ("1.6094", "1.6095"),
            6: ("1.7917", "1.7918"), 7: ("1.9459", "1.9460")}


LOG_PI2_6 = LOG(PI * PI / 6)


def log_const_axioms(t, ns):
    t.trusted.add("axiom: decimal enclosures of log 2 .. log 7 and log(pi^2/6) (4 digits)")
    return [z3.And(LOG_PI2_6 > z3.RealVal("0.4977"), LOG_PI2_6 < z3.RealVal("0.4978")),
            z3.And(PI > z3.RealVal("3.1415926535"), PI < z3.RealVal("3.1415926536"))] + [z3.And(LOG(z3.RealVal(n)) > z3.RealVal(LOG_ENCL[n][0]), LOG(z3.RealVal(n)) < z3.RealVal(LOG_ENCL[n][1])) for n in ns]


def algo_obj(name, fields):
    rel, _ = ALG[name]
    return SObj(cls_ref(rel, name), fields)


def setup(t, name, m_val=None):
    K, tt = z3.Int("K"), z3.Int("t")
    m = z3.IntVal(m_val) if m_val is not None else z3.Int("m")
    delta = z3.Real("delta")
    nv = z3.Real("noise_var")
    t.assume(K >= 1, tt >= 1, delta > 0, delta < 1, nv > 0)
    if m_val is None:
        t.assume(m >= 1)
    t.inputs["K"], t.inputs["t"], t.inputs["delta"], t.inputs["noise_var"] = InInt("K"), InInt("t"), InReal("delta"), InReal("noise_var")
    ds = SObj("DSStub", {"cardinality": K})
    return K, tt, m, delta, nv, ds


def x_min(K, tt, delta, m=None):
    """log of the reciprocal of the per-term share: K [m] pi^2 t^2 / (6 delta)."""
    a = z3.ToReal(K) * PI * PI * z3.ToReal(tt) * z3.ToReal(tt) / (6 * delta)
    if m is not None:
        a = z3.ToReal(m) * a
    return a


def _rect(name, rounds_offset, mrange=None):
    def mk(m_val):
        @task("C04", "%s.%s%s" % (name, ALG[name][1], "" if m_val is None else "[m=%d]" % m_val))
        def _t(t):
            t.mode = "scalar analysis: t, K%s symbolic integers, delta, noise_var symbolic reals; contraction = 1" % ("" if m_val else ", m")
            K, tt, m, delta, nv, ds = setup(t, name, m_val)
            # VOGP / eps-PAL count rounds from 0 and use round+1
            rnd = tt - rounds_offset
            fields = {"m": m, "design_space": ds, "round": rnd, "delta": delta, "conf_contraction": 1, "noise_var": nv}
            if name == "Auer":
                fields["_use_empirical_beta"] = False
                from pyvc import setmode as SM
                fields["S"] = [0]  # one active design: the schedule row is the same for every design
                t.assume(nv <= 1)
            obj = algo_obj(name, fields)
            lib = L
            lib  # noqa
            paths = t.run(ALG[name][0], name + "." + ALG[name][1], [], self_val=obj)
            t.must_fail()
            t.no_raise(paths)
            if len(paths) != 1 or paths[0].kind != "return":
                t.prove("single_return_path", False)
                return
            r = paths[0].value
            if isinstance(r, L.SArr):
                vals = [V.R(x) for x in r.flat()]
            else:
                vals = [V.R(r)]
            A = x_min(K, tt, delta, m)
            need = 2 * LOG(A)
            # samples averaged: Auer's interval is for the mean of t unit-variance samples
            n_t = z3.ToReal(tt) if name == "Auer" else z3.RealVal(1)
            prods = []
            if name == "PaVeBaGP":
                # the schedule contains m*log 6 and log(pi^2 t^2 K / (6 delta)); compare with log(m * that)
                inner = x_min(K, tt, delta)
                prods = [(z3.ToReal(m), inner)]
            if name == "PaVeBaPartialGP":
                inner = x_min(K, tt, delta)
                prods = [(z3.ToReal(m), inner), (z3.RealVal(2), inner)]
            exprs = vals + [need, LOG(z3.ToReal(m)), LOG_PI2_6, LOG(x_min(K, tt, delta))] + [LOG(a) for pr in prods for a in pr] + [LOG(a * b) for a, b in prods]
            ax = log_axioms(t, exprs + [c for p in paths for c in p.pc], prods)
            ax += log_const_axioms(t, [2, 6] + ([m_val] if m_val and m_val > 1 else []))
            if m_val is None:
                ax.append(LOG(z3.ToReal(m)) <= z3.ToReal(m) - 1)  # log x <= x - 1
                t.trusted.add("axiom: log x <= x - 1 (instance x = m)")
            pc = paths[0].pc
            for i, v in enumerate(vals):
                t.prove("scale_positive#%d" % i, v > 0, assumptions=pc + ax)
                t.prove("squared_scale_times_samples_is_at_least_2log(K m pi^2 t^2/(6 delta))#%d" % i,
                        v * v * n_t >= need, assumptions=pc + ax, timeout_ms=max(t.timeout_ms, 30000))
            t.implicit(assumptions=ax)
        return _t
    if mrange is None:
        mk(None)
    else:
        for mv in mrange:
            mk(mv)


_rect("VOGP", 1)
_rect("EpsilonPAL", 1)
_rect("Auer", 0, mrange=(2, 3, 4, 5, 6))
_rect("PaVeBaGP", 0)
_rect("PaVeBaPartialGP", 0, mrange=(2, 3, 4, 5, 6))


def _ell(name, mrange, kind):
    def mk(m_val):
        @task("C04", "%s.%s[ellipsoid,m=%d]" % (name, ALG[name][1], m_val))
        def _t(t):
            t.mode = "scalar analysis, ellipsoidal regions, m = %d" % m_val
            K, tt, m, delta, nv, ds = setup(t, name, m_val)
            obj = algo_obj(name, {"m": m, "design_space": ds, "round": tt, "delta": delta, "conf_contraction": 1, "noise_var": nv})
            paths = t.run(ALG[name][0], name + "." + ALG[name][1], [], self_val=obj)
            t.must_fail()
            t.no_raise(paths)
            if len(paths) != 1 or paths[0].kind != "return":
                t.prove("single_return_path", False)
                return
            r = V.R(paths[0].value)
            A = x_min(K, tt, delta)
            x = LOG(A)
            # chi-square threshold the region corresponds to
            if kind == "bandit":       # radius r on the mean of t samples of variance noise_var
                thr = r * r * z3.ToReal(tt) / nv
            else:                      # GP posterior: radius is the returned value itself
                thr = r * r
            sq = L._SQRT(z3.ToReal(m) * x)
            facts = [sq >= 0, sq * sq == z3.ToReal(m) * x]
            prods = [(z3.RealVal(m_val + 1), A)] if name == "PaVeBa" else ([(z3.RealVal(2), A)] if name == "PaVeBaPartialGP" else [])
            exprs = [r, x, LOG_PI2_6] + [LOG(a * b) for a, b in prods] + [LOG(a) for pr in prods for a in pr]
            ax = log_axioms(t, exprs + [c for c in paths[0].pc], prods) + log_const_axioms(t, [2, 3, 4, 5, 6, 7]) + facts
            ax.append(z3.And(A >= PI * PI / 6))
            pc = paths[0].pc
            t.prove("radius_positive", r > 0, assumptions=pc + ax)
            t.prove("chi_square_threshold_is_at_least_m+2sqrt(m x)+2x_with_x=log(K pi^2 t^2/(6 delta))",
                    thr >= z3.ToReal(m) + 2 * sq + 2 * x, assumptions=pc + ax, timeout_ms=max(t.timeout_ms, 30000))
            t.implicit(assumptions=ax)
        return _t
    for mv in mrange:
        mk(mv)


_ell("PaVeBa", (2, 3, 4, 5, 6), "bandit")
_ell("PaVeBaGP", (2, 3, 4, 5, 6), "gp")
_ell("PaVeBaPartialGP", (2,), "gp")


@task("C04", "lemma.union_bound_sums_to_delta")
def _sum(t):
    """With the minimal schedules the per-term tails are e^{-log A} = 1/A (ASSUMED exp/log law and the
    ASSUMED tail inequalities T1 Gaussian, T2 Laurent-Massart); summed over designs, objectives and all rounds with the
    ASSUMED value S = sum_{t>=1} 1/t^2 = pi^2/6 they give exactly delta."""
    K, m, delta, S = z3.Reals("K m delta S")
    pre = z3.And(K >= 1, m >= 1, delta > 0, delta < 1, S == PI * PI / 6, PI > 3)
    t.trusted.update({"axiom T1: P(|Z| > a) <= exp(-a^2/2) for a standard normal Z, a >= 0",
                      "axiom T2 (Laurent-Massart): P(chi2_m >= m + 2 sqrt(m x) + 2 x) <= exp(-x)",
                      "axiom T3: sum_{t>=1} 1/t^2 = pi^2/6", "axiom: exp(-log x) = 1/x; union bound"})
    # rectangles: K*m terms per round, each 6 delta/(K m pi^2 t^2)
    t.prove("rectangles: K m sum_t 6 delta/(K m pi^2 t^2) = delta", z3.Implies(pre, K * m * (6 * delta / (K * m * PI * PI)) * S == delta), use_pre=False)
    # ellipsoids: K terms per round, each 6 delta/(K pi^2 t^2)
    t.prove("ellipsoids: K sum_t 6 delta/(K pi^2 t^2) = delta", z3.Implies(pre, K * (6 * delta / (K * PI * PI)) * S == delta), use_pre=False)
    a, tt_ = z3.Reals("a tt")
    # the per-term step: beta^2 n >= 2 log A  =>  exp(-beta^2 n / 2) <= exp(-log A) = 1/A   (monotone exp: assumed)
    t.prove("term: threshold comparison is the only code-dependent step", z3.Implies(z3.And(a >= 2 * tt_), a / 2 >= tt_), use_pre=False)
