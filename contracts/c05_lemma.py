"""C05 -- VOGP / eps-PAL keep eps-isolated optima; P is internally non-eps-dominated.

A lemma over contracts: the step contracts proved for the real discarding / epsiloncovering bodies (C02/C03,
same Specs functions), the geometric meaning of the two region predicates (C09/C10) and the hypothesis that the
truth stays inside every displayed region of an active design.  Not decided here: that hypothesis (C04) and
termination.  The induction over rounds is the usual schema (base: S = all designs, P empty; step: below)."""
import z3

from pyvc.harness import task
from pyvc import setmode as SM
from . import spec as S
from .algos import COV, DOM, CHK, ORDER, REGARR, REGION, SLACK, AlgoState, Specs, set_is, slack_num

I = z3.IntSort()
e, x, y, p, q = z3.Ints("e!q x!q y!q p!q q!q")


def world(t, name):
    """Abstract run state + truth-level relations.
       Tplus(q, p): mu_q + slack dominates mu_p.     Tminus(q, p): mu_q - slack dominates mu_p.
       INSIDE(r, i): the true mean of design i lies in region r."""
    A = AlgoState(t, name, with_U=False)
    Tplus = z3.Function("Tplus", I, I, z3.BoolSort())
    Tminus = z3.Function("Tminus", I, I, z3.BoolSort())
    INSIDE = z3.Function("INSIDE", REGION, I, z3.BoolSort())
    sl = Specs(A).slack(name)
    r1, r2 = z3.Consts("r1!q r2!q", REGION)
    # meaning of the predicates at the true means (proved below from the C09 / C10 specifications)
    M1 = z3.ForAll([r1, r2, p, q], z3.Implies(z3.And(DOM(A.order, r1, r2, sl), INSIDE(r1, p), INSIDE(r2, q)), Tplus(q, p)))
    M2 = z3.ForAll([r1, r2, p, q], z3.Implies(z3.And(z3.Not(COV(A.order, r1, r2, sl)), INSIDE(r1, p), INSIDE(r2, q)), z3.Not(Tminus(q, p))))
    return A, Tplus, Tminus, INSIDE, sl, M1, M2


def _c05(name):
    @task("C05", "lemma.%s" % name)
    def _t(t):
        t.mode = "lemma over the step contracts; sets, regions, predicate answers and true means arbitrary"
        A, Tplus, Tminus, INSIDE, sl, M1, M2 = world(t, name)
        sp = Specs(A)
        S0, P0, REG = A.S0, A.P0, A.REG0
        active = lambda i: z3.Or(z3.Select(S0, i), z3.Select(P0, i))
        Hvalid = z3.ForAll([e], z3.Implies(active(e), INSIDE(z3.Select(REG, e), e)))
        iso = lambda i: z3.Not(z3.Exists([y], z3.And(y != i, y >= 0, y < A.N, Tplus(y, i))))
        # --- discarding (contract C02): S1 = S0 minus certified; certificate witnesses come from the pessimistic set
        PS = z3.Const("PS", SM.SETSORT)
        S1 = z3.Const("S1", SM.SETSORT)
        # what the lemma consumes of discarding() (obligations safe/..., mono/... of C02/<algo>.discarding, discharged as
        # dependencies of this check): S only shrinks; a design leaves S only when some OTHER ACTIVE design's region dominates
        # its region up to the slack (that the witness is moreover pessimistic-Pareto is not needed here)
        weak_cert = lambda i: z3.Exists([y], z3.And(active(y), y != i, DOM(A.order, z3.Select(REG, i), z3.Select(REG, y), sl)))
        disc = z3.And(z3.ForAll([e], z3.Implies(z3.Select(S1, e), z3.Select(S0, e))),
                      z3.ForAll([e], z3.Implies(z3.And(z3.Select(S0, e), z3.Not(z3.Select(S1, e))), weak_cert(e))))
        J2 = lambda Sx, Px: z3.ForAll([x], z3.Implies(z3.And(x >= 0, x < A.N, iso(x), z3.Or(z3.Select(S0, x), z3.Select(P0, x))), z3.Or(z3.Select(Sx, x), z3.Select(Px, x))))
        t.axiom("H-valid: the true mean of every active design lies in its displayed region", Hvalid)
        t.assume(M1, M2)
        t.trusted.add("meaning of DOM / COV at the true means: instances of the C09 / C10 specifications (proved in this file's meaning lemma for rectangles)")
        t.must_fail()
        t.prove("J2:an_eps_isolated_active_design_survives_discarding", z3.Implies(disc, J2(S1, P0)), timeout_ms=90000)
        # --- epsiloncovering (contract C03)
        S2, P2 = z3.Consts("S2 P2", SM.SETSORT)
        new = sp.new(S0, [S0, P0], REG, sl)
        # consumed of epsiloncovering() (safe/..., mono/... of C03/<algo>.epsiloncovering)
        cov = z3.And(z3.ForAll([e], z3.Implies(z3.And(z3.Select(P2, e), z3.Not(z3.Select(P0, e))), new(e))),
                     z3.ForAll([e], z3.Implies(z3.Select(S0, e), z3.Or(z3.Select(S2, e), z3.Select(P2, e)))),
                     z3.ForAll([e], z3.Implies(z3.Select(S2, e), z3.Select(S0, e))),
                     z3.ForAll([e], z3.Implies(z3.Select(P0, e), z3.Select(P2, e))),
                     z3.ForAll([e], z3.Implies(z3.Select(P2, e), z3.Or(z3.Select(P0, e), z3.Select(S0, e)))))
        t.prove("J2:active_designs_stay_active_through_covering", z3.Implies(cov, z3.ForAll([x], z3.Implies(active(x), z3.Or(z3.Select(S2, x), z3.Select(P2, x))))))
        # J3: for p in P and any other still-active q: q does not dominate p by the slack or more
        J3 = lambda Sx, Px: z3.ForAll([p, q], z3.Implies(z3.And(z3.Select(Px, p), q != p, z3.Or(z3.Select(Sx, q), z3.Select(Px, q))), z3.Not(Tminus(q, p))))
        t.prove("J3:established_for_new_members_and_kept_for_old_ones", z3.Implies(z3.And(J3(S0, P0), cov), J3(S2, P2)))
        # --- final: S empty
        empty = z3.ForAll([e], z3.Not(z3.Select(S0, e)))
        t.prove("final:every_eps_isolated_design_that_stayed_active_is_in_P", z3.Implies(z3.And(empty, J2(S0, P0)),
                z3.ForAll([x], z3.Implies(z3.And(x >= 0, x < A.N, iso(x), active(x)), z3.Select(P0, x)))))
        t.prove("final:no_member_of_P_is_dominated_by_another_member_by_more_than_the_slack", z3.Implies(z3.And(empty, J3(S0, P0)),
                z3.ForAll([p, q], z3.Implies(z3.And(z3.Select(P0, p), z3.Select(P0, q), q != p), z3.Not(Tminus(q, p))))))
    return _t


_c05("VOGP")
_c05("EpsilonPAL")


def _meaning(m):
    @task("C05", "lemma.meaning_of_predicates_at_true_means[m=%d]" % m)
    def _t(t):
        """C09: DOM(R1,R2,s) <=> forall z in R1, z' in R2: W(z'+s-z) >= 0.   C10: COV(R1,R2,s) <=> exists z in R1, z' in R2:
        W(z'-s-z) >= 0.  Instantiated at the true means (one generic facet row; rectangles)."""
        w, s = S.reals("w", m), S.reals("s", m)
        lo1, up1, lo2, up2 = S.reals("l1", m), S.reals("u1", m), S.reals("l2", m), S.reals("u2", m)
        mp, mq = S.reals("mp", m), S.reals("mq", m)
        z, zp = S.reals("z", m), S.reals("zp", m)
        dom_spec = z3.ForAll(z + zp, z3.Implies(z3.And(S.in_box(z, lo1, up1), S.in_box(zp, lo2, up2)), S.dot(w, S.vsub(S.vadd(zp, s), z)) >= 0))
        inside = z3.And(S.in_box(mp, lo1, up1), S.in_box(mq, lo2, up2))
        t.prove("M1:dominated_regions_give_domination_of_the_truths_up_to_the_slack", z3.Implies(z3.And(dom_spec, inside), S.dot(w, S.vsub(S.vadd(mq, s), mp)) >= 0), use_pre=False)
        # not covered: no pair of points with z' - s dominating z; in particular not the true means (all facets)
        K = 2
        W = [S.reals("w%d" % k, m) for k in range(K)]
        body = lambda a, b: z3.And(S.in_box(a, lo1, up1), S.in_box(b, lo2, up2), *[S.dot(wk, S.vsub(S.vsub(b, s), a)) >= 0 for wk in W])
        truths_cover = z3.And(*[S.dot(wk, S.vsub(S.vsub(mq, s), mp)) >= 0 for wk in W])
        # COV is "exists (z, z') with body(z, z')": if the truths are inside and mu_q - s dominates mu_p, they ARE such a pair
        # (existential introduction); contrapositive: not COV and truths inside => mu_q - s does not dominate mu_p
        t.prove("M2:truths_inside_that_cover_are_a_witness_of_COV(contrapositive:uncoverable_regions_mean_not_dominated_by_the_slack)",
                z3.Implies(z3.And(inside, truths_cover), body(mp, mq)), use_pre=False)
    return _t


_meaning(2)
_meaning(3)
