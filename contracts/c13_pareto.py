"""C13 -- Pareto-set extraction is exact for every finite set and cone.

`dominates` is called by contract: the calls see an arbitrary reflexive, transitive relation D on the input
rows (C12 proves the real order is one), so the result holds for every cone, every m and every K at once.
The number of vectors N is enumerated (1..5, all in the quick tier); all values are symbolic."""
import itertools

import z3

from pyvc.harness import InArr, task, cls_ref
from pyvc import libmodel as L
from pyvc import values as V
from pyvc.values import SObj

ORD = "vopy/order.py"


def setup(t, N, m):
    el = t.inp("elements", InArr("el", (N, m)))
    EL = t.inputs["elements"].snapshot
    D = [[z3.Bool("D_%d_%d" % (i, j)) for j in range(N)] for i in range(N)]   # D[i][j]: row i dominates row j
    eqrow = lambda i, j: z3.And(*[V.R(EL.a[i, c]) == V.R(EL.a[j, c]) for c in range(m)])
    for i in range(N):
        t.assume(D[i][i])
        for j in range(N):
            # the order depends on the VALUES of the two vectors only (equal rows are interchangeable)
            for k in range(N):
                t.assume(z3.Implies(z3.And(D[i][j], D[j][k]), D[i][k]))
                t.assume(z3.Implies(eqrow(i, j), z3.And(D[i][k] == D[j][k], D[k][i] == D[k][j])))
    t.trusted.add("callee-contract: PolyhedralConeOrder.dominates is a reflexive, transitive relation of the two vectors' values (proved in C12)")

    def which(v):
        fl = v.flat()
        for i in range(N):
            if all(x is y or (hasattr(x, "eq") and hasattr(y, "eq") and x.eq(y)) for x, y in zip(fl, [EL.a[i, c] for c in range(m)])):
                return i
        return None

    def c_dom(ex, st, self_val, args, kwargs, node):
        i, j = which(L.as_arr(args[0])), which(L.as_arr(args[1]))
        if i is None or j is None:
            # not syntactically an input row (e.g. a row selected by a symbolic index): the relation depends on the two
            # vectors' VALUES only, so the result equals D[i][j] for every pair of rows the arguments are equal to.  If an
            # argument equals no input row the result stays unconstrained; the name marks it as an over-approximation, so a
            # counter-model that needs it is reported as undecided, never as a violation.
            a0, a1 = L.as_arr(args[0]).flat(), L.as_arr(args[1]).flat()
            if len(a0) != m or len(a1) != m:
                return [(st, L.mk([z3.Bool("dom_unknown!%d" % V.fresh_id())], (1,), "b"))]
            r = z3.Bool("dom_unknown!%d" % V.fresh_id())
            is_row = lambda a, k: z3.And(*[V.R(a[c]) == V.R(EL.a[k, c]) for c in range(m)])
            for ii in range(N):
                for jj in range(N):
                    st.pc.append(z3.Implies(z3.And(is_row(a0, ii), is_row(a1, jj)), r == D[ii][jj]))
            return [(st, L.mk([r], (1,), "b"))]
        return [(st, L.mk([D[i][j]], (1,), "b"))]
    t.contracts[ORD + "::PolyhedralConeOrder.dominates"] = c_dom
    # the cone is abstract (any preorder D): its matrix has the right width m, an unspecified number of facets (m here) and
    # values the contract leaves open -- the marker makes a counter-model that depends on them undecided, not a violation
    cone = SObj("ConeStub", {"W": L.fresh_array("coneW_unknown!", (m, m)), "cone_dim": m})
    order = SObj(cls_ref(ORD, "PolyhedralConeOrder"), {"ordering_cone": cone})
    return el, EL, D, eqrow, order


def strictly(D, j, i):
    return z3.And(D[j][i], z3.Not(D[i][j]))


def _fast(N, m, tier="quick"):
    @task("C13", "get_pareto_set[N=%d,m=%d]" % (N, m), tier=tier)
    def _t(t):
        t.mode = "N=%d vectors enumerated; order = arbitrary preorder (all cones, m, K)" % N
        el, EL, D, eqrow, order = setup(t, N, m)
        paths = t.run(ORD, "PolyhedralConeOrder.get_pareto_set", [el], self_val=order)
        t.must_fail()
        t.no_raise(paths)

        def idx(p):
            r = p.value
            if not isinstance(r, L.SArr) or r.ndim != 1 or r.kind != "i":
                return None
            vals = [V.conc(x) if not isinstance(x, int) else x for x in r.flat()]
            return vals if all(isinstance(v, int) for v in vals) else None

        def shape(p):
            r = idx(p)
            return z3.BoolVal(r is not None and all(0 <= v < N for v in r) and all(a < b for a, b in zip(r, r[1:])))
        t.prove_paths("indices_valid_distinct_increasing", paths, shape)

        def only_nondominated(p):
            r = idx(p) or []
            return z3.And(*[z3.Not(strictly(D, j, i)) for i in r for j in range(N)]) if r else z3.BoolVal(N == 0)
        t.prove_paths("no_returned_vector_is_strictly_dominated_by_any_vector", paths, only_nondominated)

        def covers(p):
            r = idx(p) or []
            return z3.And(*[z3.Or(*[D[i][j] for i in r]) if r else z3.BoolVal(False) for j in range(N)])
        t.prove_paths("every_vector_is_weakly_dominated_by_a_returned_one", paths, covers)

        def once(p):
            r = idx(p) or []
            return z3.And(*[z3.Not(eqrow(a, b)) for a in r for b in r if a < b]) if len(r) > 1 else z3.BoolVal(True)
        t.prove_paths("equal_valued_vectors_are_returned_once", paths, once)
        t.frame_unchanged("frame:input-not-written", paths, ["elements"])
        t.implicit()
    return _t


for _N in (1, 2, 3, 4):
    _fast(_N, 2)
_fast(5, 2)


def naive_replay(t, N, m):
    """The counter-model fixes the vectors; the abstract order is realised by a real polyhedral cone that
    contains the difference of a near-tie pair, then the real routine is run and the property evaluated with
    the real `dominates`."""
    def builder(mdl):
        from pyvc.harness import _arr_src
        me = lambda x: mdl.eval(V.Z(x), model_completion=True)
        EL = t.inputs["elements"].snapshot
        return ["from vopy.order import PolyhedralConeOrder",
                "from vopy.ordering_cone import OrderingCone",
                "el = %s" % _arr_src(me, EL),
                "N = len(el)",
                "pairs = [(i, j) for i in range(N) for j in range(N) if i != j and np.allclose(el[i], el[j]) and not np.array_equal(el[i], el[j])]",
                "print('vectors', el.tolist(), 'near-tie pairs', pairs)",
                "bad = False",
                "for (i, j) in pairs:",
                "    d = el[j] - el[i]",
                "    if np.linalg.norm(d) == 0: continue",
                "    u = d / np.linalg.norm(d); c, s_ = np.cos(np.pi / 6), np.sin(np.pi / 6)",
                "    W = np.array([u, [c * u[0] - s_ * u[1], s_ * u[0] + c * u[1]]])   # pointed cone containing d",
                "    order = PolyhedralConeOrder(OrderingCone(W))",
                "    got = list(order.get_pareto_set_naive(el))",
                "    strict = [(a, b) for a in got for b in range(N) if b != a and order.dominates(el[b], el[a]).all() and not order.dominates(el[a], el[b]).all()]",
                "    uncovered = [b for b in range(N) if not any(order.dominates(el[a], el[b]).all() for a in got)]",
                "    print('cone', W.tolist(), 'returned', got, 'returned-but-strictly-dominated', strict, 'not covered', uncovered)",
                "    bad = bad or bool(strict) or bool(uncovered)",
                "if bad:",
                "    print('REPLAY-CONFIRMED obligation=%s' % OBLIGATION)", "    raise SystemExit(1)",
                "print('REPLAY-NOT-REPRODUCED obligation=%s' % OBLIGATION)", "raise SystemExit(4)"]
    return builder


def _naive(N, m, tier="quick"):
    @task("C13", "get_pareto_set_naive[N=%d,m=%d]" % (N, m), tier=tier)
    def _t(t):
        t.mode = "N=%d vectors enumerated; order = arbitrary preorder; equality test modelled faithfully" % N
        el, EL, D, eqrow, order = setup(t, N, m)
        # reading decision: the naive routine is specified for pointed cones (antisymmetric order); with a
        # non-pointed cone two distinct mutually dominating vectors eliminate each other (the fast routine keeps one)
        for i in range(N):
            for j in range(N):
                t.assume(z3.Implies(z3.And(D[i][j], D[j][i]), eqrow(i, j)))
        paths = t.run(ORD, "PolyhedralConeOrder.get_pareto_set_naive", [el], self_val=order)
        t.must_fail()
        t.no_raise(paths)

        def idx(p):
            r = p.value
            if not isinstance(r, L.SArr) or r.ndim != 1:
                return None
            vals = [V.conc(x) if not isinstance(x, int) else x for x in r.flat()]
            return vals if all(isinstance(v, int) for v in vals) else None
        t.prove_paths("indices_valid_distinct_increasing", paths,
                      lambda p: z3.BoolVal(idx(p) is not None and all(0 <= v < N for v in idx(p)) and all(a < b for a, b in zip(idx(p), idx(p)[1:]))))
        t.prove_paths("no_returned_vector_is_strictly_dominated_by_any_vector", paths,
                      lambda p: z3.And(*[z3.Not(strictly(D, j, i)) for i in (idx(p) or []) for j in range(N)]) if idx(p) else z3.BoolVal(idx(p) is not None),
                      replay=naive_replay(t, N, m))
        t.prove_paths("every_vector_is_weakly_dominated_by_a_returned_one", paths,
                      lambda p: z3.And(*[z3.Or(*[D[i][j] for i in (idx(p) or [])]) if idx(p) else z3.BoolVal(False) for j in range(N)]),
                      replay=naive_replay(t, N, m))
        # all equal-valued copies of a kept vector are kept
        t.prove_paths("equal_valued_vectors_are_all_kept", paths,
                      lambda p: z3.And(*[z3.Implies(eqrow(i, j), z3.BoolVal(j in (idx(p) or []))) for i in (idx(p) or []) for j in range(N)]) if idx(p) else z3.BoolVal(True))
        t.implicit()
    return _t


for _N in (1, 2, 3):
    _naive(_N, 2)
_naive(4, 2)


@task("C13", "get_pareto_set.raises[ndim != 2]")
def _raises(t):
    el = t.inp("elements", InArr("el", (3,)))
    order = SObj(cls_ref(ORD, "PolyhedralConeOrder"), {"ordering_cone": SObj("ConeStub", {})})
    p1 = t.run(ORD, "PolyhedralConeOrder.get_pareto_set", [el], self_val=order)
    p2 = t.run(ORD, "PolyhedralConeOrder.get_pareto_set_naive", [el], self_val=order)
    t.prove("both_raise_ValueError", z3.BoolVal(all(ps and all(p.kind == "raise" for p in ps) for ps in (p1, p2))))
