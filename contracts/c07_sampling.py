"""C07 -- samples go to the acquisition maximiser among active designs and reach the model."""
import itertools
from fractions import Fraction

import z3

from pyvc.harness import InArr, InInt, InReal, InRect, task, cls_ref
from pyvc import libmodel as L
from pyvc import values as V
from pyvc.values import SObj
from pyvc.symexec import find_obj

AQ = "vopy/acquisition/acquisition.py"
DS = "vopy/design_space.py"


class RowwiseAcq:
    """Acquisition by contract: acq(X)[i] = a(row i of X), a row-wise function; rows are identified with the
    rows of the original candidate array, whose values are the symbols A_j."""

    def __init__(self, CH, n, d, A):
        self.CH, self.n, self.d, self.A = CH, n, d, A
        self.fields = {}

    def which(self, row):
        for j in range(self.n):
            if all(x is y or (hasattr(x, "eq") and hasattr(y, "eq") and x.eq(y)) for x, y in zip(row, [self.CH.a[j, c] for c in range(self.d)])):
                return j
        return None

    def getattr(self, ex, st, name):
        if name == "__call__":
            return self
        if name in self.fields:
            return self.fields[name]
        raise AttributeError(name)

    def setattr(self, ex, st, name, v):
        self.fields[name] = v
        st.roots.setdefault("acq_sets", []).append((name, v))

    def call(self, ex, st, args, kwargs, node):
        X = L.as_arr(args[0])
        out = []
        for i in range(X.shape[0]):
            j = self.which([X.a[i, c] for c in range(self.d)])
            out.append(self.value(j) if j is not None else z3.Real("acq_unknown!%d" % V.fresh_id()))
        return L.mk(out, (X.shape[0],), "f")

    def value(self, j):
        return self.A[j]

    def clone(self, memo):
        return self


def _opt_discrete(n, qreq, d=2):
    q = min(n, qreq)   # a batch larger than the candidate set returns every candidate

    @task("C07", "optimize_acqf_discrete[choices=%d,q=%d]" % (n, qreq))
    def _t(t):
        t.mode = "n=%d candidate rows, batch q=%d enumerated; acquisition values A_j and rows symbolic (ties allowed)" % (n, q)
        ch = t.inp("choices", InArr("ch", (n, d)))
        CH = t.inputs["choices"].snapshot
        A = [z3.Real("A_%d" % j) for j in range(n)]
        acq = RowwiseAcq(CH, n, d, A)
        paths = t.run(AQ, "optimize_acqf_discrete", [acq, qreq, ch])
        t.must_fail()
        t.cover("ties-possible", [A[0] == A[min(1, n - 1)]])
        t.no_raise(paths)

        def goal(p):
            if p.kind != "return" or not isinstance(p.value, tuple) or len(p.value) != 2:
                return False
            rows, vals = p.value
            if not isinstance(rows, L.SArr) or rows.shape != (q, d) or not isinstance(vals, L.SArr) or vals.shape != (q,):
                return False
            # on this path every returned row is one of the original rows: find which (paths fix the choice)
            alts = []
            for rho in itertools.permutations(range(n), q):
                cs = []
                for k in range(q):
                    cs += [V.Z(V.eq(rows.a[k, c], CH.a[rho[k], c])) for c in range(d)]
                    cs.append(V.R(vals.a[k]) == A[rho[k]])
                    rest = [j for j in range(n) if j not in rho[:k]]
                    # maximiser among the not-yet-chosen rows, first one on ties (original order)
                    cs += [A[rho[k]] >= A[j] for j in rest]
                    cs += [A[j] < A[rho[k]] for j in rest if j < rho[k]]
                alts.append(z3.And(*cs))
            return z3.Or(*alts)
        t.prove_each_path("batch_is_distinct_rows_each_the_first_maximiser_among_the_remaining_in_nonincreasing_order", paths, goal, chunk=6)
        t.prove_paths("values_nonincreasing", paths, lambda p: z3.And(*[V.R(p.value[1].a[k]) >= V.R(p.value[1].a[k + 1]) for k in range(q - 1)]) if q > 1 else True)
        t.frame_unchanged("frame:choices-not-written", paths, ["choices"])
        t.implicit()
    return _t


for _n, _q in [(1, 1), (2, 1), (2, 2), (3, 1), (3, 2), (3, 3), (4, 2), (1, 2), (2, 3), (3, 5)]:
    _opt_discrete(_n, _q)


class StubPredict:
    def __init__(self, m):
        self.m = m
        self.calls = []
        self.fields = {"output_dim": m}

    def getattr(self, ex, st, name):
        if name == "predict":
            return self
        return self.fields[name]

    def call(self, ex, st, args, kwargs, node):
        X = L.as_arr(args[0])
        N = X.shape[0]
        mus = L.fresh_array("mu%d" % len(self.calls), (N, self.m))
        cov = L.fresh_array("cov%d" % len(self.calls), (N, self.m, self.m))
        self.calls.append((X, mus, cov))
        return (mus, cov)

    def clone(self, memo):
        return self


@task("C07", "SumVarianceAcquisition.forward")
def _sumvar(t):
    N, m = 3, 2
    model = StubPredict(m)
    obj = SObj(cls_ref(AQ, "SumVarianceAcquisition"), {"model": model})
    x = t.inp("x", InArr("x", (N, 2)))
    paths = t.run(AQ, "SumVarianceAcquisition.forward", [x], self_val=obj)
    t.no_raise(paths)
    t.prove("model_queried_once_on_x", z3.BoolVal(len(model.calls) == 1 and model.calls[0][0] is x))
    cov = model.calls[0][2]
    t.prove_paths("value_i_is_total_posterior_variance_of_row_i", paths,
                  lambda p: z3.And(*[V.R(p.value.a[i]) == sum(V.R(cov.a[i, c, c]) for c in range(m)) for i in range(N)]) if isinstance(p.value, L.SArr) and p.value.shape == (N,) else False)


def _maxvar(costs):
    @task("C07", "MaxVarianceDecoupledAcquisition.forward[costs=%s]" % costs)
    def _t(t):
        N, m, ei = 3, 3, 1
        model = StubPredict(m)
        cst = t.inp("costs", InArr("c", (m,))) if costs else None
        if costs:
            t.assume(*[V.R(c) > 0 for c in t.inputs["costs"].snapshot.flat()])
        obj = SObj(cls_ref(AQ, "MaxVarianceDecoupledAcquisition"), {"model": model, "out_dim": m, "evaluation_index": ei, "costs": cst})
        x = t.inp("x", InArr("x", (N, 2)))
        paths = t.run(AQ, "MaxVarianceDecoupledAcquisition.forward", [x], self_val=obj)
        t.no_raise(paths)
        cov = model.calls[0][2]
        t.prove_paths("value_i_is_variance_of_the_selected_objective_over_its_cost", paths,
                      lambda p: z3.And(*[(V.R(p.value.a[i]) * (V.R(t.inputs["costs"].snapshot.a[ei]) if costs else 1)) == V.R(cov.a[i, ei, ei]) for i in range(N)])
                      if isinstance(p.value, L.SArr) and p.value.shape == (N,) else False)
        obj2 = SObj(cls_ref(AQ, "MaxVarianceDecoupledAcquisition"), {"model": model, "out_dim": m, "evaluation_index": None, "costs": cst})
        p2 = t.run(AQ, "MaxVarianceDecoupledAcquisition.forward", [x], self_val=obj2)
        t.prove("missing_evaluation_index_is_rejected_with_an_exception", z3.BoolVal(bool(p2) and all(p.kind == "raise" for p in p2)))
    return _t


_maxvar(False)
_maxvar(True)


@task("C07", "MaxDiagonalAcquisition.forward")
def _maxdiag(t):
    """value_i = diagonal of the region of the design whose point is row i (design located by contract of locate_points)."""
    D, m, N = 3, 2, 2
    regs = []
    for i in range(D):
        R = InRect("r%d" % i, m)
        t.inputs["r%d" % i] = R
        regs.append(R.sym)
    located = [z3.Int("loc_%d" % i) for i in range(N)]
    x = t.inp("x", InArr("x", (N, 2)))
    seen = []

    def c_locate(ex, st, self_val, args, kwargs, node):
        seen.append(args[0] is x)
        for l in located:
            st.pc.append(z3.And(l >= 0, l < D))
        return [(st, L.mk(list(located), (N,), "i"))]
    t.contracts[DS + "::DiscreteDesignSpace.locate_points"] = c_locate
    ds = SObj(cls_ref(DS, "FixedPointsDesignSpace"), {"confidence_regions": regs, "points": L.fresh_array("pts", (D, 2)), "cardinality": D})
    obj = SObj(cls_ref(AQ, "MaxDiagonalAcquisition"), {"design_space": ds})
    paths = t.run(AQ, "MaxDiagonalAcquisition.forward", [x], self_val=obj)
    t.no_raise(paths)

    def goal(p):
        if not isinstance(p.value, L.SArr) or p.value.shape != (N,):
            return False
        cs = []
        for i in range(N):
            for dsg in range(D):
                R = t.inputs["r%d" % dsg]
                sq = sum((V.R(u) - V.R(l)) * (V.R(u) - V.R(l)) for l, u in zip(R.lower.snapshot.flat(), R.upper.snapshot.flat()))
                v = V.R(p.value.a[i])
                cs.append(z3.Implies(located[i] == dsg, z3.And(v >= 0, v * v == sq)))
        return z3.And(*cs)
    t.prove_paths("value_i_is_the_diagonal_of_the_located_design_region", paths, goal)
    t.prove("locate_points_called_on_x", z3.BoolVal(seen == [True]))


@task("C07", "DiscreteDesignSpace.locate_points")
def _locate(t):
    D, N, d = 3, 2, 2
    pts = t.inp("points", InArr("pts", (D, d)))
    x = t.inp("x", InArr("x", (N, d)))
    ds = SObj(cls_ref(DS, "FixedPointsDesignSpace"), {"points": pts})
    paths = t.run(DS, "DiscreteDesignSpace.locate_points", [x], self_val=ds)
    PT, XS = t.inputs["points"].snapshot, t.inputs["x"].snapshot
    dist2 = lambda i, j: sum((V.R(XS.a[i, c]) - V.R(PT.a[j, c])) * (V.R(XS.a[i, c]) - V.R(PT.a[j, c])) for c in range(d))
    # distances as the library computes them (sqrt of the squared distance: the same library-opaque sqrt term)
    dist = lambda i, j: L._SQRT(dist2(i, j))
    tol = z3.RealVal("1/1000000")
    far = z3.Or(*[z3.And(*[dist(i, j) > tol for j in range(D)]) for i in range(N)])
    raised = z3.Or(*[p.cond() for p in paths if p.kind == "raise"]) if any(p.kind == "raise" for p in paths) else z3.BoolVal(False)
    t.prove("is_rejected_with_an_exception_exactly_when_some_query_is_farther_than_1e-6_from_every_design", raised == far, timeout_ms=90000)

    def goal(p):
        if p.kind != "return":
            return True
        r = L.as_arr(p.value) if isinstance(p.value, (list, tuple)) else p.value      # (a list of indices is as good as an array)
        if not isinstance(r, L.SArr) or r.size != N:
            return False
        return z3.And(*[z3.Or(*[z3.And(V.Z(r.flat()[i]) == j, dist(i, j) <= tol, *[dist(i, j) <= dist(i, k) for k in range(D)]) for j in range(D)]) for i in range(N)])
    t.prove_paths("result_is_nearest_design_within_tolerance", paths, goal, timeout_ms=90000)


class DecAcq(RowwiseAcq):
    """Decoupled acquisition by contract: value of row j for objective e is the symbol A[e][j]."""

    def __init__(self, CH, n, d, A, m):
        RowwiseAcq.__init__(self, CH, n, d, None)
        self.A2 = A
        self.fields = {"out_dim": m, "evaluation_index": None}

    def value(self, j):
        e = self.fields["evaluation_index"]
        return self.A2[e][j]


def _opt_decoupled(n, m, q, d=2, tier="quick"):
    @task("C07", "optimize_decoupled_acqf_discrete[choices=%d,objectives=%d,q=%d]" % (n, m, q), tier=tier)
    def _t(t):
        t.mode = "n=%d candidates, m=%d objectives, batch q=%d; acquisition table symbolic" % (n, m, q)
        ch = t.inp("choices", InArr("ch", (n, d)))
        CH = t.inputs["choices"].snapshot
        A = [[z3.Real("A_%d_%d" % (e, j)) for j in range(n)] for e in range(m)]
        acq = DecAcq(CH, n, d, A, m)
        paths = t.run(AQ, "optimize_decoupled_acqf_discrete", [acq, q, ch])
        t.must_fail()
        t.no_raise(paths)
        qq = min(q, n)
        allpairs = [(e, j) for e in range(m) for j in range(n)]

        def goal(p):
            if p.kind != "return" or not isinstance(p.value, tuple) or len(p.value) != 3:
                return False
            rows, vals, eidx = p.value
            if rows.shape != (qq, d) or vals.shape != (qq,) or eidx.shape != (qq,):
                return False
            cs = []
            # every returned (row, objective, value) is a cell of the table
            cell = []
            for k in range(qq):
                alts = [z3.And(V.Z(eidx.flat()[k]) == e, V.R(vals.flat()[k]) == A[e][j],
                               *[V.Z(V.eq(rows.a[k, c], CH.a[j, c])) for c in range(d)]) for (e, j) in allpairs]
                cs.append(z3.Or(*alts))
            # sorted non-increasing
            cs += [V.R(vals.flat()[k]) >= V.R(vals.flat()[k + 1]) for k in range(qq - 1)]
            # top-q: no cell of the table that was not returned is larger than the smallest returned value,
            # stated through counting: every returned value is >= the (qq)-th largest value of the table, i.e.
            # at most qq-1 cells are strictly larger than the smallest returned value
            smallest = V.R(vals.flat()[qq - 1])
            larger = sum((z3.If(A[e][j] > smallest, 1, 0) for (e, j) in allpairs), z3.IntVal(0))
            cs.append(larger <= qq - 1)
            return z3.And(*cs)
        t.prove_each_path("returned_pairs_are_the_q_largest_cells_of_the_table_sorted_non_increasing", paths, goal, chunk=1, timeout_ms=60000)

        def distinct_pairs(p):
            rows, vals, eidx = p.value
            cs = []
            for a in range(qq):
                for b in range(a + 1, qq):
                    same_row = z3.And(*[V.Z(V.eq(rows.a[a, c], rows.a[b, c])) for c in range(d)])
                    cs.append(z3.Not(z3.And(same_row, V.Z(eidx.flat()[a]) == V.Z(eidx.flat()[b]))))
            return z3.And(*cs) if cs else True
        # distinct candidate rows are a precondition (design points are distinct)
        distinct_rows = z3.And(*[z3.Or(*[V.R(CH.a[a, c]) != V.R(CH.a[b, c]) for c in range(d)]) for a in range(n) for b in range(a + 1, n)]) if n > 1 else z3.BoolVal(True)
        t.prove_each_path("returned_design_objective_pairs_are_distinct", paths, lambda p: z3.Implies(distinct_rows, distinct_pairs(p)), chunk=8)
        t.prove_paths("evaluation_index_of_the_acquisition_is_restored", paths,
                      lambda p: z3.BoolVal((p.st.roots.get("acq_sets") or [("evaluation_index", 0)])[-1] == ("evaluation_index", None)))
        t.implicit()
    return _t


_opt_decoupled(2, 2, 1)
_opt_decoupled(2, 3, 2)
_opt_decoupled(2, 3, 1)
_opt_decoupled(3, 2, 2)
