"""C06 -- run_one_step of every algorithm, composed from the sub-method contracts (call sites see only
the contracts; each contract is the transition proved for the real body in C02/C03 or in the evaluating
tasks below).  Proved per step: early-return idempotence, S only shrinks, P only grows, S and P disjoint,
U inside P, no return to S, round + 1, completion flag, order of the phases."""
import z3

from pyvc.harness import task
from pyvc import setmode as SM
from pyvc import values as V
from pyvc.values import Opaque
from .algos import (ALGOS, REGARR, REGION, AlgoState, RegionList, Specs, same_set, set_is, slack_num)

e_ = z3.Int("e!q")


def subset(a, b):
    return z3.ForAll([e_], z3.Implies(z3.Select(a, e_), z3.Select(b, e_)))


def disjoint(a, b):
    return z3.ForAll([e_], z3.Not(z3.And(z3.Select(a, e_), z3.Select(b, e_))))


def _live(st, A):
    from pyvc.symexec import find_obj
    return find_obj(st, A.obj.oid)


def _set(ex, st, o, field, pred, name):
    m = SM.fresh_const(ex.ctx, name, SM.SETSORT)
    st.pc.append(set_is(m, pred))
    o.fields[field] = SM.SSet(m, ex.ctx, field)


def install_step_contracts(t, A, name, calls_key="calls"):
    """Call-site contracts of the phases of `name`.  Every one is exactly the transition proved for the
    real body (C02/C03 tasks use the same Specs functions)."""
    sp = Specs(A)
    mod = ALGOS[name]

    def log(st, what):
        st.roots.setdefault(calls_key, []).append(what)

    def cur(o):
        S = o.fields["S"].mem
        P = o.fields["P"].mem
        U = o.fields["U"].mem if "U" in o.fields else z3.EmptySet(z3.IntSort())
        REG = o.fields["design_space"].fields["confidence_regions"].arr
        return S, P, U, REG

    def c_evaluating(ex, st, self_val, args, kwargs, node):
        o = self_val
        log(st, "evaluating")
        n = SM.fresh_const(ex.ctx, "rows", z3.IntSort())
        st.pc.append(n >= 0)
        o.fields["sample_count"] = V.Z(o.fields["sample_count"]) + n
        if "total_cost" in o.fields:
            c = SM.fresh_const(ex.ctx, "cost", z3.RealSort())
            st.pc.append(c >= 0)
            o.fields["total_cost"] = V.R(o.fields["total_cost"]) + c
        return [(st, None)]

    def c_modeling(ex, st, self_val, args, kwargs, node):
        o = self_val
        log(st, "modeling")
        S, P, U, REG = cur(o)
        active = {"PaVeBa": [S, U], "PaVeBaGP": [S, U], "PaVeBaPartialGP": [S, U], "VOGP": [S, P], "VOGP_AD": [S, P],
                  "EpsilonPAL": [S, P], "Auer": [S]}[name]
        new = SM.fresh_const(ex.ctx, "REG", REGARR)
        # regions of designs that are not active are untouched
        st.pc.append(z3.ForAll([e_], z3.Implies(z3.Not(z3.Or(*[z3.Select(a, e_) for a in active])), z3.Select(new, e_) == z3.Select(REG, e_))))
        old = o.fields["design_space"].fields["confidence_regions"]
        o.fields["design_space"].fields["confidence_regions"] = RegionList(new, old.n, old.attrs)
        return [(st, None)]

    def c_discarding(ex, st, self_val, args, kwargs, node):
        o = self_val
        log(st, "discarding")
        S, P, U, REG = cur(o)
        if name in ("PaVeBa", "PaVeBaGP", "PaVeBaPartialGP"):
            cert = sp.cert_paveba(S, U, REG)
        else:
            PS = SM.fresh_const(ex.ctx, "PS", SM.SETSORT)
            st.pc.append(set_is(PS, sp.pess(S, P, REG)))
            cert = sp.cert_vogp(PS, REG, sp.slack(name))
        _set(ex, st, o, "S", lambda e: z3.And(z3.Select(S, e), z3.Not(cert(e))), "S_disc")
        return [(st, None)]

    def c_promote(ex, st, self_val, args, kwargs, node):
        o = self_val
        log(st, "promote")
        S, P, U, REG = cur(o)
        if name in ("PaVeBa", "PaVeBaGP", "PaVeBaPartialGP"):
            new = sp.new(S, [S, U], REG, sp.slack(name))
            open_ = z3.BoolVal(True)
        else:
            new = sp.new(S, [S, P], REG, sp.slack(name))
            open_ = z3.BoolVal(True)
            if name == "VOGP_AD":
                open_ = sp.gate_open(S, V.Bz(o.fields["enable_epsilon_covering"]))
                o.fields["enable_epsilon_covering"] = open_
        _set(ex, st, o, "S", lambda e: z3.And(z3.Select(S, e), z3.Not(z3.And(open_, new(e)))), "S_prom")
        _set(ex, st, o, "P", lambda e: z3.Or(z3.Select(P, e), z3.And(open_, new(e))), "P_prom")
        return [(st, None)]

    def c_useful(ex, st, self_val, args, kwargs, node):
        o = self_val
        log(st, "useful")
        S, P, U, REG = cur(o)
        _set(ex, st, o, "U", sp.useful(S, P, REG, sp.slack(name)), "U_new")
        return [(st, None)]

    def c_beta(ex, st, self_val, args, kwargs, node):
        log(st, "compute_beta")
        return [(st, Opaque("Scale", z3.Const("beta!%d" % V.fresh_id(), z3.DeclareSort("Scale"))))]

    cls = name
    t.contracts[mod + "::" + cls + ".evaluating"] = c_evaluating
    t.contracts[mod + "::" + cls + ".modeling"] = c_modeling
    t.contracts[mod + "::" + cls + ".discarding"] = c_discarding
    t.contracts[mod + "::" + cls + ".pareto_updating"] = c_promote
    t.contracts[mod + "::" + cls + ".epsiloncovering"] = c_promote
    t.contracts[mod + "::" + cls + ".useful_updating"] = c_useful
    t.contracts[mod + "::" + cls + ".compute_beta"] = c_beta
    t.trusted.add("call-site contracts of the phases = the transitions proved for their real bodies in C02/C03 (same spec functions)")


ORDER_OF_PHASES = {
    "PaVeBa": ["evaluating", "modeling", "discarding", "promote", "useful"],
    "PaVeBaGP": ["evaluating", "modeling", "discarding", "promote", "useful"],
    "PaVeBaPartialGP": ["evaluating", "modeling", "discarding", "promote", "useful"],
    "VOGP": ["modeling", "discarding", "promote"],
    "EpsilonPAL": ["modeling", "discarding", "promote"],
}


def step_replay(t, A, name, budget, paths):
    """Replay of a candidate counter-model: the REAL run_one_step (real discarding / pareto_updating /
    useful_updating / epsiloncovering), with evaluating and modeling replaced by stubs that do what their
    contracts say, region predicates answered from the counter-model's tables; the C06 clauses are then
    evaluated on what the real code did."""
    from pyvc import finite
    from .algos import CHK, COV, DOM, depth

    def builder(m):
        n = t.finite.get("n") if t.finite else m.eval(A.N, model_completion=True).as_long()
        dom = list(range(-1, n + 1))
        ev = lambda e: m.eval(finite.expand(e, dom), model_completion=True)
        tb = lambda e: z3.is_true(ev(e))
        rng = range(n)
        mem = lambda arr: sorted(k for k in rng if tb(z3.Select(arr, k)))
        # the regions every predicate call sees are the ones displayed after modeling: take the last REG of any path
        REG = A.REG0
        for p in paths:
            o = A.final(p)[3]
            arr = o.fields["design_space"].fields["confidence_regions"].arr
            if not arr.eq(A.REG0):
                REG = arr
        sl = {"num0": slack_num(0), "numeps": slack_num(A.eps), "alpha": A.alpha_eps, "ustar": A.ustar_eps}
        T = {"DOM": {}, "COV": {}, "CHK": {}}
        for i in rng:
            for j in rng:
                T["CHK"][(i, j)] = tb(CHK(A.order, z3.Select(REG, i), z3.Select(REG, j)))
                for k, stm in sl.items():
                    T["DOM"][(k, i, j)] = tb(DOM(A.order, z3.Select(REG, i), z3.Select(REG, j), stm))
                    T["COV"][(k, i, j)] = tb(COV(A.order, z3.Select(REG, i), z3.Select(REG, j), stm))
        epsv = ev(A.eps)
        epsf = float(epsv.numerator_as_long()) / float(epsv.denominator_as_long())

        def fl(x):
            v = ev(x)
            return float(v.numerator_as_long()) / float(v.denominator_as_long())
        Lc = ["import %s as M" % ALGOS[name][:-3].replace("/", "."),
              "N = %d; EPS = %r" % (n, epsf),
              "class Reg:\n    def __init__(self, i): self.i = i",
              "class DS: pass",
              "ds = DS(); ds.confidence_regions = [Reg(i) for i in range(N)]; ds.cardinality = N",
              "class Mark:\n    def __init__(self, n): self.n = n",
              "ALPHA = Mark('alpha'); USTAR = Mark('ustar')",
              "DOMT = %r\nCOVT = %r\nCHKT = %r" % (T["DOM"], T["COV"], T["CHK"]),
              "def skey(s):\n    if isinstance(s, Mark): return s.n\n    v = float(s)\n    if abs(v) < 1e-12: return 'num0'\n    if abs(v - EPS) < 1e-12: return 'numeps'\n    raise KeyError(s)",
              "if hasattr(M, 'confidence_region_is_dominated'): M.confidence_region_is_dominated = lambda o, r1, r2, s: DOMT[(skey(s), r1.i, r2.i)]",
              "if hasattr(M, 'confidence_region_is_covered'): M.confidence_region_is_covered = lambda o, r1, r2, s: COVT[(skey(s), r1.i, r2.i)]",
              "if hasattr(M, 'confidence_region_check_dominates'): M.confidence_region_check_dominates = lambda o, r1, r2: CHKT[(r1.i, r2.i)]",
              "a = object.__new__(M.%s)" % name,
              "a.S = set(%r); a.P = set(%r); a.U = set(%r)" % (mem(A.S0), mem(A.P0), mem(A.U0)),
              "a.order = 'order'; a.epsilon = EPS; a.design_space = ds; a.cone_alpha_eps = ALPHA; a.u_star_eps = USTAR",
              "a.round = %d; a.sample_count = %d" % (ev(A.round0).as_long(), ev(A.count0).as_long())]
        if budget:
            Lc.append("a.total_cost = %r; a.cost_budget = %r" % (fl(A.cost0), fl(A.budget)))
        Lc += ["calls = []",
               "def wrap(nm):\n    real = getattr(a, nm)\n    def f(*x, **k):\n        calls.append(nm); return real(*x, **k)\n    setattr(a, nm, f)",
               "for nm in ('discarding', 'pareto_updating', 'epsiloncovering', 'useful_updating'):\n    if hasattr(a, nm): wrap(nm)",
               "def ev_stub():\n    calls.append('evaluating'); a.sample_count += len(a.S | getattr(a, 'U', set()))" + ("\n    a.total_cost += 1.0" if budget else ""),
               "a.evaluating = ev_stub",
               "a.modeling = lambda: calls.append('modeling')",
               "S0, P0, U0, r0, c0 = set(a.S), set(a.P), set(getattr(a, 'U', set())), a.round, a.sample_count",
               "done0 = len(S0) == 0" + (" or a.total_cost >= a.cost_budget" if budget else ""),
               "try:\n    res = a.run_one_step(); out = 'return'\nexcept Exception as e:\n    res = None; out = 'raise ' + type(e).__name__ + ': ' + str(e)",
               "S1, P1, U1 = set(a.S), set(a.P), set(getattr(a, 'U', set()))",
               "bad = []",
               "if out != 'return': bad.append(out)",
               "if done0 and (res is not True or (S1, P1, U1, a.round, a.sample_count) != (S0, P0, U0, r0, c0) or calls): bad.append('step after completion is not a no-op')",
               "if not done0:",
               "    done1 = len(S1) == 0" + (" or a.total_cost >= a.cost_budget" if budget else ""),
               "    if not S1 <= S0: bad.append('S grew')",
               "    if not P0 <= P1: bad.append('P lost members')",
               "    if S1 & P1: bad.append('S and P overlap')",
               "    if a.round != r0 + 1: bad.append('round')",
               "    if bool(res) != done1: bad.append('completion flag %r but done=%r' % (res, done1))",
               "    want = %r" % (ORDER_OF_PHASES[name],),
               "    norm = ['promote' if c in ('pareto_updating', 'epsiloncovering') else ('useful' if c == 'useful_updating' else c) for c in calls]",
               "    if norm != want and not (norm == want + ['evaluating'] and len(S1) > 0): bad.append('phase order %r' % (calls,))",
               "    if %r and (norm[-1:] == ['evaluating']) != (len(S1) > 0): bad.append('sampling although no candidate remains (or the reverse)')" % (name in ("VOGP", "EpsilonPAL"),)]
        if name.startswith("PaVeBa"):
            Lc += ["    if not U1 <= P1: bad.append('U not inside P')",
                   "    useful = {p for p in P1 if any(COVT[('alpha', s, p)] for s in S1)}",
                   "    if U1 != useful: bad.append('U=%r but the members of P that can still cover a candidate are %r' % (sorted(U1), sorted(useful)))"]
        Lc += ["print('INPUT S=%s P=%s U=%s' % (sorted(S0), sorted(P0), sorted(U0))); print('REAL ', out, res, sorted(S1), sorted(P1), sorted(U1), calls)",
               "if bad:\n    print('DEVIATIONS', bad)\n    print('REPLAY-CONFIRMED obligation=%s' % OBLIGATION)\n    raise SystemExit(1)",
               "print('REPLAY-NOT-REPRODUCED obligation=%s' % OBLIGATION)\nraise SystemExit(4)"]
        return Lc
    return builder


def _step(name, budget=False):
    @task("C06", "%s.run_one_step" % name)
    def _t(t):
        t.mode = "set-level composition over the phase contracts"
        A = AlgoState(t, name, with_U=name.startswith("PaVeBa"))
        if budget:
            A.cost0 = z3.Real("total_cost0")
            A.budget = z3.Real("cost_budget")
            A.obj.fields["total_cost"] = A.cost0
            A.obj.fields["cost_budget"] = A.budget
            t.assume(A.cost0 >= 0)
        install_step_contracts(t, A, name)
        paths = t.run(ALGOS[name], name + ".run_one_step", [], self_val=A.obj, setmode=True)
        t.must_fail()
        t.no_raise(paths)
        t.finite = {"N": A.N, "replay": step_replay(t, A, name, budget, paths)}
        empty0 = A.S0 == z3.EmptySet(z3.IntSort())
        done0 = z3.Or(empty0, A.cost0 >= A.budget) if budget else empty0

        def fin(p):
            S1, P1, U1, o = A.final(p)
            return S1, P1, U1, o

        def idle(p):
            S1, P1, U1, o = fin(p)
            same = z3.And(same_set(S1, A.S0), same_set(P1, A.P0), same_set(U1, A.U0),
                          V.Z(o.fields["round"]) == A.round0, V.Z(o.fields["sample_count"]) == A.count0,
                          o.fields["design_space"].fields["confidence_regions"].arr == A.REG0,
                          z3.BoolVal(not p.st.roots.get("calls")))
            if budget:
                same = z3.And(same, V.R(o.fields["total_cost"]) == A.cost0)
            return z3.Implies(done0, z3.And(same, V.Bz(p.value) == z3.BoolVal(True)))
        t.prove_paths("after_completion_a_step_changes_nothing_takes_no_sample_and_reports_done", paths, idle)

        def active(p):
            S1, P1, U1, o = fin(p)
            done1 = S1 == z3.EmptySet(z3.IntSort())
            if budget:
                done1 = z3.Or(done1, V.R(o.fields["total_cost"]) >= A.budget)
            g = z3.And(subset(S1, A.S0), subset(A.P0, P1), disjoint(S1, P1), V.Z(o.fields["round"]) == A.round0 + 1,
                       V.Bz(p.value) == done1, V.Z(o.fields["sample_count"]) >= A.count0)
            if "U" in A.obj.fields:
                REG1 = o.fields["design_space"].fields["confidence_regions"].arr
                # at the end of an active round U is exactly the members of P that can still cover a candidate (C03)
                g = z3.And(g, subset(U1, P1), set_is(U1, Specs(A).useful(S1, P1, REG1, Specs(A).slack(name))))
            return z3.Implies(z3.Not(done0), g)
        t.prove_paths("active_step:S_shrinks_P_grows_disjoint_U_in_P_round_plus_1_flag_iff_done", paths, active)

        def order(p):
            calls = p.st.roots.get("calls") or []
            want = ORDER_OF_PHASES[name]
            if not calls:
                return done0
            if calls == want:
                return True
            if name in ("VOGP", "EpsilonPAL") and calls == want + ["evaluating"]:
                # evaluation happens only while candidates remain
                return z3.Not(A.final(p)[0] == z3.EmptySet(z3.IntSort()))
            return False
        t.prove_paths("phases_run_once_each_in_the_specified_order", paths, order)

        if name in ("VOGP", "EpsilonPAL"):
            def evalguard(p):
                calls = p.st.roots.get("calls") or []
                S1 = A.final(p)[0]
                took = "evaluating" in calls
                return z3.Implies(z3.Not(done0), z3.BoolVal(took) == z3.Not(S1 == z3.EmptySet(z3.IntSort())))
            t.prove_paths("samples_taken_iff_candidates_remain_after_covering", paths, evalguard)
        t.implicit()
    return _t


for _n in ("PaVeBa", "PaVeBaGP", "VOGP", "EpsilonPAL"):
    _step(_n)
_step("PaVeBaPartialGP", budget=True)


# ----------------------------------------------------------------------------------------------
# Auer: composition, and the alignment of beta_t rows with the designs they are used for (C03)
# ----------------------------------------------------------------------------------------------


def _auer_step(m, nonemp):
    @task("C03", "Auer.run_one_step[m=%d,%s]" % (m, "non-empirical beta" if nonemp else "any beta mode"))
    def _t(t):
        """run_one_step with the phases by contract.  The contracts of discarding / pareto_updating (proved for the real
        bodies in C02 / C03 under this precondition) REQUIRE that row i of beta_t is the displayed half-width of the i-th
        design in the CURRENT iteration order of S ('each design's own confidence width').  modeling establishes it for the
        order S has at that moment; discarding then removes designs, so the order S has in pareto_updating is a new one."""
        from .auer import auer_state, small_m, big_m, wsum
        from .algos import REGARR
        A = auer_state(t, m)
        emp = z3.Bool("use_empirical_beta")
        if nonemp:
            t.assume(z3.Not(emp))
        I = z3.IntSort()
        pending = []
        BT0 = [z3.Const("BTarr%d_0" % k, z3.ArraySort(I, z3.RealSort())) for k in range(m)]

        class ArrRows:
            def __init__(self, arrs, rows):
                self.arrs, self.rows = arrs, rows

            def clone(self, memo):
                return self
        A.obj.fields["beta_t"] = ArrRows(BT0, A.S.card())
        A.obj.fields.update({"problem": None, "model": None})
        i_ = z3.Int("i!q")
        q_ = z3.Int("q!w")
        s__ = z3.Int("s!w")
        calls_pre = []

        def aligned(o):
            Sx = o.fields["S"]
            bt = o.fields["beta_t"]
            REG = o.fields["design_space"].fields["confidence_regions"].arr
            return z3.ForAll([i_], z3.Implies(z3.And(0 <= i_, i_ < Sx.card()),
                                              z3.And(*[z3.Select(bt.arrs[k], i_) == A.WID[k](z3.Select(REG, z3.Select(Sx.seq, i_))) for k in range(m)])))

        def log(st, w):
            st.roots.setdefault("calls", []).append(w)

        def c_evaluating(ex, st, o, args, kwargs, node):
            log(st, "evaluating")
            n = SM.fresh_const(ex.ctx, "rows", I)
            st.pc.append(n >= 0)
            o.fields["sample_count"] = V.Z(o.fields["sample_count"]) + n
            return [(st, None)]

        def c_modeling(ex, st, o, args, kwargs, node):
            log(st, "modeling")
            Sx = o.fields["S"]
            st.pc.extend(Sx.order_axioms())
            newbt = [SM.fresh_const(ex.ctx, "BTarr%d" % k, z3.ArraySort(I, z3.RealSort())) for k in range(m)]
            j_ = z3.Int("j!q")
            # compute_beta, non-empirical branch: every row is the same vector (t2 = ones) -- proved in C04/Auer.compute_beta
            st.pc.append(z3.Implies(z3.Not(emp), z3.ForAll([i_, j_], z3.And(*[z3.Select(newbt[k], i_) == z3.Select(newbt[k], j_) for k in range(m)]))))
            REG = o.fields["design_space"].fields["confidence_regions"].arr
            new = SM.fresh_const(ex.ctx, "REG", REGARR)
            st.pc.append(z3.ForAll([e_], z3.Implies(z3.Not(z3.Select(Sx.mem, e_)), z3.Select(new, e_) == z3.Select(REG, e_))))
            # design_space.update(model, beta_t, list(S)) with unit predictive std (variances not tracked during the update):
            # the region of the i-th listed design gets half-width beta_t[i]   (C14 + C16)
            st.pc.append(z3.ForAll([i_], z3.Implies(z3.And(0 <= i_, i_ < Sx.card()),
                                                     z3.And(*[A.WID[k](z3.Select(new, z3.Select(Sx.seq, i_))) == z3.Select(newbt[k], i_) for k in range(m)]))))
            old = o.fields["design_space"].fields["confidence_regions"]
            o.fields["design_space"].fields["confidence_regions"] = RegionList(new, old.n, old.attrs)
            o.fields["beta_t"] = ArrRows(newbt, Sx.card())
            return [(st, None)]

        def spec_sets(o):
            Sx, Px = o.fields["S"].mem, o.fields["P"].mem
            REG = o.fields["design_space"].fields["confidence_regions"].arr
            cen = lambda d, k: A.CEN[k](z3.Select(REG, d))
            wid = lambda d, k: A.WID[k](z3.Select(REG, d))
            zmax = lambda xs: __import__("functools").reduce(lambda a, b: z3.If(b > a, b, a), xs)
            zmin = lambda xs: __import__("functools").reduce(lambda a, b: z3.If(b < a, b, a), xs)
            sm = lambda p_, q__: zmax([z3.RealVal(0), zmin([cen(q__, k) - cen(p_, k) for k in range(m)])])
            bm = lambda p_, q__: zmax([z3.RealVal(0), zmax([cen(p_, k) + A.eps - cen(q__, k) for k in range(m)])])
            return Sx, Px, sm, bm, wid

        def c_discarding(ex, st, o, args, kwargs, node):
            log(st, "discarding")
            g = aligned(o)
            pending.append(("call-pre(Auer.discarding): own widths", list(st.pc), g))
            st.pc.append(g)
            Sx, Px, sm, bm, wid = spec_sets(o)
            cert = lambda p_: z3.Exists([q_], z3.And(z3.Select(Sx, q_), q_ != p_, z3.And(*[sm(p_, q_) > wid(p_, k) + wid(q_, k) for k in range(m)])))
            _set(ex, st, o, "S", lambda d: z3.And(z3.Select(Sx, d), z3.Not(cert(d))), "S_disc")
            return [(st, None)]

        def c_pareto(ex, st, o, args, kwargs, node):
            log(st, "pareto_updating")
            st.pc.extend(o.fields["S"].order_axioms())
            g = aligned(o)
            pending.append(("call-pre(Auer.pareto_updating): own widths", list(st.pc), g))
            st.pc.append(g)
            Sx, Px, sm, bm, wid = spec_sets(o)
            P1 = lambda p_: z3.And(z3.Select(Sx, p_), z3.Not(z3.Exists([q_], z3.And(z3.Select(Sx, q_), q_ != p_, z3.And(*[bm(p_, q_) < wid(p_, k) + wid(q_, k) for k in range(m)])))))
            held = lambda p_: z3.Exists([s__], z3.And(z3.Select(Sx, s__), z3.Not(P1(s__)), z3.And(*[bm(s__, p_) <= wid(p_, k) + wid(s__, k) for k in range(m)])))
            new = lambda p_: z3.And(P1(p_), z3.Not(held(p_)))
            _set(ex, st, o, "S", lambda d: z3.And(z3.Select(Sx, d), z3.Not(new(d))), "S_prom")
            _set(ex, st, o, "P", lambda d: z3.Or(z3.Select(Px, d), new(d)), "P_prom")
            return [(st, None)]
        mod = ALGOS["Auer"]
        t.contracts[mod + "::Auer.evaluating"] = c_evaluating
        t.contracts[mod + "::Auer.modeling"] = c_modeling
        t.contracts[mod + "::Auer.discarding"] = c_discarding
        t.contracts[mod + "::Auer.pareto_updating"] = c_pareto
        t.assume(z3.Not(A.S0 == z3.EmptySet(I)))
        paths = t.run(mod, "Auer.run_one_step", [], self_val=A.obj, setmode=True)
        t.must_fail()
        t.no_raise(paths)
        t.prove_paths("phases_in_order", paths, lambda p: z3.BoolVal((p.st.roots.get("calls") or []) == ["evaluating", "modeling", "discarding", "pareto_updating"]))

        def active(p):
            S1, P1, U1, o = A.final(p)
            return z3.And(subset(S1, A.S0), subset(A.P0, P1), disjoint(S1, P1), V.Z(o.fields["round"]) == A.round0 + 1,
                          V.Bz(p.value) == (S1 == z3.EmptySet(I)))
        t.prove_paths("active_step:S_shrinks_P_grows_disjoint_round_plus_1_flag_iff_done", paths, active)
        # the two call-site preconditions (each design is compared using its OWN displayed half-width)
        npre = len(t.pre)
        t.finite = {"N": A.N, "replay": lambda mdl: ["exec(open('replays/known/C03_auer_stale_positional_widths.py').read())"]}
        for nm, pc, g in pending:
            # (any beta mode: the pareto_updating call-pre is the known finding; z3 leaves the quantified query open and the
            #  finite candidate + native witness decide it, so no long solver budget is spent on it)
            t.prove(nm, g, assumptions=pc[npre:], **({} if nonemp else {"timeout_ms": 5000, "retry": False}))
        t.finite = None
        t.implicit()
    return _t


_auer_step(2, True)
_auer_step(2, False)


def _rect_slack_shape(m, K):
    @task("C06", "PaVeBa_family.rectangles.per_facet_slack[m=%d,K=%d]" % (m, K))
    def _t(t):
        """The PaVeBa family calls is_covered with cone_alpha_eps = alpha * eps, ONE ENTRY PER FACET (K entries).
        'Each step completes without error for any polyhedral order of matching dimension, either confidence type':
        the rectangle routine must accept that slack."""
        from pyvc.harness import InArr, InOrder, InRect
        order = t.inp("order", InOrder("o", K, m))
        r1 = t.inp("r1", InRect("r1", m))
        r2 = t.inp("r2", InRect("r2", m))
        s = t.inp("s", InArr("s", (K,)))
        paths = t.run("vopy/confidence_region.py", "RectangularConfidenceRegion.is_covered", [None, order, r1, r2, s])
        t.no_raise(paths, clause="no-raise", ) if False else None
        bad = [p for p in paths if p.kind == "raise"]
        t.prove("no-raise", z3.And(*[z3.Not(p.cond()) for p in bad]) if bad else z3.BoolVal(True),
                replay=lambda mdl: ["exec(open('replays/known/C06_rectangle_slack_shape_K_not_m.py').read())"])
    return _t


_rect_slack_shape(2, 2)
_rect_slack_shape(3, 3)
_rect_slack_shape(2, 3)
_rect_slack_shape(3, 4)


@task("C06", "VOGP_AD.run_one_step")
def _vogp_ad_step(t):
    """Composition over the phase contracts; evaluate_refine by the contract proved in C06/VOGP_AD.evaluate_refine
    (three outcomes: sample one active design / replace a refined node of S / of P by fresh children)."""
    name = "VOGP_AD"
    A = AlgoState(t, name, with_U=False)
    install_step_contracts(t, A, name)
    I = z3.IntSort()
    refined = z3.Int("refined")
    kids = z3.Const("kids", SM.SETSORT)
    t.assume(z3.ForAll([e_], z3.Implies(z3.Select(kids, e_), e_ >= A.N)), z3.Exists([e_], z3.Select(kids, e_)))

    def c_eval_refine(ex, st, o, args, kwargs, node):
        from pyvc.symexec import Paths
        st.roots.setdefault("calls", []).append("evaluate_refine")
        S, P = o.fields["S"].mem, o.fields["P"].mem
        out = []
        s1 = st.clone()
        s2 = st.clone()
        # (a) sample
        n = SM.fresh_const(ex.ctx, "rows", I)
        st.pc.append(n >= 0)
        o.fields["sample_count"] = V.Z(o.fields["sample_count"]) + n
        out.append((st, None))
        # (b) refine a node of S, (c) of P
        from pyvc.symexec import find_obj
        for s_, field, src in ((s1, "S", S), (s2, "P", P)):
            oo = find_obj(s_, A.obj.oid)
            s_.pc.append(z3.Select(src, refined))
            _set(ex, s_, oo, field, lambda x, src=src: z3.Or(z3.And(z3.Select(src, x), x != refined), z3.Select(kids, x)), field + "_ref")
            s_.roots["refined"] = True
            out.append((s_, None))
        return Paths(out)
    t.contracts[ALGOS[name] + "::VOGP_AD.evaluate_refine"] = c_eval_refine
    paths = t.run(ALGOS[name], "VOGP_AD.run_one_step", [], self_val=A.obj, setmode=True)
    t.must_fail()
    t.no_raise(paths)
    empty0 = A.S0 == z3.EmptySet(I)
    old = lambda x: z3.And(x >= 0, x < A.N)

    def idle(p):
        S1, P1, U1, o = A.final(p)
        return z3.Implies(empty0, z3.And(same_set(S1, A.S0), same_set(P1, A.P0), V.Z(o.fields["round"]) == A.round0,
                                         V.Z(o.fields["sample_count"]) == A.count0, V.Bz(p.value) == True, z3.BoolVal(not p.st.roots.get("calls"))))
    t.prove_paths("after_completion_a_step_changes_nothing", paths, idle)

    def active(p):
        S1, P1, U1, o = A.final(p)
        was_ref = bool(p.st.roots.get("refined"))
        g = [z3.ForAll([e_], z3.Implies(z3.And(z3.Select(S1, e_), old(e_)), z3.Select(A.S0, e_))),        # among existing nodes S only shrinks
             z3.ForAll([e_], z3.Implies(z3.And(z3.Select(S1, e_), z3.Not(old(e_))), z3.Select(kids, e_))),  # anything new is a child of the refined node
             z3.ForAll([e_], z3.Implies(z3.Select(A.P0, e_), z3.Or(z3.Select(P1, e_), z3.And(z3.BoolVal(was_ref), e_ == refined)))),  # P keeps its members (except a refined node)
             disjoint(S1, P1), V.Z(o.fields["round"]) == A.round0 + 1, V.Bz(p.value) == (S1 == z3.EmptySet(I))]
        if was_ref:
            g.append(z3.And(z3.Not(z3.Select(S1, refined)), z3.Not(z3.Select(P1, refined))))    # the refined node itself is gone
        return z3.Implies(z3.Not(empty0), z3.And(*g))
    t.prove_paths("active_step:S_shrinks_up_to_children_of_the_refined_node_P_keeps_members_disjoint_round_flag", paths, active)

    def order(p):
        calls = p.st.roots.get("calls") or []
        if not calls:
            return empty0
        base = ["compute_beta", "modeling", "discarding", "promote"]
        if calls == base:
            return True
        if calls == base + ["evaluate_refine"]:
            return True
        return False
    t.prove_paths("phases_in_order", paths, order)
    t.implicit()


class ParetoOrderStub:
    def __init__(self):
        self.calls = []

    def getattr(self, ex, st, name):
        return self

    def call(self, ex, st, args, kwargs, node):
        st.roots.setdefault("calls", []).append(("get_pareto_set", args[0]))
        return Opaque("ParetoIdx", z3.Const("pareto!%d" % V.fresh_id(), z3.DeclareSort("ParetoIdx")))

    def clone(self, memo):
        return self


@task("C06", "DecoupledGP.run_one_step")
def _decoupled_step(t):
    """Budgeted, non-eliminating: done iff total cost reached the budget; no-op after completion; one evaluating and one
    pareto_updating per active step; P = get_pareto_set of the model's predictive means at all points."""
    from pyvc.harness import cls_ref
    from pyvc.values import SObj
    cost0, budget = z3.Real("total_cost0"), z3.Real("cost_budget")
    round0 = z3.Int("round0")
    t.assume(cost0 >= 0, round0 >= 0)
    pts = Opaque("Points", z3.Const("points", z3.DeclareSort("Points")))
    mu = Opaque("Means", z3.Const("mu", z3.DeclareSort("Means")))

    class Model:
        def getattr(self, ex, st, name):
            return self

        def call(self, ex, st, args, kwargs, node):
            st.roots.setdefault("calls", []).append(("predict", args[0]))
            return (mu, Opaque("Covs", z3.Const("cov", z3.DeclareSort("Covs"))))

        def clone(self, memo):
            return self
    obj = SObj(cls_ref("vopy/algorithms/decoupled.py", "DecoupledGP"),
               {"total_cost": cost0, "cost_budget": budget, "round": round0, "sample_count": z3.Int("sc0"), "P": Opaque("ParetoIdx", z3.Const("P0", z3.DeclareSort("ParetoIdx"))),
                "model": Model(), "points": pts, "order": ParetoOrderStub()})

    def c_evaluating(ex, st, o, args, kwargs, node):
        st.roots.setdefault("calls", []).append(("evaluating",))
        c = SM.fresh_const(ex.ctx, "cost", z3.RealSort())
        st.pc.append(c >= 0)
        o.fields["total_cost"] = V.R(o.fields["total_cost"]) + c
        return [(st, None)]
    t.contracts["vopy/algorithms/decoupled.py::DecoupledGP.evaluating"] = c_evaluating
    paths = t.run("vopy/algorithms/decoupled.py", "DecoupledGP.run_one_step", [], self_val=obj)
    t.must_fail()
    t.no_raise(paths)
    from pyvc.symexec import find_obj
    done0 = cost0 >= budget

    def goal(p):
        o = find_obj(p.st, obj.oid)
        calls = p.st.roots.get("calls") or []
        idle = z3.And(V.R(o.fields["total_cost"]) == cost0, V.Z(o.fields["round"]) == round0, V.Bz(p.value) == True, z3.BoolVal(not calls))
        kinds = [c[0] for c in calls]
        act = z3.And(V.Z(o.fields["round"]) == round0 + 1, V.Bz(p.value) == (V.R(o.fields["total_cost"]) >= budget),
                     z3.BoolVal(kinds == ["evaluating", "predict", "get_pareto_set"] and isinstance(calls[1][1], Opaque) and calls[1][1].term.eq(pts.term)
                                and isinstance(calls[2][1], Opaque) and calls[2][1].term.eq(mu.term)))
        return z3.And(z3.Implies(done0, idle), z3.Implies(z3.Not(done0), act))
    t.prove_paths("done_iff_budget_reached_noop_after_completion_P_is_pareto_set_of_predictive_means", paths, goal)
