"""C04 / C01 / C05 / C06 -- modeling(): the scale the schedule returned is the scale the displayed regions are built
with, for exactly the active designs.

Set level: S, P, U arbitrary finite sets.  compute_radius / compute_alpha / compute_beta are called BY CONTRACT (their
real bodies are the C04 schedule tasks) and return an opaque scale; `design_space.update` is called BY CONTRACT (its real
body is C14) and is logged on the path.  The obligations speak about the data flow of the real modeling() bodies:
the model handed over, the scale handed over, the index list handed over, and that nothing else changes."""
import z3

from pyvc.harness import task
from pyvc import setmode as SM
from pyvc import values as V
from pyvc.values import Opaque, SObj
from .algos import ALGOS, AlgoState, same_set
from .c06_evaluating import Stub

SCALE = z3.DeclareSort("Scale")
SCHEDULE = {"PaVeBa": ("compute_radius", "r_t"), "PaVeBaGP": ("compute_alpha", "alpha_t"), "PaVeBaPartialGP": ("compute_alpha", "alpha_t"),
            "VOGP": ("compute_beta", "beta"), "EpsilonPAL": ("compute_beta", "beta"), "VOGP_AD": (None, "beta"), "Auer": ("compute_beta", "beta_t")}
ACTIVE = {"PaVeBa": ("S", "U"), "PaVeBaGP": ("S", "U"), "PaVeBaPartialGP": ("S", "U"), "VOGP": ("S", "P"), "VOGP_AD": ("S", "P"),
          "EpsilonPAL": ("S", "P"), "Auer": ("S",)}


class UpdateCall:
    """design_space.update by contract: logged with a snapshot of the model's fields AT THE CALL."""

    def __init__(self, ds):
        self.ds = ds

    def call(self, ex, st, args, kwargs, node):
        mdl = args[0] if args else kwargs.get("model")
        snap = dict(mdl.fields) if isinstance(mdl, SObj) else {}
        st.roots.setdefault("calls", []).append({"obj": "design_space", "method": "update", "args": list(args), "kwargs": dict(kwargs),
                                                  "model_fields_at_call": snap, "ret": None})
        return None

    def clone(self, memo):
        return self


class DSStub(Stub):
    def getattr(self, ex, st, attr):
        if attr == "update":
            return UpdateCall(self)
        return Stub.getattr(self, ex, st, attr)


def modeling_replay(t, A, name):
    """Replay of a (candidate) counter-model on the REAL modeling(): recording stubs for model / design space, the schedule
    method replaced by one returning a sentinel; the real body is judged against the property itself (own model, the
    schedule's value unchanged, exactly the active designs, each once; Auer: list order = iteration order of S, variance
    tracking off during the update and restored afterwards)."""
    from pyvc import finite

    def builder(m):
        n = (t.finite or {}).get("n") or m.eval(A.N, model_completion=True).as_long()
        dom = list(range(-1, n + 1))
        tb = lambda e: z3.is_true(m.eval(finite.expand(e, dom), model_completion=True))
        mem = lambda arr: [k for k in range(n) if tb(z3.Select(arr, k))]
        mod = ALGOS[name][:-3].replace("/", ".")
        sched, attr = SCHEDULE[name]
        L = ["import %s as M" % mod, "import itertools",
             "IDS = [8, 1, 16, 3, 32, 5]",
             "class Sentinel:\n    def __init__(self, n): self.n = n",
             "def run(S0, P0, U0, emp):",
             "    ACTIVE = set().union(*[%s])" % ", ".join({"S": "S0", "P": "P0", "U": "U0"}[k] for k in ACTIVE[name]),
             "    log = []",
             "    class Model:\n        track_variances = 'initial'",
             "    model = Model()",
             "    class DS:\n        def update(self, mdl, scale, indices_to_update=None):\n            log.append((mdl, scale, list(indices_to_update), getattr(mdl, 'track_variances', None)))",
             "    a = object.__new__(M.%s)" % name,
             "    a.S = set(S0); a.P = set(P0); a.U = set(U0); a.design_space = DS(); a.model = model; a.use_empirical_beta = emp",
             "    entry = Sentinel('entry'); fresh = Sentinel('schedule'); setattr(a, %r, entry)" % attr,
             ("    setattr(a, %r, lambda: fresh); want = fresh" % sched) if sched else "    want = entry",
             "    order_of_S = list(a.S)",
             "    bad = []",
             "    try:\n        a.modeling()\n    except Exception as ex:\n        return ['raised %s: %s' % (type(ex).__name__, ex)]",
             "    if len(log) != 1: return ['design_space.update called %d times' % len(log)]",
             "    mdl, scale, idx, tv = log[0]",
             "    if mdl is not model: bad.append('a different model was handed over')",
             "    if scale is not want: bad.append('the scale handed over is not the schedule value')",
             "    if getattr(a, %r) is not want: bad.append('attribute %s does not hold the schedule value')" % (attr, attr),
             "    if sorted(idx) != sorted(ACTIVE): bad.append('regions rebuilt for %r, active designs are %r' % (sorted(idx), sorted(ACTIVE)))",
             "    if (a.S, a.P, a.U) != (S0, P0, U0): bad.append('S/P/U changed')",
             ("    if idx != order_of_S: bad.append('index list %r is not the iteration order of S %r' % (idx, order_of_S))\n"
              "    if tv is not False: bad.append('variance tracking was %r during the update' % (tv,))\n"
              "    if model.track_variances != emp: bad.append('variance tracking left at %r, configured %r' % (model.track_variances, emp))") if name == "Auer" else "    pass",
             "    return bad",
             "cands = [({IDS[k] for k in %r}, {IDS[k] for k in %r}, {IDS[k] for k in %r})]" % (mem(A.S0), mem(A.P0), mem(A.U0)),
             "for lab in itertools.product('SPUN', repeat=3):",
             "    S0 = {IDS[k] for k in range(3) if lab[k] == 'S'}; P0 = {IDS[k] for k in range(3) if lab[k] in 'PU'}; U0 = {IDS[k] for k in range(3) if lab[k] == 'U'}",
             "    cands.append((S0, P0, U0))",
             "for (S0, P0, U0) in cands:",
             "    for emp in (False, True):",
             "        bad = run(S0, P0, U0, emp)",
             "        if bad:",
             "            print('INPUT S=%r P=%r U=%r use_empirical_beta=%r' % (sorted(S0), sorted(P0), sorted(U0), emp)); print('REAL', bad)",
             "            print('REPLAY-CONFIRMED obligation=%s (real modeling() deviates from the property)' % OBLIGATION)\n            raise SystemExit(1)",
             "print('REPLAY-NOT-REPRODUCED obligation=%s' % OBLIGATION)\nraise SystemExit(4)"]
        return L
    return builder


def _modeling(name):
    @task("C04", "%s.modeling" % name)
    def _t(t):
        t.mode = "set-level: S, P, U arbitrary finite sets; schedule value and design_space.update by contract"
        A = AlgoState(t, name, with_U=("U" in ACTIVE[name]))
        sched, attr = SCHEDULE[name]
        model = SObj("ModelStub", {"track_variances": z3.Bool("track0")}, tag="model")
        ds = DSStub("design_space", {"confidence_regions": A.ds.fields["confidence_regions"], "cardinality": A.N})
        A.obj.fields.update({"model": model, "design_space": ds, "use_empirical_beta": z3.Bool("use_empirical_beta")})
        entry_scale = Opaque("Scale", z3.Const("scale_at_entry", SCALE))
        A.obj.fields[attr] = entry_scale
        returned = []

        def c_sched(ex, st, self_val, args, kwargs, node):
            v = Opaque("Scale", z3.Const("schedule_value!%d" % V.fresh_id(), SCALE))
            returned.append(v)
            st.roots.setdefault("calls", []).append({"obj": "self", "method": sched, "args": list(args), "ret": v})
            return [(st, v)]
        if sched is not None:
            t.contracts[ALGOS[name] + "::" + name + "." + sched] = c_sched
        paths = t.run(ALGOS[name], name + ".modeling", [], self_val=A.obj, setmode=True)
        t.must_fail()
        t.no_raise(paths)
        arrs = {"S": A.S0, "P": A.P0, "U": A.U0}
        e = z3.Int("e!q")
        in_active = lambda x: z3.Or(*[z3.Select(arrs[k], x) for k in ACTIVE[name]])

        def goal(p):
            calls = p.st.roots.get("calls") or []
            upd = [c for c in calls if c["obj"] == "design_space" and c["method"] == "update"]
            sch = [c for c in calls if c["obj"] == "self"]
            other = [c for c in calls if c not in upd and c not in sch]
            if len(upd) != 1 or other or len(sch) != (1 if sched else 0):
                return False
            a = list(upd[0]["args"])
            kw = upd[0]["kwargs"]
            mdl = a[0] if a else kw.get("model")
            scale = a[1] if len(a) > 1 else kw.get("scale")
            idx = a[2] if len(a) > 2 else kw.get("indices_to_update")
            want = sch[0]["ret"] if sched else entry_scale
            S1, P1, U1, o = A.final(p)
            cs = [z3.BoolVal(isinstance(mdl, SObj) and mdl.oid == model.oid),             # the algorithm's own model
                  z3.BoolVal(scale is want),                                             # the schedule's value, unchanged
                  z3.BoolVal(o.fields.get(attr) is want),                                # and remembered on the object
                  z3.BoolVal(isinstance(idx, SM.SSeq) and idx.distinct is True),
                  same_set(S1, A.S0), same_set(P1, A.P0), same_set(U1, A.U0)]
            if sched:
                cs.append(z3.BoolVal(calls.index(sch[0]) < calls.index(upd[0])))
            if isinstance(idx, SM.SSeq):
                cs.append(z3.ForAll([e], z3.Select(idx.mem, e) == in_active(e)))         # exactly the active designs
                if name == "Auer":
                    # rows of beta_t are addressed by position in S's iteration order: the index list must BE that order
                    cs.append(z3.BoolVal(idx.from_set is not None and idx.elems.eq(o.fields["S"].seq)))
            return z3.And(*cs)
        t.finite = {"N": A.N, "replay": modeling_replay(t, A, name)}
        t.prove_paths("displayed_regions_are_rebuilt_for_exactly_the_active_designs_from_the_own_model_with_the_schedule_value", paths, goal)
        if name == "Auer":
            # the design space is updated with variances NOT tracked (regions = mean +- beta_t), and tracking is switched back to
            # the configured mode afterwards
            def tv(p):
                calls = p.st.roots.get("calls") or []
                upd = [c for c in calls if c["obj"] == "design_space"]
                if len(upd) != 1:
                    return False
                at_call = upd[0]["model_fields_at_call"].get("track_variances")
                o = A.final(p)[3]
                after = o.fields["model"].fields.get("track_variances")
                return z3.And(z3.Not(V.Bz(at_call)), V.Bz(after) == z3.Bool("use_empirical_beta"))
            t.prove_paths("regions_are_built_without_variance_tracking_and_tracking_is_restored_to_the_configured_mode", paths, tv)
        t.finite = None
        t.implicit()
    return _t


for _n in SCHEDULE:
    _modeling(_n)
