"""Per-property static evidence text: what is assumed / not decided (DESIGN.md sections 4, 5)."""

A_FP = "A-FP: IEEE floats treated as mathematical reals; no NaN/inf; ndarray division by zero is an unspecified real"
A_LIB = "A-LIB: library contracts of DESIGN 2.2 (each one used is listed in trusted_base as library-contract: ...)"
A_SOLVE = "A-SOLVE: cvxpy / scipy SLSQP return the exact optimum or feasibility verdict of the convex program they are given"
A_ENGINE = "PYVC engine (ast -> z3 VC generator, loop summaries, product abstraction) is trusted; exercised by the seeded-change runs (tools/run_seeds.py over seeded/*/patch.diff) and by engine/CPython agreement runs on failing paths (every replay) and on passing paths (thorough tier)"

PROPS = {}
CLAIMED = set()
NOT_APPLICABLE = {}


def prop(pid, **kw):
    kw.setdefault("assumptions", [])
    kw["assumptions"] = [A_FP, A_LIB, A_ENGINE] + kw["assumptions"]
    kw.setdefault("trusted_base", [])
    kw.setdefault("not_decided", [])
    PROPS[pid] = kw
    CLAIMED.add(pid)


prop("C09",
     level_text="The real bodies of RectangularConfidenceRegion.is_dominated (with PolyhedralConeOrder.dominates, OrderingCone.is_inside, hyperrectangle_get_vertices inlined) are symbolically executed and proved equal to the vertex-pair formula for all real inputs; the box-extreme-point lemma lifts it to all points of the boxes. Slack forms and the ValueError condition are covered. HISTORIES: Rect.history / Ell.history tasks build the regions with the real constructors, use the predicate, change the region with the real update / intersect and use it again: the second result is the specification's for the bounds / ellipsoid displayed now (a stale memo fails, a correctly invalidated one verifies); a bounded twin stand-in (fresh regions) is their fall-back.",
     mode="unrolled: m in {1,2,3} (thorough: 4), K in {1..m+1}; all real-valued inputs unbounded",
     assumptions=[A_SOLVE],
     trusted_base=["z3 5.1.0", "cvc5 1.0.3", "cvxpy solver contract (ellipsoids)"],
     not_decided=["behaviour within numerical tolerance of the boundary (solver / rounding error)",
                  "dimensions m > 4"])

prop("C10",
     level_text="RectangularConfidenceRegion.is_covered, EllipsoidalConfidenceRegion.is_covered and hyperrectangle_get_region_matrix are executed symbolically; the cvxpy program they build is proved pointwise equal to the specification's constraint set, and the returned boolean is proved to be the solver's feasibility verdict of that program on every path (both arms of the SolverError fallback). HISTORIES: as for C09 (Rect.history / Ell.history: construct, use, update or intersect, use) -- the second verdict refers to the regions displayed now.",
     mode="unrolled: rectangles m in {1,2,3} (thorough 4), K in {1..m+1}; ellipsoids m in {2,3}; all real-valued inputs unbounded",
     assumptions=[A_SOLVE],
     trusted_base=["z3 5.1.0", "cvc5 1.0.3", "cvxpy solver contract: status/feasibility exact"],
     not_decided=["numerical correctness of the LP/SOCP solver near the boundary and for tiny regions", "dimensions above those listed"])

prop("C12",
     level_text="PolyhedralConeOrder.dominates / OrderingCone.is_inside are proved equal to the facet-inequality definition (single and batched calls); preorder laws are lemmas over that contract; the bundled cones' constructors are executed symbolically and their geometry proved (orthant, 3-D cones, 2-D theta-cone with symbolic angle).",
     mode="unrolled m in {1,2,3} (thorough 4), K up to m+1; theta symbolic; laws for one generic facet row",
     trusted_base=["z3 5.1.0", "cvc5 1.0.3", "axiom: tangent addition formula instances", "numpy trig functions are the mathematical functions"],
     not_decided=["ice-cream cone: the facet-tangency identity through the Rodrigues rotation is left open by both solvers (bounded numeric stand-in only)", "theta = 90 degrees exactly (pole of tan in real arithmetic)", "m > 4"])

prop("C14",
     level_text="Real bodies of both design spaces' update(), RectangularConfidenceRegion.update/intersect, EllipsoidalConfidenceRegion.update and hyperrectangle_check_intersection are executed symbolically against the specification for all real inputs; index subsets are enumerated for a 3-design space (all orders used: singletons, pairs, permutations), scale forms scalar / per-objective / per-design.",
     mode="unrolled: m in {1,2,3}, design spaces with 3 designs, index lists enumerated; Model.predict by interface contract",
     trusted_base=["z3 5.1.0", "interface contract: Model.predict(X (N,d)) -> means (N,m), covs (N,m,m)"],
     not_decided=["that each concrete model's predict meets the interface contract for N = 1 (see C15: GP models squeeze the sample axis)"])


_SET = "set-level: S, P, U are arbitrary finite sets of design indices; regions and the answers of the region predicates are uninterpreted (every configuration); Auer: objectives unrolled m in {2,3}, centres/widths arbitrary reals"
_SET_TB = ["z3 5.1.0", "cvc5 1.0.3",
           "derived loop summaries of pyvc/setmode.py (search / accumulate schemas, inductive by construction; side conditions checked)",
           "ghost iteration order of a set: stable while the set object is not mutated (CPython), unconstrained afterwards"]

prop("C02",
     level_text="The real discarding() of all seven elimination algorithms and the three compute_pessimistic_set() are symbolically executed over arbitrary finite sets and arbitrary predicate answers and proved to perform EXACTLY the certified elimination (set equality: only-if and if, same round), with the slack the property names, the witness set it names, and P/U untouched. Auer: each design's own displayed half-width, under the alignment precondition established in run_one_step (C06). HISTORIES (bounded): a native stand-in drives discarding() over multi-round histories on a long-lived object against a twin holding only the declared state (hidden state such as a memoised pessimistic set is invisible to the single-call contracts).",
     mode=_SET, trusted_base=_SET_TB,
     not_decided=["geometric meaning of the predicates (that is C09/C10/C11)", "Auer with m > 3 objectives"])

prop("C03",
     level_text="The real pareto_updating / epsiloncovering / useful_updating of all seven algorithms are proved to perform exactly the specified promotion (S' and P' as set equalities, P monotone, S and P disjoint, VOGP_AD's depth gate and latch), U exactly the members of P that can still cover a candidate; Auer's two-stage hold-back with each design's own width under the alignment precondition. HISTORIES (bounded): the same twin stand-in for pareto_updating / epsiloncovering / useful_updating.",
     mode=_SET, trusted_base=_SET_TB,
     not_decided=["geometric meaning of the predicates (C10)", "Auer with m > 3 objectives"])

prop("C06",
     level_text="run_one_step of the elimination algorithms is executed symbolically with the phases called by contract (the transitions proved for their real bodies); per step: idempotence after completion, S shrinks, P grows, S/P disjoint, U inside P, round+1, completion flag, phase order, samples only while candidates remain; evaluating() accounting and the discrete optimisers' exception-freedom are separate obligations. WHOLE ROUNDS (bounded): a native stand-in builds the algorithms with their real constructors and checks every problem.evaluate call of real run_one_step() rounds against the state at that moment (active designs only, accounting, idle after completion).",
     mode=_SET, trusted_base=_SET_TB,
     not_decided=["exception-freedom inside cvxpy / gpytorch / botorch calls", "termination"])

prop("C16",
     level_text="add_sample / update / predict / clear_data of EmpiricalMeanVarModel are executed symbolically: per-design stores after add_sample (order preserved, repeated indices), means/variances formulas in update (all tracking combinations), row selection in predict, the rejections, and end-to-end histories whose prediction is proved equal to an order-free expression of all rows added for the design.",
     mode="unrolled: design counts 2-3, objective counts 2-3, held sample counts 0-3 and index patterns enumerated; every sample value symbolic (unbounded)",
     trusted_base=["z3 5.1.0", "numpy.mean / numpy.var(ddof=0) definitions"],
     not_decided=["unbounded numbers of designs / samples (structure is enumerated, values are not)", "predict between add_sample and update (reading: prediction as of the last update)"])

prop("C19",
     level_text="get_smallmij / get_delta / utils.is_covered / get_uncovered_size / get_uncovered_set / calculate_epsilonF1_score are executed symbolically against their definitions (gap as min over facets of the clipped functional over its own alpha, max over designs, the coverage program pointwise equal to 'exists cone vector of norm <= eps', counts, the F1 formula, range, =1 on the true set); the geometric reading of the gap and the monotonicity in eps are lemmas.",
     mode="unrolled m in {2,3}, K up to 4, N up to 4; index sets enumerated; all values symbolic",
     assumptions=[A_SOLVE],
     trusted_base=["z3 5.1.0", "cvc5 1.0.3", "alpha_k is the optimum C17 defines (upper bound + attained)"],
     not_decided=["HV(true front) >= HV(predicted subset) itself (a fact about botorch's monotone set function; decided here: both fronts are measured in the cone's facet coordinates against the same reference point)",
                  "numerical correctness of cvxpy inside is_covered"])

prop("C20",
     level_text="get_closest_indices_from_points, ProblemFromDataset.evaluate (noiseless and noisy), get_noisy_evaluations_chol, the problem constructors' noise factor, BraninCurrin.evaluate's frame, DecoupledEvaluationProblem.evaluate and normalize/unnormalize are executed symbolically: nearest-row lookup (first minimiser), noise as the linear image of the RNG draw with covariance L L^T, requested components only, inputs never written, mutual inverses.",
     mode="unrolled: up to 4 designs, 2-3 objectives, 1-2 query points; all values symbolic",
     trusted_base=["z3 5.1.0", "sklearn euclidean_distances contract", "sklearn MinMaxScaler / StandardScaler contracts (default options)", "numpy.load / genfromtxt return the file's table (external)", "numpy.linalg.cholesky contract", "np.random.normal draws are standard normal, independent (law NOT modelled)"],
     not_decided=["the sampling law of np.random.normal (only the linear map applied to the draw is proved)",
                  "that (x-min)/(max-min) lies in [0,1] and (y-mean)/std has zero mean / unit variance for N > 2 rows (facts about the two formulas; the sklearn scalers are used by contract)",
                  "bundled data files' contents and row counts (declared cardinalities)"])

prop("C08",
     level_text="NaiveElimination.__init__ is executed symbolically and its default L proved equal to the property's formula with sigma = sqrt(noise_var) for all noise_var, epsilon, delta, beta; run_one_step's storage of one observation per design per round, the counters, the completion flag and the no-op after completion; P as get_pareto_set of the per-design means of all stored observations (get_pareto_set's exactness is C13). The constructor task also proves that the sampling problem is built on the same dataset with noise covariance noise_var * I, i.e. the noise L is sized for is the noise that is drawn.",
     mode="K in {2,3,5}, m in {2,3} concrete; all real parameters symbolic",
     trusted_base=["z3 5.1.0", "numpy.ceil / numpy.log / numpy.sqrt contracts",
                   "ASSUMED: that the formula's L yields the (eps, delta)-PAC guarantee (Ararat & Tekin 2023) -- probability is not within reach of contracts"],
     not_decided=["the probabilistic PAC conclusion itself (bounded numeric stand-in in the thorough tier)"])

prop("C04",
     level_text="The real compute_radius / compute_alpha / compute_beta bodies are executed symbolically (round, design count, delta, noise variance symbolic; objective count symbolic or m = 2..6) and proved, for every round, to return a scale at least as large as the minimal schedule for which the assumed Gaussian / chi-square tail inequalities and the union bound over designs, objectives and all rounds give total failure probability delta; domains of log and sqrt and positivity included.",
     mode="scalar symbolic analysis; t, K unbounded integers; m symbolic where the schedule allows, else m = 2..6; contraction 1",
     trusted_base=["z3 5.1.0", "cvc5 1.0.3"],
     not_decided=["probability statements themselves (tail inequalities, union bound, series value are assumed axioms)",
                  "PaVeBaPartialGP with hyperellipsoid confidence type and m >= 3: the Laurent-Massart term-wise bound does not close at t = 1 (left undecided, not reported as a violation)",
                  "VOGP_AD's RKHS schedule and Auer's empirical-beta branch (not covered by the property's Gaussian argument)",
                  "that the GP posterior is Gaussian with the predicted mean/variance (A-GP)"])

prop("C13",
     level_text="get_pareto_set and get_pareto_set_naive are executed symbolically (mask-and-compact loop with the executor forking on every symbolic mask entry) with `dominates` called by contract as an ARBITRARY reflexive transitive relation on the input vectors: valid/distinct/increasing indices, nothing returned is strictly dominated, every input is weakly dominated by a returned vector, equal values once (fast) / all kept (naive).",
     mode="number of vectors N enumerated (1..5); order abstract (all cones, all m, all K); vector values symbolic",
     trusted_base=["z3 5.1.0", "numpy.allclose definition", "numpy boolean-mask selection keeps the selected rows in order"],
     not_decided=["N beyond the enumerated sizes (the loop is not cut by an invariant; termination not proved)"])

prop("C17",
     level_text="get_alpha's cvxpy program is proved pointwise equal to 'maximise the facet functional over unit-norm cone vectors' and its result to the optimal value; get_alpha_vec's shape and routing; compute_u_star (VOGP, VOGP_AD): the program handed to SLSQP is 'minimise |z| subject to every facet functional >= 1' (objective and ALL K constraints), u* = z*/|z*|, d1 = |z*|, u* in the cone; ConeTheta2D.beta's formula.",
     mode="unrolled K up to 4 facets, dimension 2-3; theta symbolic",
     assumptions=[A_SOLVE],
     trusted_base=["z3 5.1.0", "cvxpy / scipy SLSQP return a global optimum of the convex program they are given"],
     not_decided=["numerical optimality of the SOCP / SLSQP solvers", "the identity alpha(get_2d_w(theta)) = sin(theta) (acute) / 1, i.e. beta = 1/alpha, is not proved symbolically (bounded numeric stand-in)"])

prop("C18",
     level_text="generate_child_designs / refine_design are executed symbolically for d = 1, 2, 3: the 2^d children are all sign patterns of the halved cell, each child's point is the centre of its own cell, depth + 1 (<= max depth), parent's region bounds, fresh consecutive indices, earlier nodes untouched; tiling (union = parent, disjoint interiors, half side) is a lemma; root cell; no refinement at max depth; VOGP_AD's 'only finest leaves are declared' is an invariant lemma over the proved step contracts.",
     mode="unrolled d in {1,2,3}; cell bounds / depths / regions symbolic",
     trusted_base=["z3 5.1.0", "itertools.product contract", "induction on the refinement history (schema)"],
     not_decided=["VOGP_AD.evaluate_refine's own body (the parent-for-children swap in S / P) is used through an assumed contract",
                  "refine_design called directly on a node at max depth (outside the precondition the library's only call site establishes)"])

prop("C11",
     level_text="line_seg_pt_intersect_at_dim, is_pt_in_extended_polytope and RectangularConfidenceRegion.check_dominates are executed symbolically (state merging keeps the path count linear): a True answer implies every vertex of the first rectangle dominates some point of the second (soundness, any cone), and for 2x2 non-singular cones the converse holds in exact real arithmetic (completeness); the convex lift from vertices to all points is a lemma. HISTORIES: Rect.history[check_dominates]: construct, use, change the polytope's rectangle with the real update / intersect, use -- the second answer is the exact test over the bounds displayed now.",
     mode="unrolled: m = 2 (K = 2 quick, K = 3 thorough), polytopes of 2-4 vertices; all coordinates symbolic",
     trusted_base=["z3 5.1.0", "cvc5 1.0.3", "state merging / guarded arrays of the PYVC engine"],
     not_decided=["behaviour within rounding distance of the boundary ('non-negligible margin')", "m = 3 soundness (thorough tier only, may be left open by the solvers)",
                  "division by zero inside line_seg_pt_intersect_at_dim is an unspecified real (IEEE gives nan/inf, for which all comparisons are False)"])

prop("C07",
     level_text="optimize_acqf_discrete is executed symbolically for enumerated candidate counts / batch sizes with a row-wise acquisition by contract (arbitrary value tables incl. ties): distinct rows, each the first maximiser among the remaining, non-increasing, values returned with their rows; optimize_decoupled_acqf_discrete returns the q largest cells of the (objective x design) table, sorted, as distinct pairs, with the acquisition's evaluation index restored; the acquisition rules (total variance, cost-weighted single-objective variance, region diagonal via locate_points) against their definitions; evaluating() data flow (rows evaluated = rows of the active set in the order handed to add_sample, counters) at set level. WHOLE ROUNDS (bounded): the stand-in described under C06 (every evaluated design is active at the time of the call, no repeats, batch size).",
     mode="unrolled: up to 4 candidates, batch up to 3; acquisition values symbolic; evaluating(): set-level",
     trusted_base=["z3 5.1.0", "numpy.argmax returns the first maximiser", "interface contract Model.predict"],
     not_decided=["ThompsonEntropyDecoupledAcquisition (random, depends on the whole candidate array): DecoupledGP's 'maximiser' is relative to the values that call returned",
                  "q larger than the number of candidates (separate C06 obligation)"])

prop("C15",
     level_text="The wrappers' data bookkeeping is proved from the real bodies: add_sample appends (first input_dim columns, order kept), clear_data empties, update makes the inner exact GP condition on exactly the held samples (both the creation and the set_train_data branch), predict returns (N,m) means and (N,m,m) covariances that are the posterior at the queried points for every N >= 1 incl. N = 1, model-list routing per objective, shapes of reported hyper-parameters, the train-and-freeze helpers' final state. gpytorch is called by contract.",
     mode="unrolled: d in {1,2}, m in {2,3}, held samples 0-3, N in {1,2,3}; values symbolic",
     trusted_base=["z3 5.1.0", "A-GP: gpytorch returns the exact posterior of the data it was given, as a function of the data as a multiset; shapes as measured"],
     not_decided=["the posterior arithmetic of gpytorch (exactness, non-negative / non-increasing variance): bounded numeric stand-in only",
                  "agreement of reported hyper-parameters with the kernel beyond their shapes"])

prop("C05",
     level_text="Lemma over contracts: from the step contracts proved for the real discarding / epsiloncovering bodies of VOGP and eps-PAL (C02/C03), the meaning of the region predicates (C09/C10, instantiated at the true means) and the hypothesis that the truth stays inside the displayed regions, the two invariants (isolated designs stay active; members of P are not dominated by the slack or more by any active design) are preserved by every phase and give the property at S = empty.",
     mode="lemma; sets, regions, predicate answers, true means arbitrary (meaning lemma: m in {2,3}, generic facet row)",
     trusted_base=["z3 5.1.0", "induction over rounds (schema)", "H-valid (hypothesis of the property)", "run reaches S = empty (hypothesis)"],
     not_decided=["validity of the regions (C04) and termination", "VOGP_AD is outside C05"])

prop("C01",
     level_text="Lemma over contracts: from the step contracts proved for the real discarding / pareto_updating / useful_updating bodies of the PaVeBa family (C02/C03), the meaning of the region predicates at the true means (C09/C10) and the hypotheses H-valid / H-nondeg / termination, the invariants (discarded designs keep a dominator among the active ones, incl. same-round discard chains by a rank argument; promoted designs have gap <= eps against every design; candidates have gap <= eps against retired members of P) are preserved by every phase and give both conclusions at S = empty. The arithmetic facts (gap monotone along domination; what 'not coverable' gives for ellipsoid and for rectangle slacks) are separate lemmas.",
     mode="lemma; sets, regions, predicate answers, true means arbitrary; arithmetic lemmas for (m,K) in {(2,2),(3,3),(2,3)}",
     trusted_base=["z3 5.1.0", "induction over rounds (schema)", "axiom finite_argmax (one instance)", "axiom rank (H-nondeg, cone with interior)",
                   "H-valid and termination (hypotheses of the property)"],
     not_decided=["H-valid itself (C04) and termination", "Auer with per-objective widths (known finding); Auer's alignment precondition (beta_t rows = own widths; C03 finding) is a hypothesis of its step contracts",
                  "identical zero-width regions (excluded by H-nondeg)"])


# ----------------------------------------------------------------------------------------------
# Dependencies: obligations of OTHER properties' tasks that a property's lemma / contracts consume.  The check of the
# property discharges them too (under their own obligation names), so a change to a function the property relies on fails
# the property's own check.  (task-name regex, clause regex); the clause regex selects exactly what is consumed: e.g. the
# C01 / C05 lemmas use only the soundness direction of the step contracts ("safe/", "mono/") and of the region predicates.
# ----------------------------------------------------------------------------------------------
_PAV = r"(PaVeBa|PaVeBaGP|PaVeBaPartialGP)"
_DOM_SOUND = r"^sound/|^result_is_forall_facets|^a_problem_is_solved"
_COV_COMPLETE = r"^complete/|^result_is_feasibility|^a_problem_is_solved"
DEPENDS = {
    "C01": [(r"C02/%s\.discarding$" % _PAV, r"^(safe|mono)/"),
            (r"C03/%s\.(pareto_updating|useful_updating)$" % _PAV, r"^(safe|mono)/"),
            (r"C09/(Rect|Ell)\.is_dominated\[", _DOM_SOUND), (r"C09/lemma\.box_extreme", r"."),
            (r"C10/(Rect|Ell)\.is_covered\[", _COV_COMPLETE),
            (r"C(09|10)/(Rect|Ell)\.history\[", r"."),      # the predicates refer to the regions displayed NOW (along histories)
            (r"C17/get_alpha", r"."),
            (r"C04/(%s|Auer)\.modeling$" % _PAV[1:-1], r"."),
            (r"C02/Auer\.discarding\[", r"^(safe|mono)/"), (r"C03/Auer\.pareto_updating\[", r"^(safe|mono)/"),
            (r"C03/Auer\.run_one_step\[m=2,non-empirical", r"."),
            (r"C06/%s\.run_one_step$" % _PAV, r"^phases_run_once|^active_step"),
            (r"C06/(%s|Auer)\.__init__" % _PAV[1:-1], r".")],
    "C05": [(r"C02/(VOGP|EpsilonPAL)\.(discarding|compute_pessimistic_set)$", r"^(safe|mono)/"),
            (r"C03/(VOGP|EpsilonPAL)\.epsiloncovering$", r"^(safe|mono)/"),
            (r"C09/(Rect|Ell)\.is_dominated\[", _DOM_SOUND), (r"C09/lemma\.box_extreme", r"."),
            (r"C10/(Rect|Ell)\.is_covered\[", _COV_COMPLETE),
            (r"C(09|10|11)/Rect\.history\[", r"."),         # the predicates refer to the regions displayed NOW (along histories)
            (r"C17/VOGP\.compute_u_star", r"."),
            (r"C04/(VOGP|EpsilonPAL)\.modeling$", r"."),
            (r"C06/(VOGP|EpsilonPAL)\.run_one_step$", r"^phases_run_once|^active_step"),
            (r"C06/(VOGP|EpsilonPAL)\.__init__", r".")],
    # "exactly when the displayed regions certify it": the geometric meaning of the certificate predicates
    # ... and "in that same round" / "in every round": every phase runs once per active step, in order
    "C02": [(r"C09/", r"."), (r"C11/", r"."), (r"C06/.*\.run_one_step$", r"^phases_run_once|^active_step"), (r"C06/.*\.__init__", r".")],
    "C03": [(r"C10/", r"."), (r"C06/.*\.run_one_step$", r"^phases_run_once|^active_step"), (r"C06/.*\.__init__", r".")],
    # the region built from the scaling: scale x predictive std / scale-radius ellipsoid
    "C04": [(r"C14/(Rect|Ell)\.update\[", r".")],
    # step composition uses the phases' monotonicity and exception-freedom
    "C06": [(r"C0[23]/", r"^mono/|^no-raise|^implicit"), (r"C04/.*\.modeling$", r"."),
            # "each step completes without error" for either confidence type and any polyhedral order of matching dimension
            (r"C(09|10|11)/(Rect|Ell)\.", r"^no-raise|^implicit|^raises")],
    # which designs are sampled and what reaches the model: the evaluating() bodies
    "C07": [(r"C06/.*\.(evaluating|evaluate_refine)$", r".")],
    "C08": [(r"C17/ConeTheta2D\.beta", r"."), (r"C13/get_pareto_set\[", r"."), (r"C12/dominates\[", r".")],
    # "the pessimistic Pareto set used by VOGP and eps-PAL is exactly the set of active designs no other active design pessimistically dominates"
    "C11": [(r"C02/.*\.compute_pessimistic_set$", r".")],
    "C13": [(r"C12/(dominates|is_inside)", r".")],
    "C14": [(r"C15/.*\.predict\[", r".")],
    "C18": [(r"C03/VOGP_AD\.epsiloncovering$", r"."), (r"C06/VOGP_AD\.evaluate_refine$", r"."), (r"C06/VOGP_AD\.__init__", r".")],
    "C19": [(r"C17/get_alpha", r".")],
}
for _p, _d in DEPENDS.items():
    PROPS[_p]["depends"] = _d
