"""Per-property static evidence text: what is assumed / not decided (DESIGN.md sections 4, 5)."""

A_FP = "A-FP: IEEE floats treated as mathematical reals; no NaN/inf; ndarray division by zero is an unspecified real"
A_LIB = "A-LIB: library contracts of DESIGN 2.2 (each one used is listed in trusted_base as library-contract: ...)"
A_SOLVE = "A-SOLVE: cvxpy / scipy SLSQP return the exact optimum or feasibility verdict of the convex program they are given"
A_ENGINE = "PYVC engine (ast -> z3 VC generator, loop summaries, product abstraction) is trusted; exercised by mutation self-tests and engine/CPython agreement runs"

PROPS = {}
CLAIMED = set()
NOT_APPLICABLE = {}


def prop(pid, **kw):
    kw.setdefault("assumptions", [])
    kw["assumptions"] = [A_FP, A_LIB, A_ENGINE] + kw["assumptions"]
    kw.setdefault("trusted_base", [])
    kw.setdefault("not_decided", [])
    PROPS[pid] = kw
    CLAIMED.add(pid)


prop("C09",
     level_text="The real bodies of RectangularConfidenceRegion.is_dominated (with PolyhedralConeOrder.dominates, OrderingCone.is_inside, hyperrectangle_get_vertices inlined) are symbolically executed and proved equal to the vertex-pair formula for all real inputs; the box-extreme-point lemma lifts it to all points of the boxes. Slack forms and the ValueError condition are covered.",
     mode="unrolled: m in {1,2,3} (thorough: 4), K in {1..m+1}; all real-valued inputs unbounded",
     assumptions=[A_SOLVE],
     trusted_base=["z3 5.1.0", "cvc5 1.0.3", "cvxpy solver contract (ellipsoids)"],
     not_decided=["behaviour within numerical tolerance of the boundary (solver / rounding error)",
                  "dimensions m > 4"])
