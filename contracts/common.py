"""Contracts of callees that are used (not re-verified) by several tasks: call sites see only these."""
import z3

from pyvc import libmodel as L
from pyvc import values as V


def use_alpha_vec_contract(t):
    """get_alpha_vec(W) -> (K,1) array of the alpha_k (their meaning is C17's subject; here: opaque, > 0)."""
    def contract(ex, st, self_val, args, kwargs, node):
        W = L.as_arr(args[0])
        K = W.shape[0]
        a = L.fresh_array("alpha!%d" % V.fresh_id(), (K, 1), "f")
        for x in a.flat():
            st.pc.append(x > 0)
        t.trusted.add("callee-contract: get_alpha_vec returns a (K,1) array of positive reals (meaning: C17)")
        return [(st, a)]

    t.contracts["vopy/utils/utils.py::get_alpha_vec"] = contract
