"""C16 -- the empirical model reports per-design running statistics of all samples."""
import itertools
from fractions import Fraction

import z3

from pyvc.harness import InArr, InConst, InReal, task, cls_ref
from pyvc import libmodel as L
from pyvc import values as V
from pyvc.values import SObj
from pyvc.symexec import find_obj

EM = "vopy/models/empirical_mean_var.py"


def mk_model(t, D, m, counts, track_means=True, track_variances=True, d_in=2):
    stores = []
    for d in range(D):
        a = t.inp("store%d" % d, InArr("st%d" % d, (counts[d], m)))
        stores.append(a)
    nv = t.inp("noise_var", InReal("noise_var"))
    obj = SObj(cls_ref(EM, "EmpiricalMeanVarModel"),
               {"noise_var": nv, "input_dim": d_in, "output_dim": m, "design_count": D, "track_means": track_means,
                "track_variances": track_variances, "design_samples": stores}, tag="model")
    return obj


def rows(arr):
    return [[arr.a[i, j] for j in range(arr.shape[1])] for i in range(arr.shape[0])]


def _add_sample(D, m, counts, idx):
    @task("C16", "add_sample[D=%d,m=%d,held=%s,indices=%s]" % (D, m, "".join(map(str, counts)), "".join(map(str, idx))))
    def _t(t):
        t.mode = "unrolled: designs, held sample counts and the index pattern are enumerated; all sample values symbolic"
        obj = mk_model(t, D, m, counts)
        Y = t.inp("Y", InArr("Y", (len(idx), m)))
        paths = t.run(EM, "EmpiricalMeanVarModel.add_sample", [list(idx), Y], self_val=obj)
        t.must_fail()
        t.no_raise(paths)
        Ys = rows(t.inputs["Y"].snapshot)

        def goal(p):
            o = find_obj(p.st, obj.oid)
            cs = []
            for d in range(D):
                want = rows(t.inputs["store%d" % d].snapshot) + [Ys[j] for j in range(len(idx)) if idx[j] == d]
                got = o.fields["design_samples"][d]
                if got.shape != (len(want), m):
                    return False
                for r in range(len(want)):
                    for c in range(m):
                        cs.append(V.Z(V.eq(got.a[r, c], want[r][c])))
            return z3.And(*cs) if cs else True
        t.prove_paths("each_design_store_is_old_store_plus_its_rows_in_order", paths, goal)
        t.frame_unchanged("frame:Y-not-written", paths, ["Y"])
        t.agree(paths, k=1)
        t.implicit()
    return _t


for _idx in [(0,), (1,), (0, 1), (1, 0), (0, 0), (0, 1, 0), (2, 0, 2), (1, 1, 1)]:
    _add_sample(3, 2, (0, 1, 2), _idx)
_add_sample(2, 3, (2, 0), (1, 0, 1))


@task("C16", "add_sample.raises")
def _add_raises(t):
    obj = mk_model(t, 2, 2, (1, 0))
    Y = t.inp("Y", InArr("Y", (2, 2)))
    paths = t.run(EM, "EmpiricalMeanVarModel.add_sample", [[0, 2], Y], self_val=obj)
    ok = bool(paths) and all(p.kind == "raise" for p in paths)
    t.prove("index_at_or_beyond_design_count_is_rejected_with_an_exception", z3.BoolVal(ok))

    def untouched(p):
        o = find_obj(p.st, obj.oid)
        return z3.BoolVal(o.fields["design_samples"][0].shape == (1, 2) and o.fields["design_samples"][1].shape == (0, 2))
    t.prove_paths("nothing_is_stored_before_the_rejection", paths, untouched)
    obj2 = mk_model(t, 2, 2, (1, 0))
    Y2 = t.inp("Y2", InArr("Y2", (3, 2)))
    paths2 = t.run(EM, "EmpiricalMeanVarModel.add_sample", [[0, 1], Y2], self_val=obj2)
    t.prove("length_mismatch_is_rejected_with_an_exception", z3.BoolVal(bool(paths2) and all(p.kind == "raise" for p in paths2)))


def mean_spec(rs, m):
    n = len(rs)
    return [sum((V.R(r[c]) for r in rs[1:]), V.R(rs[0][c])) / n for c in range(m)]


def var_spec(rs, m):
    n = len(rs)
    mu = mean_spec(rs, m)
    return [sum(((V.R(r[c]) - mu[c]) * (V.R(r[c]) - mu[c]) for r in rs[1:]), (V.R(rs[0][c]) - mu[c]) * (V.R(rs[0][c]) - mu[c])) / n for c in range(m)]


def _update(D, m, counts, tm, tv):
    @task("C16", "update[D=%d,m=%d,held=%s,track_means=%s,track_variances=%s]" % (D, m, "".join(map(str, counts)), tm, tv))
    def _t(t):
        obj = mk_model(t, D, m, counts, tm, tv)
        nv = t.inputs["noise_var"].sym
        paths = t.run(EM, "EmpiricalMeanVarModel.update", [], self_val=obj)
        t.must_fail()
        t.no_raise(paths)

        def goal(p):
            o = find_obj(p.st, obj.oid)
            cs = []
            means, vs = o.fields["means"], o.fields["variances"]
            if tm:
                if not isinstance(means, L.SArr) or means.shape != (D, m):
                    return False
                for d in range(D):
                    rs = rows(t.inputs["store%d" % d].snapshot)
                    want = mean_spec(rs, m) if rs else [z3.RealVal(0)] * m
                    cs += [V.R(means.a[d, c]) == want[c] for c in range(m)]
            else:
                cs.append(z3.BoolVal(means is None))
            if tv:
                if not isinstance(vs, L.SArr) or vs.shape != (D, m, m):
                    return False
                for d in range(D):
                    rs = rows(t.inputs["store%d" % d].snapshot)
                    for a in range(m):
                        for b in range(m):
                            if len(rs) > 1:
                                want = var_spec(rs, m)[a] if a == b else z3.RealVal(0)
                            else:
                                want = V.R(nv) if a == b else z3.RealVal(0)
                            cs.append(V.R(vs.a[d, a, b]) == want)
            else:
                cs.append(z3.BoolVal(vs is None))
            return z3.And(*cs)
        t.prove_paths("means_are_arithmetic_means_variances_population_variances_or_noise_var", paths, goal)
        t.implicit()
    return _t


_update(3, 2, (0, 1, 2), True, True)
_update(3, 2, (3, 2, 0), True, True)
_update(2, 3, (2, 1), True, True)
_update(2, 2, (2, 0), True, False)
_update(2, 2, (2, 1), False, True)
_update(2, 2, (1, 1), False, False)


def _predict(D, m, idxs, tm, tv):
    @task("C16", "predict[D=%d,m=%d,rows=%s,track_means=%s,track_variances=%s]" % (D, m, "".join(map(str, idxs)), tm, tv))
    def _t(t):
        d_in = 2
        obj = mk_model(t, D, m, tuple([0] * D), tm, tv, d_in=d_in)
        means = t.inp("means", InArr("means", (D, m)))
        vs = t.inp("vars", InArr("vars", (D, m, m)))
        obj.fields["means"] = means if tm else None
        obj.fields["variances"] = vs if tv else None
        X = t.inp("X", InArr("X", (len(idxs), d_in + 1)))
        for r, ix in enumerate(idxs):
            X.a[r, d_in] = Fraction(ix)
            t.inputs["X"].snapshot.a[r, d_in] = Fraction(ix)
        paths = t.run(EM, "EmpiricalMeanVarModel.predict", [X], self_val=obj)
        t.no_raise(paths)

        def goal(p):
            mu, cv = p.value
            if mu.shape != (len(idxs), m) or cv.shape != (len(idxs), m, m):
                return False
            cs = []
            for r, ix in enumerate(idxs):
                for c in range(m):
                    cs.append(V.R(mu.a[r, c]) == (V.R(t.inputs["means"].snapshot.a[ix, c]) if tm else 0))
                    for c2 in range(m):
                        cs.append(V.R(cv.a[r, c, c2]) == (V.R(t.inputs["vars"].snapshot.a[ix, c, c2]) if tv else (1 if c == c2 else 0)))
            return z3.And(*cs)
        t.prove_paths("row_r_reports_the_statistics_of_the_design_in_its_last_column(untracked: zero mean / identity)", paths, goal)
        t.frame_unchanged("frame:X-not-written", paths, ["X"])
        t.implicit()
    return _t


_predict(3, 2, (0,), True, True)
_predict(3, 2, (2, 0, 2), True, True)
_predict(3, 2, (1, 1), False, True)
_predict(3, 2, (1, 0), True, False)
_predict(2, 3, (1,), False, False)


@task("C16", "predict.raises[wrong column count]")
def _predict_raises(t):
    obj = mk_model(t, 2, 2, (0, 0))
    X = t.inp("X", InArr("X", (2, 2)))
    paths = t.run(EM, "EmpiricalMeanVarModel.predict", [X], self_val=obj)
    t.prove("is_rejected_with_an_exception", z3.BoolVal(bool(paths) and all(p.kind == "raise" for p in paths)))


@task("C16", "clear_data_then_init")
def _clear(t):
    obj = mk_model(t, 3, 2, (2, 1, 0))
    paths = t.run(EM, "EmpiricalMeanVarModel.clear_data", [], self_val=obj)
    t.no_raise(paths)
    t.prove_paths("every_design_store_is_empty", paths, lambda p: z3.BoolVal(all(a.shape == (0, 2) for a in find_obj(p.st, obj.oid).fields["design_samples"]) and len(find_obj(p.st, obj.oid).fields["design_samples"]) == 3))


def _history(name, D, m, batches):
    @task("C16", "history[%s]" % name)
    def _t(t):
        """History independence, end to end on the real methods: clear, add the batches in the given
        interleaving, update, predict every design: the prediction is the mean / population variance of ALL
        rows ever added for that design (an order-free expression of the multiset of its rows)."""
        d_in = 1
        obj = mk_model(t, D, m, tuple([0] * D), True, True, d_in=d_in)
        allrows = {d: [] for d in range(D)}
        cur = obj
        for bi, idx in enumerate(batches):
            Y = t.inp("Y%d" % bi, InArr("Y%d" % bi, (len(idx), m)))
            ps = t.run(EM, "EmpiricalMeanVarModel.add_sample", [list(idx), Y], self_val=cur)
            if len(ps) != 1 or ps[0].kind != "return":
                t.prove("add_sample_single_path", False)
                return
            cur = find_obj(ps[0].st, obj.oid)
            for j, d in enumerate(idx):
                allrows[d].append([t.inputs["Y%d" % bi].snapshot.a[j, c] for c in range(m)])
        ps = t.run(EM, "EmpiricalMeanVarModel.update", [], self_val=cur)
        cur = find_obj(ps[0].st, obj.oid)
        X = t.inp("X", InArr("X", (D, d_in + 1)))
        for d in range(D):
            X.a[d, d_in] = Fraction(d)
        ps = t.run(EM, "EmpiricalMeanVarModel.predict", [X], self_val=cur)
        nv = t.inputs["noise_var"].sym

        def goal(p):
            mu, cv = p.value
            cs = []
            for d in range(D):
                rs = allrows[d]
                want = mean_spec(rs, m) if rs else [z3.RealVal(0)] * m
                cs += [V.R(mu.a[d, c]) == want[c] for c in range(m)]
                for c in range(m):
                    wv = var_spec(rs, m)[c] if len(rs) > 1 else V.R(nv)
                    cs.append(V.R(cv.a[d, c, c]) == wv)
            return z3.And(*cs)
        t.prove_paths("prediction_is_mean_and_population_variance_of_all_rows_ever_added_for_the_design", ps, goal)
    return _t


_history("two batches interleaved", 2, 2, [(0, 1, 0), (1, 0)])
_history("one row at a time", 2, 2, [(1,), (0,), (1,), (1,)])
_history("same rows other batching", 2, 2, [(1, 0), (1, 1)])


@task("C16", "history[add, update, clear, add, update]")
def _history_clear(t):
    """Samples removed by clear_data are forgotten at the next update: the prediction is the statistics of
    the rows added SINCE the clear (designs without rows: zero mean, noise variance)."""
    D, m, d_in = 2, 2, 1
    obj = mk_model(t, D, m, (0, 0), True, True, d_in=d_in)
    nv = t.inputs["noise_var"].sym
    Y0 = t.inp("Y0", InArr("Y0", (3, m)))
    Y1 = t.inp("Y1", InArr("Y1", (1, m)))
    cur = obj
    for meth, args in (("add_sample", [[0, 1, 0], Y0]), ("update", []), ("clear_data", []), ("add_sample", [[1], Y1]), ("update", [])):
        ps = t.run(EM, "EmpiricalMeanVarModel." + meth, args, self_val=cur)
        if len(ps) != 1 or ps[0].kind != "return":
            t.prove("single_path:" + meth, False)
            return
        cur = find_obj(ps[0].st, obj.oid)
    X = t.inp("X", InArr("X", (D, d_in + 1)))
    for d in range(D):
        X.a[d, d_in] = Fraction(d)
    ps = t.run(EM, "EmpiricalMeanVarModel.predict", [X], self_val=cur)

    def goal(p):
        mu, cv = p.value
        y1 = [t.inputs["Y1"].snapshot.a[0, c] for c in range(m)]
        cs = [V.R(mu.a[0, c]) == 0 for c in range(m)] + [V.R(mu.a[1, c]) == V.R(y1[c]) for c in range(m)]
        cs += [V.R(cv.a[d, c, c]) == V.R(nv) for d in range(D) for c in range(m)]
        return z3.And(*cs)
    t.prove_paths("cleared_samples_are_forgotten_after_update", ps, goal)


@task("C16", "EmpiricalMeanVarModel.__init__[D=3,m=2]")
def _em_init(t):
    """A new model holds no sample for any of its design_count designs and remembers its configuration."""
    nv = t.inp("noise_var", InReal("noise_var"))
    tm, tv = z3.Bool("track_means"), z3.Bool("track_variances")
    obj = SObj(cls_ref(EM, "EmpiricalMeanVarModel"))
    paths = t.run(EM, "EmpiricalMeanVarModel.__init__", [2, 2, nv, 3, tm, tv], self_val=obj)
    t.no_raise(paths)

    def goal(p):
        o = find_obj(p.st, obj.oid)
        f = o.fields
        ds = f.get("design_samples")
        ok = (f.get("input_dim") == 2 and f.get("output_dim") == 2 and f.get("design_count") == 3 and isinstance(ds, list) and len(ds) == 3
              and all(isinstance(a, L.SArr) and a.shape == (0, 2) for a in ds) and len(set(id(a) for a in ds)) == 3)
        if not ok:
            return False
        return z3.And(V.R(f.get("noise_var")) == V.R(nv), V.Bz(f.get("track_means")) == tm, V.Bz(f.get("track_variances")) == tv)
    t.prove_paths("no_samples_for_any_of_the_design_count_designs_configuration_stored", paths, goal)
