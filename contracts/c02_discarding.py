"""C02 -- a design is eliminated only on, and always on, a confidence-region certificate."""
import z3

from pyvc.harness import task
from pyvc import setmode as SM
from pyvc import values as V
from .algos import (ALGOS, CHK, COV, DOM, AlgoState, install_predicate_contracts, same_set, set_is,
                    slack_num, transition, unrolled_transition, Specs)
from pyvc.values import Unsupported

q = z3.Int("q!w")


def ps_spec(A, p):
    """p in the pessimistic set of W = S0 u P0: no other member's region check-dominates p's."""
    return Specs(A).pess(A.S0, A.P0, A.REG0)(p)


def _safe_discard(A, cert):
    """The soundness direction of the elimination rule, consumed by the C01 / C05 lemmas (a more conservative rule keeps it)."""
    e = z3.Int("e!q")
    return [
        ("safe/a_design_leaves_S_only_with_a_certificate", lambda S1, P1, U1, res: z3.ForAll([e], z3.Implies(z3.And(z3.Select(A.S0, e), z3.Not(z3.Select(S1, e))), cert(e)))),
        ("safe/P_and_U_untouched", lambda S1, P1, U1, res: z3.And(same_set(P1, A.P0), same_set(U1, A.U0))),
    ]


def _paveba_family(name):
    @task("C02", "%s.discarding" % name)
    def _t(t):
        t.mode = "set-level: S, P, U arbitrary finite sets, regions and predicate answers arbitrary"
        install_predicate_contracts(t)
        A = AlgoState(t, name)
        cert = Specs(A).cert_paveba(A.S0, A.U0, A.REG0)
        bounded = lambda: unrolled_transition(t, A, ALGOS[name], name + ".discarding", "exactly_certified_designs_leave(zero slack, witness in S u U)",
                                              S=lambda e: z3.And(z3.Select(A.S0, e), z3.Not(cert(e))))
        t.bounded_fn = bounded
        try:
            paths = t.run(ALGOS[name], name + ".discarding", [], self_val=A.obj, setmode=True)
        except Unsupported as ex_:
            # the body left the set-level subset: the bounded structural check stands in (labelled bounded, not a proof)
            bounded()
            t.fallback(str(ex_))
            return
        t.must_fail()
        t.cover("two-active-designs", [z3.Select(A.S0, 0), z3.Select(A.S0, 1), A.N >= 2])
        t.no_raise(paths)

        transition(t, A, paths, "discarding", "exactly_certified_designs_leave(zero slack, witness in S u U)",
                   S=lambda e: z3.And(z3.Select(A.S0, e), z3.Not(cert(e))), consumers=_safe_discard(A, cert))
        t.implicit()
        if t.tier == "thorough":
            bounded()
    return _t


for _n in ("PaVeBa", "PaVeBaGP", "PaVeBaPartialGP"):
    _paveba_family(_n)


def _pess_set(name):
    @task("C02", "%s.compute_pessimistic_set" % name)
    def _t(t):
        install_predicate_contracts(t)
        A = AlgoState(t, name, with_U=False)
        bounded = lambda: unrolled_transition(t, A, ALGOS[name], name + ".compute_pessimistic_set", "designs_no_other_active_design_pessimistically_dominates",
                                              result=lambda e: ps_spec(A, e))
        t.bounded_fn = bounded
        try:
            paths = t.run(ALGOS[name], name + ".compute_pessimistic_set", [], self_val=A.obj, setmode=True)
        except Unsupported as ex_:
            bounded()
            t.fallback(str(ex_))
            return
        t.must_fail()
        t.no_raise(paths)

        ee = z3.Int("e!q")
        transition(t, A, paths, "compute_pessimistic_set", "designs_no_other_active_design_pessimistically_dominates",
                   result=lambda e: ps_spec(A, e),
                   consumers=[("safe/result_contains_only_active_designs", lambda S1, P1, U1, res: z3.BoolVal(False) if res is None else
                               z3.ForAll([ee], z3.Implies(z3.Select(res, ee), z3.Or(z3.Select(A.S0, ee), z3.Select(A.P0, ee))))),
                              ("safe/S_and_P_untouched", lambda S1, P1, U1, res: z3.And(same_set(S1, A.S0), same_set(P1, A.P0)))])
        t.implicit()
        if t.tier == "thorough":
            bounded()
    return _t


def _vogp_family(name, slack_of):
    _pess_set(name)

    @task("C02", "%s.discarding" % name)
    def _t(t):
        install_predicate_contracts(t)
        A = AlgoState(t, name, with_U=False)

        PSs = []

        def c_ps(ex, st, self_val, args, kwargs, node):
            m = SM.fresh_const(ex.ctx, "PS", SM.SETSORT)
            PSs.append(m)
            if t.clause_filter is not None and not t.clause_filter.search("exactly_"):
                # run as a dependency of C05: the lemma needs only that the witnesses are active designs
                ee = z3.Int("e!q")
                st.pc.append(z3.ForAll([ee], z3.Implies(z3.Select(m, ee), z3.Or(z3.Select(A.S0, ee), z3.Select(A.P0, ee)))))
            else:
                st.pc.append(set_is(m, lambda e: ps_spec(A, e)))
            return [(st, SM.SSet(m, ex.ctx, "PS"))]
        t.contracts[ALGOS[name] + "::" + name + ".compute_pessimistic_set"] = c_ps
        sl = slack_of(A)

        def bounded():
            # (the real compute_pessimistic_set is inlined here: the specification's pessimistic set is substituted for PS)
            PSspec = lambda q_: ps_spec(A, q_)
            wit = z3.Int("wit!b")
            certb = lambda p_: z3.And(z3.Not(PSspec(p_)), z3.Exists([wit], z3.And(PSspec(wit), DOM(A.order, z3.Select(A.REG0, p_), z3.Select(A.REG0, wit), sl))))
            unrolled_transition(t, A, ALGOS[name], name + ".discarding", "exactly_non_pessimistic_designs_certified_by_a_pessimistic_witness_leave(eps slack)",
                                S=lambda e: z3.And(z3.Select(A.S0, e), z3.Not(certb(e))),
                                without_contracts=[ALGOS[name] + "::" + name + ".compute_pessimistic_set"])
        t.bounded_fn = bounded
        try:
            paths = t.run(ALGOS[name], name + ".discarding", [], self_val=A.obj, setmode=True)
        except Unsupported as ex_:
            bounded()
            t.fallback(str(ex_))
            return
        t.must_fail()
        t.no_raise(paths)
        t.prove("pessimistic_set_computed_once", z3.BoolVal(len(PSs) == 1))
        if len(PSs) != 1:
            return
        PS = PSs[0]  # the array the call-site contract characterised as exactly the specification's pessimistic set
        cert = Specs(A).cert_vogp(PS, A.REG0, sl)

        # what C05 consumes: some OTHER ACTIVE design's region dominates the leaving design's region up to the slack
        act = lambda i: z3.Or(z3.Select(A.S0, i), z3.Select(A.P0, i))
        weak = lambda e: z3.Exists([q], z3.And(act(q), q != e, DOM(A.order, z3.Select(A.REG0, e), z3.Select(A.REG0, q), sl)))
        transition(t, A, paths, "discarding", "exactly_non_pessimistic_designs_certified_by_a_pessimistic_witness_leave(eps slack)",
                   S=lambda e: z3.And(z3.Select(A.S0, e), z3.Not(cert(e))), consumers=_safe_discard(A, weak))
        t.implicit()
        if t.tier == "thorough":
            bounded()
    return _t


_vogp_family("VOGP", lambda A: A.ustar_eps)
_vogp_family("VOGP_AD", lambda A: A.ustar_eps)
_vogp_family("EpsilonPAL", lambda A: slack_num(A.eps))
