"""C12 -- cone orders are their cones' preorders; bundled cones have the stated geometry."""
import z3

from pyvc.harness import InArr, InConst, InInt, InOrder, InReal, task, cls_ref
from pyvc import libmodel as L
from pyvc import values as V
from pyvc.values import SObj
from . import spec as S
from .common import use_alpha_vec_contract

ORD = "vopy/order.py"
CONE = "vopy/ordering_cone.py"
UT = "vopy/utils/utils.py"


def _dominates(m, K, batch, tier="quick", W_kind="f"):
    @task("C12", "dominates[m=%d,K=%d,batch=%s%s]" % (m, K, batch, "" if W_kind == "f" else ",W dtype=int"), tier=tier)
    def _t(t):
        t.mode = "unrolled m=%d K=%d%s" % (m, K, "" if W_kind == "f" else "; cone matrix of INTEGER dtype, real vectors")
        order = t.inp("order", InOrder("o", K, m, W_kind=W_kind))
        O = t.inputs["order"]
        shape = (m,) if batch is None else (batch, m)
        a = t.inp("a", InArr("a", shape))
        b = t.inp("b", InArr("b", shape))
        paths = t.run(ORD, "PolyhedralConeOrder.dominates", [a, b], self_val=order)
        t.must_fail()
        t.no_raise(paths)
        W = S.rows_of(O)
        A, B = t.inputs["a"].snapshot, t.inputs["b"].snapshot
        rows = 1 if batch is None else batch

        def goal(p):
            if p.kind != "return" or not isinstance(p.value, L.SArr) or p.value.shape != (rows,):
                return False
            cs = []
            for r in range(rows):
                av = A.flat() if batch is None else [A.a[r, j] for j in range(m)]
                bv = B.flat() if batch is None else [B.a[r, j] for j in range(m)]
                cs.append(V.Bz(p.value.flat()[r]) == S.dom(W, av, bv))
            return z3.And(*cs)
        t.prove_paths("result_iff_all_facet_inequalities", paths, goal)
        t.frame_unchanged("frame:inputs-not-written", paths, ["a", "b"])
        t.agree(paths)
        t.implicit()
    return _t


for (_m, _K) in [(1, 1), (2, 2), (2, 3), (3, 3), (3, 4)]:
    _dominates(_m, _K, None)
_dominates(2, 2, 3)
_dominates(3, 3, 2)
_dominates(4, 5, None)
_dominates(2, 2, None, W_kind="i")      # a cone given with integer entries (as in the class docstring): vectors stay real
_dominates(2, 3, 2, W_kind="i")


@task("C12", "is_inside.list_input[m=2,K=2]")
def _inside_list(t):
    """is_inside accepts a plain list (converted with np.array)."""
    order = t.inp("order", InOrder("o", 2, 2))
    O = t.inputs["order"]
    x0, x1 = t.inp("x0", InReal("x0")), t.inp("x1", InReal("x1"))
    paths = t.run(CONE, "OrderingCone.is_inside", [[x0, x1]], self_val=O.cone)
    t.no_raise(paths)
    W = S.rows_of(O)
    t.prove_paths("result_iff_Wx_ge_0", paths, lambda p: V.Bz(p.value.flat()[0]) == z3.And(*[S.dot(w, [x0, x1]) >= 0 for w in W]))


def _laws(m, tier="quick"):
    @task("C12", "lemma.preorder_laws[m=%d]" % m, tier=tier)
    def _t(t):
        """Over the dominates contract (a >= b  <=>  forall k. W_k.(a-b) >= 0), for ONE generic facet row
        (the conjunction over k then follows for every K): reflexive, transitive, translation invariant,
        invariant under positive scaling; antisymmetric when W x = 0 => x = 0 (pointed)."""
        t.mode = "lemma m=%d, one generic facet row" % m
        w = S.reals("w", m)
        a, b, c, d = S.reals("a", m), S.reals("b", m), S.reals("c", m), S.reals("d", m)
        lam = z3.Real("lam")
        f = lambda x, y: S.dot(w, S.vsub(x, y)) >= 0
        t.prove("reflexive", f(a, a), use_pre=False)
        t.prove("transitive", z3.Implies(z3.And(f(a, b), f(b, c)), f(a, c)), use_pre=False)
        t.prove("translation_invariant", f(a, b) == f(S.vadd(a, d), S.vadd(b, d)), use_pre=False)
        t.prove("positive_scaling", z3.Implies(lam > 0, f(a, b) == f([lam * x for x in a], [lam * x for x in b])), use_pre=False)
    return _t


for _m in (1, 2, 3, 4):
    _laws(_m)


def _antisym(m, K):
    @task("C12", "lemma.antisymmetric_pointed[m=%d,K=%d]" % (m, K))
    def _t(t):
        W = [S.reals("w%d" % k, m) for k in range(K)]
        a, b = S.reals("a", m), S.reals("b", m)
        x = S.reals("x", m)
        # pointedness hypothesis instantiated at x = a - b (the only instance the proof needs)
        d = S.vsub(a, b)
        pointed_inst = z3.Implies(z3.And(*[S.dot(w, d) == 0 for w in W]), z3.And(*[di == 0 for di in d]))
        t.prove("antisymmetric", z3.Implies(z3.And(pointed_inst, S.dom(W, a, b), S.dom(W, b, a)), z3.And(*[p == q for p, q in zip(a, b)])), use_pre=False)
    return _t


_antisym(2, 2)
_antisym(3, 3)
_antisym(3, 4)


# ------------------------------------------------------------------ bundled cones


def _componentwise(d):
    @task("C12", "ComponentwiseOrder[d=%d]" % d)
    def _t(t):
        use_alpha_vec_contract(t)
        obj = SObj(cls_ref(ORD, "ComponentwiseOrder"))
        paths = t.run(ORD, "ComponentwiseOrder.__init__", [d], self_val=obj)
        t.no_raise(paths)

        def goal(p):
            o = p.st.frames[0].locals.get("__self__") or find_self(p, obj)
            W = o.fields["ordering_cone"].fields["W"]
            if W.shape != (d, d):
                return False
            return z3.And(*[V.Z(V.eq(W.a[i, j], 1 if i == j else 0)) for i in range(d) for j in range(d)])
        t.prove_paths("W_is_identity_so_cone_is_orthant", paths, goal)
    return _t


def find_self(p, obj):
    from pyvc.symexec import find_obj
    o = find_obj(p.st, obj.oid)
    return o


for _d in (1, 2, 3, 4):
    _componentwise(_d)


def _cone3d(kind):
    @task("C12", "ConeOrder3D[%s]" % kind)
    def _t(t):
        use_alpha_vec_contract(t)
        obj = SObj(cls_ref(ORD, "ConeOrder3D"))
        t.inputs["self"] = InConst(obj)
        paths = t.run(ORD, "ConeOrder3D.__init__", [kind], self_val=obj)
        t.no_raise(paths)

        def Wof(p):
            return find_self(p, obj).fields["ordering_cone"].fields["W"]

        def unit(p):
            W = Wof(p)
            if W.shape != (3, 3):
                return False
            return z3.And(*[sum(V.R(W.a[i, j]) * V.R(W.a[i, j]) for j in range(3)) == 1 for i in range(3)])

        def diag(p):
            W = Wof(p)
            return z3.And(*[sum(V.R(W.a[i, j]) for j in range(3)) >= 0 for i in range(3)])
        t.prove_paths("facet_normals_unit", paths, unit)
        t.prove_paths("contains_the_diagonal", paths, diag)
    return _t


for _k in ("acute", "right", "obtuse"):
    _cone3d(_k)


def _cone3d_twice(kind):
    @task("C12", "ConeOrder3D[%s,constructed twice in one process]" % kind)
    def _t(t):
        """The bundled cone is what its name says on EVERY construction (no state shared between instances)."""
        use_alpha_vec_contract(t)
        o1, o2 = SObj(cls_ref(ORD, "ConeOrder3D")), SObj(cls_ref(ORD, "ConeOrder3D"))
        first = t.run(ORD, "ConeOrder3D.__init__", [kind], self_val=o1)
        if len(first) != 1 or first[0].kind != "return":
            t.prove("first_construction_returns", False)
            return
        paths = t.run(ORD, "ConeOrder3D.__init__", [kind], self_val=o2, after=first[0])
        t.no_raise(paths)
        W1 = find_self(first[0], o1).fields["ordering_cone"].fields["W"]
        W1v = [[W1.a[i, j] for j in range(3)] for i in range(3)]   # values right after the first construction

        def same(p):
            W2 = find_self(p, o2).fields["ordering_cone"].fields["W"]
            if W2.shape != (3, 3):
                return False
            return z3.And(*[V.R(W2.a[i, j]) == V.R(W1v[i][j]) for i in range(3) for j in range(3)])

        def first_untouched(p):
            from pyvc.symexec import find_obj
            o = find_obj(p.st, o1.oid)
            if o is None:
                return True
            W = o.fields["ordering_cone"].fields["W"]
            return z3.And(*[V.R(W.a[i, j]) == V.R(W1v[i][j]) for i in range(3) for j in range(3)])
        t.prove_paths("second_instance_has_the_same_matrix_as_the_first", paths, same)
        t.prove_paths("first_instance_is_not_changed_by_the_second_construction", paths, first_untouched)
    return _t


for _k in ("acute", "obtuse"):
    _cone3d_twice(_k)


@task("C12", "ConeOrder3D[unknown-type-raises]")
def _cone3d_bad(t):
    use_alpha_vec_contract(t)
    obj = SObj(cls_ref(ORD, "ConeOrder3D"))
    paths = t.run(ORD, "ConeOrder3D.__init__", ["sharp"], self_val=obj)
    t.prove("is_rejected_with_an_exception", z3.BoolVal(len(paths) == 1 and paths[0].kind == "raise"))


def _trig_2d(t, deg):
    """Assumed trigonometry for get_2d_w, in terms of u = tan(theta/2):
       tan(pi/4 - phi) = (1-u)/(1+u), tan(pi/4 + phi) = (1+u)/(1-u)   (tangent addition formula, tan(pi/4)=1)
       0 < theta < 180  =>  u > 0 ;  theta <= 90 <=> u <= 1 ; theta = 90 is a pole of tan (excluded)."""
    phi = (V.R(deg) / 180) * L.PI / 2
    u = L.TAN(phi)
    t.axiom("tan(pi/4 - phi) = (1 - tan phi)/(1 + tan phi)", L.TAN(L.PI / 4 - phi) == (1 - u) / (1 + u))
    t.axiom("tan(pi/4 + phi) = (1 + tan phi)/(1 - tan phi)", L.TAN(L.PI / 4 + phi) == (1 + u) / (1 - u))
    t.axiom("tan(theta/2) > 0 for theta in (0,180); < 1 iff theta < 90; = 1 iff theta = 90",
            z3.And(u > 0, (V.R(deg) < 90) == (u < 1), (V.R(deg) == 90) == (u == 1)))
    return u


@task("C12", "get_2d_w[theta symbolic]")
def _get2dw(t):
    t.mode = "theta symbolic in (0,180) minus {90}; trig via u = tan(theta/2) and two assumed identities"
    deg = t.inp("deg", InReal("deg"))
    t.assume(deg > 0, deg < 180, deg != 90)
    u = _trig_2d(t, deg)
    paths = t.run(UT, "get_2d_w", [deg])
    t.must_fail()
    t.cover("acute-branch-reachable", [deg < 90])
    t.cover("obtuse-branch-reachable", [deg > 90])
    t.no_raise(paths)
    x, y = z3.Real("x"), z3.Real("y")

    def unit(p):
        W = p.value
        if not isinstance(W, L.SArr) or W.shape != (2, 2):
            return False
        return z3.And(*[V.R(W.a[i, 0]) * V.R(W.a[i, 0]) + V.R(W.a[i, 1]) * V.R(W.a[i, 1]) == 1 for i in range(2)])

    def within(p):
        W = p.value
        inside = z3.And(*[V.R(W.a[i, 0]) * x + V.R(W.a[i, 1]) * y >= 0 for i in range(2)])
        # angle(x, diagonal) <= theta/2  <=>  x+y >= 0 and (x+y)^2 (1+u^2) >= 2 (x^2+y^2)   [cos^2(theta/2) = 1/(1+u^2)]
        spec = z3.And(x + y >= 0, (x + y) * (x + y) * (1 + u * u) >= 2 * (x * x + y * y))
        return inside == spec

    def mirror(p):
        W = p.value
        # second facet is the first mirrored in the diagonal (up to the sign convention of the branch)
        return z3.Or(z3.And(V.R(W.a[1, 0]) == V.R(W.a[0, 1]), V.R(W.a[1, 1]) == V.R(W.a[0, 0])),
                     z3.And(V.R(W.a[1, 0]) == -V.R(W.a[0, 1]), V.R(W.a[1, 1]) == -V.R(W.a[0, 0])))
    t.prove_paths("rows_unit", paths, unit)
    t.prove_paths("facets_symmetric_about_diagonal", paths, mirror)
    t.prove_paths("inside_iff_within_half_angle_of_diagonal", paths, within)
    t.implicit()


@task("C12", "ConeTheta2D.__init__")
def _conetheta(t):
    use_alpha_vec_contract(t)
    deg = t.inp("deg", InReal("deg"))
    t.assume(deg > 0, deg < 180, deg != 90)
    obj = SObj(cls_ref(CONE, "ConeTheta2D"))
    # call by contract: get_2d_w verified above; here only the data flow W = get_2d_w(cone_degree)
    marker = L.fresh_array("w2d", (2, 2))
    seen = []

    def c_get2dw(ex, st, self_val, args, kwargs, node):
        seen.append(args[0])
        return [(st, marker)]
    t.contracts[UT + "::get_2d_w"] = c_get2dw
    paths = t.run(CONE, "ConeTheta2D.__init__", [deg], self_val=obj)
    t.no_raise(paths)

    def goal(p):
        o = find_self(p, obj)
        W = o.fields["W"]
        same = z3.And(*[V.Z(V.eq(a, b)) for a, b in zip(W.flat(), marker.flat())])
        return z3.And(same, z3.BoolVal(len(seen) >= 1 and seen[0] is deg), V.Z(V.eq(o.fields["cone_degree"], deg)), z3.BoolVal(o.fields["dim"] == 2))
    t.prove_paths("W_is_get_2d_w_of_the_given_angle", paths, goal)


def _icecream(K, tier="quick"):
    @task("C12", "ice_cream_cone[K=%d]" % K, tier=tier)
    def _t(t):
        t.mode = "K=%d unrolled, half-angle symbolic; sin^2+cos^2=1 at the K facet angles, sin(pi/4)=cos(pi/4)=1/sqrt2 assumed" % K
        theta = t.inp("theta", InReal("theta"))
        t.assume(theta > 0, theta < 90)
        obj = SObj(cls_ref(ORD, "ConeOrder3DIceCream"))
        # assumed trigonometric facts (named)
        delta = 2 * L.PI / K
        for i in range(K):
            ang = V.R(i) * delta
            t.axiom("sin^2 + cos^2 = 1 (facet angle %d)" % i, L.SIN(ang) * L.SIN(ang) + L.COS(ang) * L.COS(ang) == 1)
        q = L.PI / 4
        t.axiom("sin(pi/4) = cos(pi/4) = 1/sqrt(2)", z3.And(L.SIN(q) == L.COS(q), L.SIN(q) > 0, 2 * L.SIN(q) * L.SIN(q) == 1))
        paths = t.run(ORD, "ConeOrder3DIceCream.compute_ice_cream_cone", [K, theta], self_val=obj)
        t.must_fail()
        t.no_raise(paths)
        # r = cot(theta) = tan(pi/2 - theta): opaque radius term
        r = L.TAN(L.PI / 2 - (V.R(theta) * L.PI / 180))
        s2 = L.SIN(q)  # 1/sqrt2
        # axis = R e_z with the Rodrigues matrix for rotation by pi/4 about (-1/sqrt2, 1/sqrt2, 0):
        # R e_z = (sin(pi/4)*(1/sqrt2)..., ) -- rather than trusting a hand formula we state tangency as
        # "all facets have the SAME inner product with a common unit vector a, equal to 1/sqrt(r^2+1)",
        # with a = (1/2, 1/2, 1/sqrt2) rotated image of e_z (checked to be unit below).
        a = [z3.RealVal(1) / 2, z3.RealVal(1) / 2, s2]

        # The returned rows are num_i / sqrt(sumsq_i).  The proof is cut into polynomial identities about
        # the numerators (A: |num_i|^2 = r^2+1, C: num_i . axis = 1, D: sumsq_i is |num_i|^2) and one
        # generic algebra lemma (B) that turns A, C, D into "unit" and "tangent"; together they give the
        # property for the real returned array.
        if len(paths) != 1 or paths[0].kind != "return" or not isinstance(paths[0].value, L.SArr) or paths[0].value.shape != (K, 3):
            t.prove("single_return_path_with_Kx3_array", False)
            return
        W = paths[0].value
        y2 = L._SQRT(z3.RealVal(2))
        # cut: sin(pi/4) * sqrt(2) = 1 follows from the two defining facts (proved, then used as a hypothesis)
        t.prove("lemma_sin_pi_4_times_sqrt2_is_1", z3.Implies(z3.And(2 * s2 * s2 == 1, s2 > 0, y2 * y2 == 2, y2 >= 0), s2 * y2 == 1), use_pre=False)
        pc = list(paths[0].pc) + [s2 * y2 == 1]
        for i in range(K):
            ents = [V.R(W.a[i, j]) for j in range(3)]
            ok = all(z3.is_app(e) and e.decl().kind() == z3.Z3_OP_DIV for e in ents)
            dens = [e.children()[1] for e in ents] if ok else []
            ok = ok and all(d.eq(dens[0]) for d in dens) and z3.is_app(dens[0]) and dens[0].decl().name() == "np_sqrt"
            if not ok:
                t.prove("facet_%d_row_is_numerator_over_norm" % i, False)
                continue
            nums = [e.children()[0] for e in ents]
            sumsq = dens[0].children()[0]
            t.prove("facet_%d/D_normalised_by_own_norm" % i, sumsq == sum(x * x for x in nums), assumptions=pc)
            t.prove("facet_%d/A_rotation_preserves_length" % i, sum(x * x for x in nums) == r * r + 1, assumptions=pc, timeout_ms=60000)
            t.prove("facet_%d/C_inner_product_with_axis_is_1" % i, sum(x * y for x, y in zip(nums, a)) == 1, assumptions=pc, timeout_ms=60000)
        t.prove("axis_is_unit", sum(x * x for x in a) == 1)
        # B: generic algebra
        N = S.reals("N", 3)
        n, rr = z3.Real("n"), z3.Real("rr")
        A3 = S.reals("ax", 3)
        hyp = z3.And(n >= 0, n * n == sum(x * x for x in N), sum(x * x for x in N) == rr * rr + 1, sum(x * y for x, y in zip(N, A3)) == 1)
        ipn = sum((x / n) * y for x, y in zip(N, A3))
        t.prove("B_unit_from_A_D", z3.Implies(hyp, sum((x / n) * (x / n) for x in N) == 1), use_pre=False)
        t.prove("B_tangent_from_A_C_D", z3.Implies(hyp, z3.And(ipn > 0, ipn * ipn * (rr * rr + 1) == 1)), use_pre=False)
        t.implicit()
    return _t


# Not claimed: the identity A (|R w_i|^2 = r^2+1 through the Rodrigues matrix) is left open by z3 and cvc5
# within the budget (C, D and B discharge).  The tasks stay registered under a tier no check runs; the clause is
# covered by the bounded stand-in standins/c12_icecream.py and listed under not_decided.
_icecream(3, tier="experimental")
