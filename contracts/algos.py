"""Set-level state of the algorithm classes and the call-site contracts of the region predicates.

Regions are opaque: `reg(i)` is the region currently displayed for design i; the three predicates are
uninterpreted functions standing for the results of the real predicates (whose geometric meaning is
proved in C09/C10/C11).  A contract over these symbols therefore quantifies over every region
configuration and every answer pattern of the predicates.
"""
import z3

from pyvc import setmode as SM
from pyvc import values as V
from pyvc.harness import cls_ref
from pyvc.values import Opaque, SObj, Unsupported

I = z3.IntSort()
REGION = z3.DeclareSort("Region")
ORDER = z3.DeclareSort("Order")
SLACK = z3.DeclareSort("Slack")
REGARR = z3.ArraySort(I, REGION)
slack_num = z3.Function("slack_num", z3.RealSort(), SLACK)
DOM = z3.Function("DOM", ORDER, REGION, REGION, SLACK, z3.BoolSort())
COV = z3.Function("COV", ORDER, REGION, REGION, SLACK, z3.BoolSort())
CHK = z3.Function("CHK", ORDER, REGION, REGION, z3.BoolSort())
depth = z3.Function("depth", I, I)

CRF = "vopy/confidence_region.py"

ALGOS = {
    "PaVeBa": "vopy/algorithms/paveba.py",
    "PaVeBaGP": "vopy/algorithms/paveba_gp.py",
    "PaVeBaPartialGP": "vopy/algorithms/paveba_partial_gp.py",
    "VOGP": "vopy/algorithms/vogp.py",
    "VOGP_AD": "vopy/algorithms/vogp_ad.py",
    "EpsilonPAL": "vopy/algorithms/epal.py",
    "Auer": "vopy/algorithms/auer.py",
}


def enc_slack(x):
    if isinstance(x, Opaque) and x.kind == "Slack":
        return x.term
    if V.is_num(x):
        return slack_num(V.R(x))
    raise Unsupported("slack argument %r" % (x,))


def enc(x, kind):
    if isinstance(x, Opaque) and x.kind == kind:
        return x.term
    raise Unsupported("expected an opaque %s, got %r" % (kind, x))


def install_predicate_contracts(t):
    """Call sites of the three region predicates see only: result == UF(order, region1, region2[, slack]);
    the callee is pure (frame: nothing)."""
    def c_dom(ex, st, self_val, args, kwargs, node):
        return [(st, DOM(enc(args[0], "Order"), enc(args[1], "Region"), enc(args[2], "Region"), enc_slack(args[3])))]

    def c_cov(ex, st, self_val, args, kwargs, node):
        return [(st, COV(enc(args[0], "Order"), enc(args[1], "Region"), enc(args[2], "Region"), enc_slack(args[3])))]

    def c_chk(ex, st, self_val, args, kwargs, node):
        return [(st, CHK(enc(args[0], "Order"), enc(args[1], "Region"), enc(args[2], "Region")))]

    t.contracts[CRF + "::confidence_region_is_dominated"] = c_dom
    t.contracts[CRF + "::confidence_region_is_covered"] = c_cov
    t.contracts[CRF + "::confidence_region_check_dominates"] = c_chk
    t.trusted.add("callee-contract: confidence_region_is_dominated/is_covered/check_dominates are pure functions of (order, region1, region2, slack) (meaning: C09/C10/C11)")


class AlgoState:
    def __init__(self, t, name, with_U=True):
        self.t = t
        self.name = name
        ctx = t.ctx
        self.N = z3.Int("N")
        self.S0 = z3.Const("S0", SM.SETSORT)
        self.P0 = z3.Const("P0", SM.SETSORT)
        self.U0 = z3.Const("U0", SM.SETSORT)
        self.REG0 = z3.Const("REG0", REGARR)  # regions currently displayed: design index -> region
        self.order = z3.Const("order", ORDER)
        self.eps = z3.Real("eps")
        self.alpha_eps = z3.Const("cone_alpha_eps", SLACK)
        self.ustar_eps = z3.Const("u_star_eps", SLACK)
        self.maxd = z3.Int("max_depth")
        self.enable0 = z3.Bool("enable0")
        self.round0 = z3.Int("round0")
        self.count0 = z3.Int("sample_count0")
        self.S = SM.SSet(self.S0, ctx, "S")
        self.P = SM.SSet(self.P0, ctx, "P")
        self.U = SM.SSet(self.U0, ctx, "U")
        regions = RegionList(self.REG0, self.N)
        ds_fields = {"confidence_regions": regions, "cardinality": self.N,
                     "point_depths": ScalarMap(depth, self.N)}
        self.ds = SObj("DesignSpaceStub", ds_fields, tag="ds")
        fields = {
            "S": self.S, "P": self.P, "order": Opaque("Order", self.order), "epsilon": self.eps,
            "design_space": self.ds, "round": self.round0, "sample_count": self.count0,
            "cone_alpha_eps": Opaque("Slack", self.alpha_eps), "u_star_eps": Opaque("Slack", self.ustar_eps),
            "max_discretization_depth": self.maxd, "enable_epsilon_covering": self.enable0,
        }
        if with_U:
            fields["U"] = self.U
        self.obj = SObj(cls_ref(ALGOS[name], name), fields, tag="self")
        self.fields0 = dict(fields)   # entry values (a run mutates the object's fields in place)
        e = z3.Int("e!q")
        rng = lambda m: z3.ForAll([e], z3.Implies(z3.Select(m, e), z3.And(0 <= e, e < self.N)))
        # class validity: index ranges, S and P disjoint, U inside P
        t.assume(self.N >= 0, rng(self.S0), rng(self.P0), rng(self.U0),
                 z3.ForAll([e], z3.Not(z3.And(z3.Select(self.S0, e), z3.Select(self.P0, e)))),
                 z3.ForAll([e], z3.Implies(z3.Select(self.U0, e), z3.Select(self.P0, e))),
                 self.eps >= 0, self.round0 >= 0, self.count0 >= 0)

    def reg(self, i):
        return z3.Select(self.REG0, i)

    def final(self, p):
        """(S', P', U') membership arrays, and the live self object, on a path."""
        from pyvc.symexec import find_obj
        o = find_obj(p.st, self.obj.oid)
        S = o.fields["S"].mem
        P = o.fields["P"].mem
        U = o.fields["U"].mem if "U" in o.fields else self.U0
        return S, P, U, o


class RegionList:
    """design_space.confidence_regions: element i is the opaque region arr[i] (arr is part of the state)."""

    def __init__(self, arr, n, attrs=None):
        self.arr = arr
        self.n = n
        self.attrs = attrs

    def getitem(self, ex, st, idx):
        i = V.Z(idx)
        ex.ctx.obligation("no-raise:IndexError", z3.And(i >= 0, i < self.n))
        t = z3.Select(self.arr, i)
        return Opaque("Region", t, self.attrs(t) if self.attrs else None)

    def length(self, ex, st):
        return self.n

    def clone(self, memo):
        return RegionList(self.arr, self.n, self.attrs)


class ScalarMap:
    """list-like map design index -> integer term (point_depths)."""

    def __init__(self, fn, n):
        self.fn = fn
        self.n = n

    def getitem(self, ex, st, idx):
        i = V.Z(idx)
        ex.ctx.obligation("no-raise:IndexError", z3.And(i >= 0, i < self.n))
        return self.fn(i)

    def clone(self, memo):
        return self


def same_set(a, b):
    e = z3.Int("e!q")
    return z3.ForAll([e], z3.Select(a, e) == z3.Select(b, e))


def set_is(a, pred):
    """forall e. a[e] <=> pred(e)."""
    e = z3.Int("e!q")
    return z3.ForAll([e], z3.Select(a, e) == pred(e))


# ----------------------------------------------------------------------------------------------
# transitions: obligations + replay of (candidate) counter-models on the real methods
# ----------------------------------------------------------------------------------------------


def transition(t, A, paths, method, clause, S=None, P=None, U=None, result=None, enable=None, consumers=()):
    """State the exact set transition of a method.  Each of S/P/U is a predicate e -> z3 Bool giving the
    expected final membership (None = unchanged); `result` likewise for a returned set; `enable` the
    expected final value of VOGP_AD's latch.  Also arms the finite candidate search + real-code replay.

    Besides the exact transition (what C02/C03 state), the weaker one-directional facts that OTHER properties consume
    are stated as obligations of their own, so that those properties' checks can depend on exactly what their
    lemmas use (and a change that keeps them while breaking the exact transition is not reported there):
      mono/...      monotonicity facts used by the step composition of C06
      <name>        every (name, fn) of `consumers`, fn(S', P', U', result_membership_or_None) -> formula."""
    from pyvc import finite, setmode as SM

    olds = {"S": A.S0, "P": A.P0, "U": A.U0}
    preds = {"S": S, "P": P, "U": U}
    exp = {k: (preds[k] if preds[k] is not None else (lambda e, k=k: z3.Select(olds[k], e))) for k in preds}

    def builder(m):
        return _setlevel_replay(t, A, m, method, exp, result, enable)

    t.finite = {"N": A.N, "replay": builder}
    for k, idx in (("S", 0), ("P", 1), ("U", 2)):
        if k == "U" and "U" not in A.obj.fields:
            continue
        t.prove_paths("%s/%s'" % (clause, k), paths, lambda p, k=k, idx=idx: set_is(A.final(p)[idx], exp[k]))
    if result is not None:
        t.prove_paths("%s/result" % clause, paths,
                      lambda p: set_is(p.value.mem, result) if p.kind == "return" and isinstance(p.value, SM.SSet) else False)
    if enable is not None:
        t.prove_paths("%s/latch" % clause, paths, lambda p: V.Bz(A.final(p)[3].fields["enable_epsilon_covering"]) == enable)
    e = z3.Int("e!q")
    has_U = "U" in A.obj.fields
    t.prove_paths("mono/S_only_shrinks", paths, lambda p: z3.ForAll([e], z3.Implies(z3.Select(A.final(p)[0], e), z3.Select(A.S0, e))))
    t.prove_paths("mono/P_only_grows", paths, lambda p: z3.ForAll([e], z3.Implies(z3.Select(A.P0, e), z3.Select(A.final(p)[1], e))))
    t.prove_paths("mono/S_and_P_stay_disjoint", paths, lambda p: z3.ForAll([e], z3.Not(z3.And(z3.Select(A.final(p)[0], e), z3.Select(A.final(p)[1], e)))))
    t.prove_paths("mono/a_design_enters_P_only_from_S", paths, lambda p: z3.ForAll([e], z3.Implies(z3.Select(A.final(p)[1], e), z3.Or(z3.Select(A.P0, e), z3.Select(A.S0, e)))))
    if has_U:
        t.prove_paths("mono/U_stays_inside_P", paths, lambda p: z3.ForAll([e], z3.Implies(z3.Select(A.final(p)[2], e), z3.Select(A.final(p)[1], e))))

    def _res(p):
        return p.value.mem if p.kind == "return" and isinstance(p.value, SM.SSet) else None
    for cname, fn in consumers:
        t.prove_paths(cname, paths, lambda p, fn=fn: fn(A.final(p)[0], A.final(p)[1], A.final(p)[2], _res(p)))
    t.finite = None


def _setlevel_replay(t, A, m, method, exp, result, enable):
    from pyvc import finite

    n = t.finite.get("n") if t.finite else None
    if n is None:
        nv = m.eval(A.N, model_completion=True)
        n = nv.as_long()
    dom = list(range(-1, n + 1))
    ev = lambda e: m.eval(finite.expand(e, dom), model_completion=True)
    tb = lambda e: z3.is_true(ev(e))
    rng = range(n)
    mem = lambda arr: sorted(k for k in rng if tb(z3.Select(arr, k)))
    epsv = ev(A.eps)
    epsf = float(epsv.numerator_as_long()) / float(epsv.denominator_as_long())
    slacks = {"num0": slack_num(0), "numeps": slack_num(A.eps), "alpha": A.alpha_eps, "ustar": A.ustar_eps}
    tabs = {"DOM": {}, "COV": {}, "CHK": {}}
    for i in rng:
        for j in rng:
            tabs["CHK"][(i, j)] = tb(CHK(A.order, A.reg(i), A.reg(j)))
            for sk, stm in slacks.items():
                tabs["DOM"][(sk, i, j)] = tb(DOM(A.order, A.reg(i), A.reg(j), stm))
                tabs["COV"][(sk, i, j)] = tb(COV(A.order, A.reg(i), A.reg(j), stm))
    expected = {k: sorted(kk for kk in rng if tb(exp[k](z3.IntVal(kk)))) for k in exp}
    exp_res = sorted(kk for kk in rng if tb(result(z3.IntVal(kk)))) if result is not None else None
    exp_en = tb(enable) if enable is not None else None
    depths = [ev(depth(z3.IntVal(k))).as_long() for k in rng]
    mod = ALGOS[A.name][:-3].replace("/", ".")
    L = []
    L.append("import %s as M" % mod)
    L.append("N = %d; EPS = %r" % (n, epsf))
    L.append("class Reg:\n    def __init__(self, i): self.i = i")
    L.append("class DS: pass")
    L.append("ds = DS(); ds.confidence_regions = [Reg(i) for i in range(N)]; ds.cardinality = N; ds.point_depths = %r" % (depths,))
    L.append("class Mark:\n    def __init__(self, n): self.n = n")
    L.append("ALPHA = Mark('alpha'); USTAR = Mark('ustar')")
    L.append("DOMT = %r\nCOVT = %r\nCHKT = %r" % (tabs["DOM"], tabs["COV"], tabs["CHK"]))
    L.append("def skey(s):\n    if isinstance(s, Mark): return s.n\n    v = float(s)\n    if abs(v) < 1e-12: return 'num0'\n    if abs(v - EPS) < 1e-12: return 'numeps'\n    raise KeyError('slack %r not in the counter-model' % (s,))")
    L.append("if hasattr(M, 'confidence_region_is_dominated'): M.confidence_region_is_dominated = lambda o, r1, r2, s: DOMT[(skey(s), r1.i, r2.i)]")
    L.append("if hasattr(M, 'confidence_region_is_covered'): M.confidence_region_is_covered = lambda o, r1, r2, s: COVT[(skey(s), r1.i, r2.i)]")
    L.append("if hasattr(M, 'confidence_region_check_dominates'): M.confidence_region_check_dominates = lambda o, r1, r2: CHKT[(r1.i, r2.i)]")
    L.append("a = object.__new__(M.%s)" % A.name)
    L.append("a.S = set(%r); a.P = set(%r); a.U = set(%r)" % (mem(A.S0), mem(A.P0), mem(A.U0)))
    L.append("a.order = 'order'; a.epsilon = EPS; a.design_space = ds; a.cone_alpha_eps = ALPHA; a.u_star_eps = USTAR")
    L.append("a.max_discretization_depth = %d; a.enable_epsilon_covering = %r; a.round = %d; a.sample_count = %d" % (
        ev(A.maxd).as_long(), tb(A.enable0), ev(A.round0).as_long(), ev(A.count0).as_long()))
    L.append("try:\n    res = a.%s()\n    out = 'return'\nexcept Exception as e:\n    res = None; out = 'raise ' + type(e).__name__ + ': ' + str(e)" % method)
    L.append("got = {'S': sorted(a.S), 'P': sorted(a.P), 'U': sorted(getattr(a, 'U', set()))}")
    L.append("exp = %r" % (expected,))
    L.append("print('INPUT  S={} P={} U={}')".format(mem(A.S0), mem(A.P0), mem(A.U0)))
    L.append("print('REAL  ', out, got, 'result=', sorted(res) if isinstance(res, (set, list)) else res)")
    L.append("print('SPEC  ', exp, 'result=', %r, 'latch=', %r)" % (exp_res, exp_en))
    L.append("bad = out != 'return' or any(got[k] != exp[k] for k in exp if not (k == 'U' and not hasattr(a, 'U')))")
    if exp_res is not None:
        L.append("bad = bad or (sorted(res) != %r)" % (exp_res,))
    if exp_en is not None:
        L.append("bad = bad or (bool(a.enable_epsilon_covering) != %r)" % (exp_en,))
    L.append("if bad:\n    print('REPLAY-CONFIRMED obligation=%s (real method deviates from the specified transition)' % OBLIGATION)\n    raise SystemExit(1)")
    L.append("print('REPLAY-NOT-REPRODUCED obligation=%s' % OBLIGATION)\nraise SystemExit(4)")
    return L


# ----------------------------------------------------------------------------------------------
# the specified transitions as functions of the state arrays (shared by the method-level proofs of
# C02/C03 and by the call-site contracts used when run_one_step is verified in C06)
# ----------------------------------------------------------------------------------------------

_q = z3.Int("q!w")
_s = z3.Int("s!w")


def _nocapture(fn):
    """The specification predicates bind _q / _s internally: applying them to those very variables would capture."""
    def g(x):
        if z3.is_expr(x):
            seen, stack = set(), [x]
            while stack:
                e_ = stack.pop()
                if e_.get_id() in seen:
                    continue
                seen.add(e_.get_id())
                if e_.eq(_q) or e_.eq(_s):
                    raise ValueError("specification predicate applied to a term mentioning its own bound variable %s (variable capture)" % e_)
                stack.extend(e_.children())
        return fn(x)
    return g


class Specs:
    def __init__(self, A):
        self.A = A

    def slack(self, name):
        A = self.A
        return {"PaVeBa": A.alpha_eps, "PaVeBaGP": A.alpha_eps, "PaVeBaPartialGP": A.alpha_eps,
                "VOGP": A.ustar_eps, "VOGP_AD": A.ustar_eps, "EpsilonPAL": slack_num(A.eps)}[name]

    # --- C02
    def cert_paveba(self, S, U, REG):
        A = self.A
        act = lambda e: z3.Or(z3.Select(S, e), z3.Select(U, e))
        return _nocapture(lambda p: z3.Exists([_q], z3.And(act(_q), _q != p, DOM(A.order, z3.Select(REG, p), z3.Select(REG, _q), slack_num(0)))))

    def pess(self, S, P, REG):
        A = self.A
        W = lambda e: z3.Or(z3.Select(S, e), z3.Select(P, e))
        return _nocapture(lambda p: z3.And(W(p), z3.Not(z3.Exists([_q], z3.And(W(_q), _q != p, CHK(A.order, z3.Select(REG, _q), z3.Select(REG, p)))))))

    def cert_vogp(self, PS, REG, sl):
        A = self.A
        return _nocapture(lambda p: z3.And(z3.Not(z3.Select(PS, p)),
                                           z3.Exists([_q], z3.And(z3.Select(PS, _q), DOM(A.order, z3.Select(REG, p), z3.Select(REG, _q), sl)))))

    # --- C03
    def new(self, S, WIT, REG, sl):
        """p in S that no other member of the witness set can still cover."""
        A = self.A
        wit = lambda e: z3.Or(*[z3.Select(w, e) for w in WIT])
        coverable = lambda p: z3.Exists([_q], z3.And(wit(_q), _q != p, COV(A.order, z3.Select(REG, p), z3.Select(REG, _q), sl)))
        return _nocapture(lambda e: z3.And(z3.Select(S, e), z3.Not(coverable(e))))

    def useful(self, S, P, REG, sl):
        A = self.A
        return _nocapture(lambda p: z3.And(z3.Select(P, p), z3.Exists([_s], z3.And(z3.Select(S, _s), COV(A.order, z3.Select(REG, _s), z3.Select(REG, p), sl)))))

    def gate_open(self, S, enable):
        A = self.A
        return z3.Or(enable, z3.ForAll([_s], z3.Implies(z3.Select(S, _s), depth(_s) == A.maxd)))


# ----------------------------------------------------------------------------------------------
# Bounded structural cross-check of the set-level proofs (thorough tier; also the fall-back when a changed body leaves the
# set-level subset): the real method is executed WITHOUT loop summaries on every configuration of N = 3 designs (concrete
# Python sets, every S/P/U assignment that is class-valid), the region predicates still uninterpreted, and the final sets
# are compared with the same specification predicates instantiated on that configuration.  Labelled bounded: it confirms
# the derived loop summaries of pyvc/setmode.py on small universes, it is never counted as a proof.
# ----------------------------------------------------------------------------------------------
def unrolled_transition(t, A, relpath, qualname, clause, S=None, P=None, U=None, result=None, N=3, without_contracts=(), enable=None):
    import itertools
    from pyvc import finite
    from pyvc.libcalls import ConcSet
    from pyvc.symexec import find_obj

    dom = list(range(-1, N + 1))
    has_U = "U" in A.obj.fields

    def arr_of(members):
        a = z3.K(I, z3.BoolVal(False))
        for k in members:
            a = z3.Store(a, z3.IntVal(k), z3.BoolVal(True))
        return a
    labels = "SPUN" if has_U else "SPN"
    n_cfg = 0
    goals_all = []
    for lab in itertools.product(labels, repeat=N):
        S0c = [k for k in range(N) if lab[k] == "S"]
        P0c = [k for k in range(N) if lab[k] in "PU"]
        U0c = [k for k in range(N) if lab[k] == "U"]
        n_cfg += 1
        sub = [(A.S0, arr_of(S0c)), (A.P0, arr_of(P0c)), (A.U0, arr_of(U0c)), (A.N, z3.IntVal(N))]
        fields = dict(A.fields0)
        fields.update({k: v for k, v in A.obj.fields.items() if k not in fields})
        fields["S"], fields["P"] = ConcSet(S0c), ConcSet(P0c)
        if has_U:
            fields["U"] = ConcSet(U0c)
        ds = SObj("DesignSpaceStub", {"confidence_regions": RegionList(A.REG0, z3.IntVal(N)), "cardinality": N,
                                      "point_depths": ScalarMap(depth, z3.IntVal(N))}, tag="ds")
        fields["design_space"] = ds
        obj = SObj(A.obj.cls, fields, tag="self")
        saved_pre = list(t.pre)
        t.pre = [z3.simplify(z3.substitute(f, *sub)) for f in saved_pre]
        removed = {k: t.contracts.pop(k) for k in without_contracts if k in t.contracts}
        try:
            paths = t.run(relpath, qualname, [], self_val=obj, setmode=False)
        finally:
            t.pre = saved_pre
            t.contracts.update(removed)
        exp = {"S": S, "P": P, "U": U}
        olds = {"S": S0c, "P": P0c, "U": U0c}
        for p in paths:
            if p.kind != "return":
                goals_all.append(z3.Implies(p.cond(), z3.BoolVal(False)))
                continue
            o = find_obj(p.st, obj.oid)
            cs = []
            for key in ("S", "P", "U"):
                if key == "U" and not has_U:
                    continue
                fin = o.fields[key]
                got = set(fin.vals) if isinstance(fin, ConcSet) else None
                if got is None:
                    cs.append(z3.BoolVal(False))
                    continue
                for k in range(N):
                    if exp[key] is None:
                        cs.append(z3.BoolVal((k in got) == (k in olds[key])))
                    else:
                        want = finite.expand(z3.substitute(exp[key](z3.IntVal(k)), *sub), dom)
                        cs.append(z3.BoolVal(k in got) == want)
            if result is not None:
                got = set(p.value.vals) if isinstance(p.value, ConcSet) else (set(p.value) if isinstance(p.value, (list, set)) else None)
                for k in range(N):
                    want = finite.expand(z3.substitute(result(z3.IntVal(k)), *sub), dom)
                    cs.append((z3.BoolVal(k in got) == want) if got is not None else z3.BoolVal(False))
            if enable is not None:
                cs.append(V.Bz(o.fields["enable_epsilon_covering"]) == finite.expand(z3.substitute(enable, *sub), dom))
            goals_all.append(z3.Implies(p.cond(), z3.And(*cs)))
    t.trusted.add("bounded cross-check: N = 3 designs, all %d class-valid S/P/U configurations, predicate answers symbolic" % n_cfg)
    t.prove("%s[bounded: every configuration of %d designs, no loop summaries]" % (clause, N), z3.And(*goals_all), use_pre=False, kind="bounded")
