"""Shared specification vocabulary (DESIGN.md section 3): mathematical definitions over z3 reals."""
import itertools

import z3

from pyvc import values as V


def R(x):
    return V.R(x)


def dot(u, v):
    assert len(u) == len(v)
    acc = None
    for a, b in zip(u, v):
        t = R(a) * R(b)
        acc = t if acc is None else acc + t
    return acc if acc is not None else z3.RealVal(0)


def vsub(a, b):
    return [R(x) - R(y) for x, y in zip(a, b)]


def vadd(a, b):
    return [R(x) + R(y) for x, y in zip(a, b)]


def dom(Wrows, a, b):
    """a dominates b (weakly) in the cone {x | W x >= 0}."""
    d = vsub(a, b)
    return z3.And(*[dot(w, d) >= 0 for w in Wrows]) if Wrows else z3.BoolVal(True)


def in_box(z, lo, up):
    return z3.And(*[z3.And(R(l) <= R(x), R(x) <= R(u)) for x, l, u in zip(z, lo, up)])


def verts(lo, up):
    """Vertices in itertools.product order (lower first)."""
    return [list(t) for t in itertools.product(*[[l, u] for l, u in zip(lo, up)])]


def reals(prefix, n):
    return [z3.Real("%s_%d" % (prefix, i)) for i in range(n)]


def broadcast_slack(s, m):
    """Slack as an objective-space vector: scalar -> (s,...,s)."""
    if isinstance(s, (list, tuple)):
        if len(s) == 1:
            return [s[0]] * m
        return list(s)
    return [s] * m


def rows_of(inorder):
    return [inorder.row(k) for k in range(inorder.K)]
