"""C09 / C10 / C11 -- the module-level helpers the algorithms actually call: confidence_region_is_dominated / is_covered /
check_dominates dispatch on the type of the FIRST region to the class method, with the four arguments in the same order,
and raise NotImplementedError for anything else.  (The class methods themselves are the C09 / C10 / C11 tasks; the
algorithms' contracts use these helpers through call-site contracts.)  Also: RectangularConfidenceRegion.center and the two
region constructors' defaults."""
import z3

from pyvc.harness import InArr, InEll, InOrder, InReal, InRect, task, cls_ref
from pyvc import libmodel as L
from pyvc import values as V
from pyvc.values import SObj

CR = "vopy/confidence_region.py"
HELPERS = {"confidence_region_is_dominated": ("C09", "is_dominated", True), "confidence_region_is_covered": ("C10", "is_covered", True),
           "confidence_region_check_dominates": ("C11", "check_dominates", False)}


def _dispatch(helper, kind):
    prop, meth, has_slack = HELPERS[helper]

    @task(prop, "%s[dispatch,%s]" % (helper, kind))
    def _t(t):
        t.mode = "regions of kind %s; the class methods are called by contract (recorded)" % kind
        m = 2
        order = t.inp("order", InOrder("o", 2, m))
        mk = (lambda n: InRect(n, m)) if kind == "rect" else (lambda n: InEll(n, m))
        r1, r2 = t.inp("r1", mk("r1")), t.inp("r2", mk("r2"))
        s = t.inp("s", InArr("s", (m,)))
        calls = []
        res = z3.Bool("class_method_result")

        def rec(name):
            def c(ex, st, self_val, args, kwargs, node):
                calls.append((name, list(args), dict(kwargs)))
                return [(st, res)]
            return c
        for cls in ("RectangularConfidenceRegion", "EllipsoidalConfidenceRegion"):
            t.contracts[CR + "::" + cls + "." + meth] = rec(cls)
        args = [order, r1, r2] + ([s] if has_slack else [])
        paths = t.run(CR, helper, args)
        t.no_raise(paths)
        want_cls = "RectangularConfidenceRegion" if kind == "rect" else "EllipsoidalConfidenceRegion"

        def goal(p):
            if len(paths) != 1 or len(calls) != 1 or p.kind != "return":
                return False
            name, a, kw = calls[0]
            a = [x for x in a if not (hasattr(x, "node") and not isinstance(x, SObj))]   # (a class object passed as cls)
            flat = list(a) + [kw[k] for k in kw]
            objs = [x for x in flat if isinstance(x, (SObj, L.SArr))]
            ok = name == want_cls and len(objs) == len(args) and all(x is y for x, y in zip(objs, args))
            return z3.And(z3.BoolVal(ok), V.Bz(p.value) == res)
        t.prove_paths("dispatches_to_the_first_regions_class_with_the_same_arguments_in_order_and_returns_its_answer", paths, goal)
    return _t


def _dispatch_bad(helper):
    prop, meth, has_slack = HELPERS[helper]

    @task(prop, "%s[dispatch,unknown region type]" % helper)
    def _t(t):
        order = t.inp("order", InOrder("o", 2, 2))
        r2 = t.inp("r2", InRect("r2", 2))
        other = SObj("SomethingElse", {})
        args = [order, other, r2] + ([0] if has_slack else [])
        paths = t.run(CR, helper, args)
        # (which exception class is raised is not part of any property: only that no answer is fabricated)
        t.prove("an_unknown_region_type_is_rejected_not_answered", z3.BoolVal(bool(paths) and all(p.kind == "raise" for p in paths)))
    return _t


for _h in HELPERS:
    _dispatch(_h, "rect")
    if _h != "confidence_region_check_dominates":
        _dispatch(_h, "ell")
    _dispatch_bad(_h)


@task("C14", "RectangularConfidenceRegion.center[m=2]")
def _center(t):
    r = t.inp("r", InRect("r", 2))
    R = t.inputs["r"]
    from pyvc.symexec import PyFunc
    paths = t.run(CR, "RectangularConfidenceRegion.center", [], self_val=r)
    t.no_raise(paths)
    lo, up = R.lower.snapshot.flat(), R.upper.snapshot.flat()
    t.prove_paths("centre_is_the_midpoint_of_the_bounds", paths,
                  lambda p: z3.And(*[2 * V.R(p.value.flat()[k]) == V.R(lo[k]) + V.R(up[k]) for k in range(2)]) if p.kind == "return" and isinstance(p.value, L.SArr) and p.value.shape == (2,) else False)


@task("C14", "EllipsoidalConfidenceRegion.__init__[defaults and given values]")
def _ell_init(t):
    m = 2
    c = t.inp("center", InArr("c", (m,)))
    sg = t.inp("sigma", InArr("sg", (m, m)))
    al = t.inp("alpha", InReal("al"))
    o1 = SObj(cls_ref(CR, "EllipsoidalConfidenceRegion"))
    p1 = t.run(CR, "EllipsoidalConfidenceRegion.__init__", [m, c, sg, al], self_val=o1)
    from pyvc.symexec import find_obj
    t.prove_paths("given_centre_covariance_and_radius_are_stored", p1,
                  lambda p: z3.BoolVal(find_obj(p.st, o1.oid).fields.get("center") is c and find_obj(p.st, o1.oid).fields.get("sigma") is sg) if p.kind == "return" else False)
    t.prove_paths("given_radius_is_stored", p1, lambda p: V.R(find_obj(p.st, o1.oid).fields.get("alpha")) == V.R(al) if p.kind == "return" else False)
    o2 = SObj(cls_ref(CR, "EllipsoidalConfidenceRegion"))
    p2 = t.run(CR, "EllipsoidalConfidenceRegion.__init__", [m], self_val=o2)

    def dflt(p):
        o = find_obj(p.st, o2.oid)
        cc, ss, aa = o.fields.get("center"), o.fields.get("sigma"), o.fields.get("alpha")
        if not isinstance(cc, L.SArr) or cc.shape != (m,) or not isinstance(ss, L.SArr) or ss.shape != (m, m):
            return False
        return z3.And(V.R(aa) == 1, *([V.R(x) == 0 for x in cc.flat()] + [V.R(ss.a[i, j]) == (1 if i == j else 0) for i in range(m) for j in range(m)]))
    t.prove_paths("default_is_the_unit_ball_at_the_origin", p2, dflt)
