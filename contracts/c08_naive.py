"""C08 -- NaiveElimination: the default per-design sample count is the PAC formula; P is the exact
Pareto set of the running means; sampling bookkeeping."""
from fractions import Fraction

import z3

from pyvc.harness import InArr, InConst, InInt, InReal, task, cls_ref
from pyvc import libmodel as L
from pyvc import values as V
from pyvc.values import Opaque, SObj
from pyvc.symexec import find_obj

NE = "vopy/algorithms/naive_elimination.py"
MP = "vopy/maximization_problem.py"


def dataset_contract(t, K, m, d=2):
    ind = L.fresh_array("in_data", (K, d))
    outd = L.fresh_array("out_data", (K, m))
    ds = SObj("DatasetStub", {"in_data": ind, "out_data": outd, "in_dim": d, "out_dim": m})

    def c(ex, st, self_val, args, kwargs, node):
        return [(st, ds)]
    t.contracts["vopy/datasets/dataset.py::get_dataset_instance"] = c
    t.trusted.add("callee-contract: get_dataset_instance returns a dataset with in_data (K,d), out_data (K,m)")
    return ds


def _L_formula(K, m):
    @task("C08", "NaiveElimination.__init__.default_L[K=%d,m=%d]" % (K, m))
    def _t(t):
        t.mode = "K=%d designs, m=%d objectives concrete; noise_var, epsilon, delta, beta symbolic" % (K, m)
        eps, delta, nv, beta = [t.inp(n, InReal(n)) for n in ("epsilon", "delta", "noise_var", "beta")]
        t.assume(eps > 0, delta > 0, delta < 1, nv > 0, beta >= 1)
        ds = dataset_contract(t, K, m)
        cone = SObj("ConeStub", {"beta": beta})
        order = SObj("OrderStub", {"ordering_cone": cone})
        obj = SObj(cls_ref(NE, "NaiveElimination"))
        paths = t.run(NE, "NaiveElimination.__init__", [eps, delta, "Test", order, nv], self_val=obj)
        t.must_fail()
        t.cover("variance-below-one", [nv < 1])
        t.cover("variance-above-one", [nv > 1])
        t.no_raise(paths)
        # the property's formula:  L = ceil(4 (c sigma beta / eps)^2 log(4m / (2 delta / (K(K-1))))),  sigma^2 = noise_var, c = 1 + sqrt 2
        sigma = z3.Real("sigma")
        s2 = L._SQRT(z3.RealVal(2))
        T = L.LOG(z3.RealVal(4 * m) / (2 * V.R(delta) / z3.RealVal(K * (K - 1))))
        x_spec = 4 * ((1 + s2) * sigma * V.R(beta) / V.R(eps)) * ((1 + s2) * sigma * V.R(beta) / V.R(eps)) * T
        kspec = z3.Int("L_spec")
        spec_facts = [sigma >= 0, sigma * sigma == V.R(nv), s2 >= 0, s2 * s2 == 2,
                      z3.ToReal(kspec) >= x_spec, z3.ToReal(kspec) < x_spec + 1]

        def goal(p):
            o = find_obj(p.st, obj.oid)
            Lc = o.fields["L"]
            return V.Z(Lc) == kspec
        t.prove_paths("default_L_is_the_theoretical_sample_count(sigma = sqrt(noise_var))", paths,
                      lambda p: z3.Implies(z3.And(*spec_facts), goal(p)), replay=L_replay(t, K, m))
        t.prove_paths("initial_state", paths, lambda p: z3.And(
            z3.BoolVal(find_obj(p.st, obj.oid).fields["samples"].shape == (K, 0, m)),
            V.Z(find_obj(p.st, obj.oid).fields["round"]) == 0, V.Z(find_obj(p.st, obj.oid).fields["sample_count"]) == 0,
            z3.BoolVal(find_obj(p.st, obj.oid).fields["K"] == K)))

        # the observations the L formula is sized for are the ones that will be drawn: the sampling problem is built on the same
        # dataset with noise covariance noise_var * I (its Cholesky factor C satisfies C C^T = noise_var I)
        def noise_goal(p):
            pr = find_obj(p.st, obj.oid).fields.get("problem")
            if not isinstance(pr, SObj):
                return z3.BoolVal(False)
            C = pr.fields.get("noise_cholesky")
            cs = [z3.BoolVal(pr.fields.get("dataset") is ds)]
            if isinstance(C, L.SArr) and C.shape == (m, m):
                for i in range(m):
                    for j in range(m):
                        cs.append(sum(V.R(C.a[i, k]) * V.R(C.a[j, k]) for k in range(m)) == (V.R(nv) if i == j else 0))
            else:
                cs.append(z3.BoolVal(False))
            return z3.And(*cs)
        t.prove_paths("sampling_problem_draws_noise_of_the_configured_variance_on_the_same_dataset", paths, noise_goal,
                      replay=noise_replay(t, K, m))
        t.implicit()
    return _t


def L_replay(t, K, m):
    def builder(mdl):
        me = lambda x: mdl.eval(V.Z(x), model_completion=True)
        from pyvc.harness import _num_src
        vals = {n: _num_src(me, t.inputs[n].sym) for n in ("epsilon", "delta", "noise_var", "beta")}
        return ["import math, types",
                "import vopy.algorithms.naive_elimination as M",
                "eps, delta, nv, beta = %s, %s, %s, %s" % (vals["epsilon"], vals["delta"], vals["noise_var"], vals["beta"]),
                "K, m = %d, %d" % (K, m),
                "ds = types.SimpleNamespace(in_data=np.zeros((K, 2)), out_data=np.zeros((K, m)), in_dim=2, out_dim=m)",
                "M.get_dataset_instance = lambda name: ds",
                "order = types.SimpleNamespace(ordering_cone=types.SimpleNamespace(beta=beta))",
                "a = M.NaiveElimination(eps, delta, 'stub', order, nv)",
                "spec = math.ceil(4 * ((1 + math.sqrt(2)) * math.sqrt(nv) * beta / eps) ** 2 * math.log(4 * m / (2 * delta / (K * (K - 1)))))",
                "print('noise_var', nv, 'eps', eps, 'delta', delta, 'beta', beta, ': library L =', int(a.L), ' formula with sigma = sqrt(noise_var):', spec)",
                "if int(a.L) != spec:",
                "    print('REPLAY-CONFIRMED obligation=%s' % OBLIGATION)", "    raise SystemExit(1)",
                "print('REPLAY-NOT-REPRODUCED obligation=%s' % OBLIGATION)", "raise SystemExit(4)"]
    return builder


def noise_replay(t, K, m):
    def builder(mdl):
        me = lambda x: mdl.eval(V.Z(x), model_completion=True)
        from pyvc.harness import _num_src
        vals = {n: _num_src(me, t.inputs[n].sym) for n in ("epsilon", "delta", "noise_var", "beta")}
        return ["import math, types",
                "import vopy.algorithms.naive_elimination as M",
                "eps, delta, nv, beta = %s, %s, %s, %s" % (vals["epsilon"], vals["delta"], vals["noise_var"], vals["beta"]),
                "K, m = %d, %d" % (K, m),
                "ds = types.SimpleNamespace(in_data=np.zeros((K, 2)), out_data=np.zeros((K, m)), in_dim=2, out_dim=m)",
                "M.get_dataset_instance = lambda name: ds",
                "order = types.SimpleNamespace(ordering_cone=types.SimpleNamespace(beta=beta))",
                "a = M.NaiveElimination(eps, delta, 'stub', order, nv)",
                "C = np.asarray(a.problem.noise_cholesky, dtype=float)",
                "print('configured noise_var', nv, ': the sampling problem draws noise with covariance'); print(C @ C.T)",
                "if a.problem.dataset is not ds or C.shape != (m, m) or not np.allclose(C @ C.T, nv * np.eye(m), rtol=1e-9, atol=1e-12):",
                "    print('REPLAY-CONFIRMED obligation=%s' % OBLIGATION)", "    raise SystemExit(1)",
                "print('REPLAY-NOT-REPRODUCED obligation=%s' % OBLIGATION)", "raise SystemExit(4)"]
    return builder


_L_formula(2, 2)
_L_formula(3, 2)
_L_formula(5, 3)


class EvalStub:
    def __init__(self, K, m):
        self.K, self.m = K, m
        self.calls = []

    def getattr(self, ex, st, name):
        if name == "evaluate":
            return self
        raise AttributeError(name)

    def call(self, ex, st, args, kwargs, node):
        r = L.fresh_array("obs%d" % len(self.calls), (self.K, self.m))
        self.calls.append((args, L.copy(r)))
        st.roots.setdefault("eval_calls", []).append((args[0], L.copy(r)))  # per path
        return r

    def clone(self, memo):
        return self


class ParetoStub:
    """order.get_pareto_set by contract: result is an opaque function of the matrix handed over (C13)."""

    def __init__(self):
        self.calls = []

    def getattr(self, ex, st, name):
        if name == "get_pareto_set":
            return self
        raise AttributeError(name)

    def call(self, ex, st, args, kwargs, node):
        self.calls.append(L.copy(L.as_arr(args[0])))
        return Opaque("ParetoIdx", z3.Const("pareto!%d" % len(self.calls), z3.DeclareSort("ParetoIdx")))

    def clone(self, memo):
        return self


def _step(K, m, r):
    @task("C08", "NaiveElimination.run_one_step[K=%d,m=%d,held_rounds=%d]" % (K, m, r))
    def _t(t):
        samples = t.inp("samples", InArr("smp", (K, r, m)))
        Lc = t.inp("L", InInt("L"))
        t.assume(Lc >= 1, Lc >= r)
        prob = EvalStub(K, m)
        ind = t.inp("in_data", InArr("ind", (K, 2)))
        ds = SObj("DatasetStub", {"in_data": ind})
        obj = SObj(cls_ref(NE, "NaiveElimination"), {"L": Lc, "round": r, "sample_count": K * r, "K": K, "m": m,
                                                       "samples": samples, "problem": prob, "dataset": ds, "order": ParetoStub()})
        paths = t.run(NE, "NaiveElimination.run_one_step", [], self_val=obj)
        t.must_fail()
        t.cover("more-than-fifty-rounds", [Lc > 50])
        t.no_raise(paths)
        SS = t.inputs["samples"].snapshot
        done0 = V.Z(Lc) == r

        def goal(p):
            o = find_obj(p.st, obj.oid)
            s1 = o.fields["samples"]
            idle = z3.And(z3.BoolVal(s1.shape == (K, r, m)), V.Z(o.fields["round"]) == r, V.Z(o.fields["sample_count"]) == K * r,
                          V.Bz(p.value) == True)
            calls = p.st.roots.get("eval_calls") or []
            if s1.shape == (K, r + 1, m) and len(calls) == 1:
                obs = calls[0][1]
                cs = [V.Z(V.eq(s1.a[k, j, c], SS.a[k, j, c])) for k in range(K) for j in range(r) for c in range(m)]
                cs += [V.Z(V.eq(s1.a[k, r, c], obs.a[k, c])) for k in range(K) for c in range(m)]
                active = z3.And(V.Z(o.fields["round"]) == r + 1, V.Z(o.fields["sample_count"]) == K * (r + 1),
                                V.Bz(p.value) == (V.Z(Lc) == r + 1), z3.BoolVal(calls[0][0].shape == (K, 2)), *cs)
            else:
                active = z3.BoolVal(False)
            return z3.And(z3.Implies(done0, idle), z3.Implies(z3.Not(done0), active))
        t.prove_paths("one_new_observation_of_every_design_is_stored_each_round_done_iff_round_is_L", paths, goal)
        # P: Pareto set of the per-design means of all stored observations
        pp = t.run(NE, "NaiveElimination.P", [], self_val=obj) if r > 0 else []
        if r > 0:
            order = obj.fields["order"]
            ok = len(order.calls) == 1 and order.calls[0].shape == (K, m)
            t.prove("P_is_get_pareto_set_of_something_K_by_m", z3.BoolVal(ok))
            if ok:
                M = order.calls[0]
                cur = find_obj(pp[0].st, obj.oid).fields["samples"] if pp else None
                t.prove("P_argument_is_the_mean_over_all_stored_rounds",
                        z3.And(*[V.R(M.a[k, c]) * cur.shape[1] == sum(V.R(cur.a[k, j, c]) for j in range(cur.shape[1]))
                                 for k in range(K) for c in range(m)]))
    return _t


_step(2, 2, 0)
_step(2, 2, 1)
_step(3, 2, 2)
