"""C03 -- a design enters P exactly when no active region can still eps-cover it; useful set; P never shrinks."""
import z3

from pyvc.harness import task
from pyvc import setmode as SM
from pyvc import values as V
from .algos import (ALGOS, COV, AlgoState, depth, install_predicate_contracts, same_set, set_is, slack_num,
                    transition, unrolled_transition, Specs)
from pyvc.values import Unsupported

q = z3.Int("q!w")
xc = z3.Int("x!c")  # quantified variable of the consumer clauses (must differ from the bound variables inside Specs)


def _promo(name, method, witness_sets, slack_of, gated=False):
    @task("C03", "%s.%s" % (name, method))
    def _t(t):
        t.mode = "set-level: S, P, U arbitrary finite sets, regions and predicate answers arbitrary"
        install_predicate_contracts(t)
        A = AlgoState(t, name, with_U=("U" in witness_sets))
        sl = slack_of(A)
        arrs = {"S": A.S0, "P": A.P0, "U": A.U0}
        new = Specs(A).new(A.S0, [arrs[w] for w in witness_sets], A.REG0, sl)
        if gated:
            open_ = Specs(A).gate_open(A.S0, A.enable0)
        else:
            open_ = z3.BoolVal(True)
        bounded = lambda: unrolled_transition(t, A, ALGOS[name], name + "." + method, "exactly_the_uncoverable_candidates_move_to_P",
                                              S=lambda e: z3.And(z3.Select(A.S0, e), z3.Not(z3.And(open_, new(e)))),
                                              P=lambda e: z3.Or(z3.Select(A.P0, e), z3.And(open_, new(e))), enable=open_ if gated else None)
        t.bounded_fn = bounded
        try:
            paths = t.run(ALGOS[name], name + "." + method, [], self_val=A.obj, setmode=True)
        except Unsupported as ex_:
            bounded()
            t.fallback(str(ex_))
            return
        t.must_fail()
        t.cover("two-candidates", [z3.Select(A.S0, 0), z3.Select(A.S0, 1), A.N >= 2])
        t.no_raise(paths)

        transition(t, A, paths, method, "exactly_the_uncoverable_candidates_move_to_P",
                   S=lambda e: z3.And(z3.Select(A.S0, e), z3.Not(z3.And(open_, new(e)))),
                   P=lambda e: z3.Or(z3.Select(A.P0, e), z3.And(open_, new(e))),
                   enable=open_ if gated else None,
                   consumers=[("safe/a_design_enters_P_only_when_no_active_region_can_cover_it",
                               lambda S1, P1, U1, res: z3.ForAll([xc], z3.Implies(z3.And(z3.Select(P1, xc), z3.Not(z3.Select(A.P0, xc))), new(xc)))),
                              ("safe/every_candidate_stays_in_S_or_moves_to_P",
                               lambda S1, P1, U1, res: z3.ForAll([xc], z3.Implies(z3.Select(A.S0, xc), z3.Or(z3.Select(S1, xc), z3.Select(P1, xc))))),
                              ("safe/U_untouched", lambda S1, P1, U1, res: same_set(U1, A.U0))])

        def mono(p):
            S1, P1, U1, o = A.final(p)
            e = z3.Int("e!q")
            return z3.And(z3.ForAll([e], z3.Implies(z3.Select(A.P0, e), z3.Select(P1, e))),
                          z3.ForAll([e], z3.Not(z3.And(z3.Select(S1, e), z3.Select(P1, e)))))
        t.prove_paths("P_never_loses_members_and_stays_disjoint_from_S", paths, mono)
        t.implicit()
        if t.tier == "thorough":
            bounded()
    return _t


for _n in ("PaVeBa", "PaVeBaGP", "PaVeBaPartialGP"):
    _promo(_n, "pareto_updating", ("S", "U"), lambda A: A.alpha_eps)
_promo("VOGP", "epsiloncovering", ("S", "P"), lambda A: A.ustar_eps)
_promo("EpsilonPAL", "epsiloncovering", ("S", "P"), lambda A: slack_num(A.eps))
_promo("VOGP_AD", "epsiloncovering", ("S", "P"), lambda A: A.ustar_eps, gated=True)


def _useful(name):
    @task("C03", "%s.useful_updating" % name)
    def _t(t):
        install_predicate_contracts(t)
        A = AlgoState(t, name)
        useful = Specs(A).useful(A.S0, A.P0, A.REG0, A.alpha_eps)
        bounded = lambda: unrolled_transition(t, A, ALGOS[name], name + ".useful_updating", "U_is_exactly_members_of_P_that_can_still_cover_a_candidate", U=useful)
        t.bounded_fn = bounded
        try:
            paths = t.run(ALGOS[name], name + ".useful_updating", [], self_val=A.obj, setmode=True)
        except Unsupported as ex_:
            bounded()
            t.fallback(str(ex_))
            return
        t.must_fail()
        t.no_raise(paths)

        transition(t, A, paths, "useful_updating", "U_is_exactly_members_of_P_that_can_still_cover_a_candidate", U=useful,
                   consumers=[("safe/U_keeps_every_member_of_P_that_can_still_cover_a_candidate",
                               lambda S1, P1, U1, res: z3.ForAll([xc], z3.Implies(useful(xc), z3.Select(U1, xc)))),
                              ("safe/S_and_P_untouched", lambda S1, P1, U1, res: z3.And(same_set(S1, A.S0), same_set(P1, A.P0)))])
        t.implicit()
        if t.tier == "thorough":
            bounded()
    return _t


for _n in ("PaVeBa", "PaVeBaGP", "PaVeBaPartialGP"):
    _useful(_n)
