"""C18 -- adaptive discretisation tiles the domain; refinement bookkeeping."""
import itertools
from fractions import Fraction

import z3

from pyvc.harness import InArr, InInt, InReal, InRect, task, cls_ref
from pyvc import libmodel as L
from pyvc import values as V
from pyvc.values import SObj
from pyvc.symexec import find_obj
from . import spec as S

DS = "vopy/design_space.py"
CR = "vopy/confidence_region.py"


def mk_space(t, d, m, n_nodes, target):
    """A space with n_nodes existing nodes; the node `target` has a symbolic cell and depth."""
    cells, pts, depths, regs = [], [], [], []
    for i in range(n_nodes):
        lo = [t.inp("lo%d_%d" % (i, a), InReal("lo%d_%d" % (i, a))) for a in range(d)]
        hi = [t.inp("hi%d_%d" % (i, a), InReal("hi%d_%d" % (i, a))) for a in range(d)]
        t.assume(*[l < h for l, h in zip(lo, hi)])
        cells.append([[lo[a], hi[a]] for a in range(d)])
        depths.append(t.inp("depth%d" % i, InInt("depth%d" % i)))
        R = InRect("reg%d" % i, m)
        t.inputs["reg%d" % i] = R
        t.assume(R.valid())
        regs.append(R.sym)
    points = t.inp("points", InArr("pts", (n_nodes, d)))
    maxd = t.inp("max_depth", InInt("max_depth"))
    obj = SObj(cls_ref(DS, "AdaptivelyDiscretizedDesignSpace"),
               {"domain_dim": d, "objective_dim": m, "max_depth": maxd, "delta": z3.Real("delta"),
                "confidence_cls": cls_ref(CR, "RectangularConfidenceRegion"), "points": points, "point_depths": depths,
                "cells": cells, "confidence_regions": regs, "cardinality": n_nodes})
    return obj, cells, depths, regs


def _children(d, n_nodes, target, via):
    @task("C18", "%s[d=%d,nodes=%d,refine=%d]" % (via, d, n_nodes, target))
    def _t(t):
        m = 2
        t.mode = "unrolled d=%d; cell bounds, depths, regions symbolic" % d
        obj, cells, depths, regs = mk_space(t, d, m, n_nodes, target)
        t.assume(depths[target] >= 1, depths[target] < t.inputs["max_depth"].sym)
        paths = t.run(DS, "AdaptivelyDiscretizedDesignSpace." + via, [target], self_val=obj)
        t.must_fail()
        t.no_raise(paths)
        lo = [cells[target][a][0] for a in range(d)]
        hi = [cells[target][a][1] for a in range(d)]
        mid = [(V.R(l) + V.R(h)) / 2 for l, h in zip(lo, hi)]
        nch = 2 ** d
        PR = t.inputs["reg%d" % target]

        def goal(p):
            o = find_obj(p.st, obj.oid)
            r = p.value
            if r != list(range(n_nodes, n_nodes + nch)):
                return False
            P, C, Dp, Rg = o.fields["points"], o.fields["cells"], o.fields["point_depths"], o.fields["confidence_regions"]
            if P.shape != (n_nodes + nch, d) or len(C) != n_nodes + nch or len(Dp) != n_nodes + nch or len(Rg) != n_nodes + nch or o.fields["cardinality"] != n_nodes + nch:
                return False
            cs = []
            # every sign pattern exactly once, in product order (lower half first)
            for ci, pat in enumerate(itertools.product(*[[0, 1]] * d)):
                c = n_nodes + ci
                for a in range(d):
                    clo = V.R(lo[a]) if pat[a] == 0 else mid[a]
                    chi = mid[a] if pat[a] == 0 else V.R(hi[a])
                    cs.append(z3.And(V.R(C[c][a][0]) == clo, V.R(C[c][a][1]) == chi))
                    cs.append(V.R(P.a[c, a]) == (clo + chi) / 2)        # centre point of ITS OWN cell
                cs.append(V.Z(Dp[c]) == V.Z(depths[target]) + 1)
                cs.append(V.Z(Dp[c]) <= V.Z(t.inputs["max_depth"].sym))
                rg = Rg[c]
                cs += [V.Z(V.eq(x, y)) for x, y in zip(rg.fields["lower"].flat(), PR.lower.snapshot.flat())]
                cs += [V.Z(V.eq(x, y)) for x, y in zip(rg.fields["upper"].flat(), PR.upper.snapshot.flat())]
            # earlier entries unchanged (frame)
            for i in range(n_nodes):
                cs += [V.Z(V.eq(P.a[i, a], t.inputs["points"].snapshot.a[i, a])) for a in range(d)]
                cs.append(V.Z(Dp[i]) == V.Z(depths[i]))
                cs += [z3.And(V.R(C[i][a][0]) == V.R(cells[i][a][0]), V.R(C[i][a][1]) == V.R(cells[i][a][1])) for a in range(d)]
                cs.append(z3.BoolVal(Rg[i] is not None))
            return z3.And(*cs)
        t.prove_paths("2^d_children:halved_cells_all_sign_patterns_centres_depth_plus_1_parent_region_fresh_indices_frame", paths, goal)
        t.implicit()
    return _t


for _d in (1, 2, 3):
    _children(_d, 1, 0, "generate_child_designs")
_children(2, 3, 1, "generate_child_designs")
_children(2, 2, 1, "refine_design")
_children(3, 2, 0, "refine_design")


def _tiling(d):
    @task("C18", "lemma.children_tile_parent[d=%d]" % d)
    def _t(t):
        """The 2^d cells [lo,mid]/[mid,hi] per axis: their union is the parent cell and distinct children have
        disjoint interiors (so leaves of any refinement history tile the unit cube with disjoint interiors,
        by induction on the number of refinements)."""
        lo, hi, z = S.reals("lo", d), S.reals("hi", d), S.reals("z", d)
        mid = [(l + h) / 2 for l, h in zip(lo, hi)]
        pre = z3.And(*[l < h for l, h in zip(lo, hi)])
        pats = list(itertools.product(*[[0, 1]] * d))

        def cell(p, a):
            return (lo[a], mid[a]) if p[a] == 0 else (mid[a], hi[a])
        inchild = lambda p: z3.And(*[z3.And(cell(p, a)[0] <= z[a], z[a] <= cell(p, a)[1]) for a in range(d)])
        inint = lambda p: z3.And(*[z3.And(cell(p, a)[0] < z[a], z[a] < cell(p, a)[1]) for a in range(d)])
        inparent = z3.And(*[z3.And(lo[a] <= z[a], z[a] <= hi[a]) for a in range(d)])
        t.prove("union_of_children_is_the_parent", z3.Implies(pre, inparent == z3.Or(*[inchild(p) for p in pats])), use_pre=False)
        t.prove("children_interiors_pairwise_disjoint",
                z3.Implies(pre, z3.And(*[z3.Not(z3.And(inint(p), inint(q))) for p in pats for q in pats if p < q])), use_pre=False)
        t.prove("children_have_half_the_side_length", z3.Implies(pre, z3.And(*[cell(p, a)[1] - cell(p, a)[0] == (hi[a] - lo[a]) / 2 for p in pats for a in range(d)])), use_pre=False)
    return _t


for _d in (1, 2, 3):
    _tiling(_d)


@task("C18", "AdaptivelyDiscretizedDesignSpace.__init__")
def _init(t):
    for d in (1, 2, 3):
        obj = SObj(cls_ref(DS, "AdaptivelyDiscretizedDesignSpace"))
        paths = t.run(DS, "AdaptivelyDiscretizedDesignSpace.__init__", [d, 2, z3.Real("delta"), z3.Int("max_depth")], self_val=obj)

        def goal(p):
            o = find_obj(p.st, obj.oid)
            P, C = o.fields["points"], o.fields["cells"]
            return z3.And(z3.BoolVal(P.shape == (1, d) and len(C) == 1 and len(C[0]) == d and o.fields["point_depths"] == [1] and o.fields["cardinality"] == 1),
                          *[z3.And(V.R(C[0][a][0]) == 0, V.R(C[0][a][1]) == 1, V.R(P.a[0, a]) == Fraction(1, 2)) for a in range(d)])
        t.prove_paths("one_root_cell_unit_cube_depth_1[d=%d]" % d, paths, goal)


@task("C18", "should_refine_design[at max depth]")
def _should(t):
    obj, cells, depths, regs = mk_space(t, 2, 2, 1, 0)
    t.assume(depths[0] >= t.inputs["max_depth"].sym)
    paths = t.run(DS, "AdaptivelyDiscretizedDesignSpace.should_refine_design", [SObj("ModelStub", {}), 0, z3.Real("scale")], self_val=obj)
    t.prove_paths("never_refines_at_or_beyond_max_depth", paths, lambda p: z3.BoolVal(p.kind == "return" and p.value is False))


@task("C18", "lemma.VOGP_AD_declares_only_finest_leaves")
def _vogp_ad_invariant(t):
    """Invariant over the step contracts (epsiloncovering's gate and latch: C03; should_refine_design: above;
    generate_child_designs: above): V3 (latch unset => P empty) and V4 (latch set => every member of S u P is at
    maximum depth) are preserved by epsiloncovering and by refine/evaluate, hence every member of P is at maximum depth."""
    S0, P0, S1, P1 = [z3.Const(n, z3.ArraySort(z3.IntSort(), z3.BoolSort())) for n in ("S0", "P0", "S1", "P1")]
    depth = z3.Function("depth", z3.IntSort(), z3.IntSort())
    maxd = z3.Int("maxd")
    en0 = z3.Bool("en0")
    e, s = z3.Int("e"), z3.Int("s")
    allmax = lambda A: z3.ForAll([e], z3.Implies(z3.Select(A, e), depth(e) == maxd))
    V3 = lambda en, P: z3.Implies(z3.Not(en), z3.ForAll([e], z3.Not(z3.Select(P, e))))
    V4 = lambda en, Sx, P: z3.Implies(en, z3.And(allmax(Sx), allmax(P)))
    # epsiloncovering contract (proved in C03): open = en0 or allmax(S0); moved designs come from S0; latch' = open
    open_ = z3.Or(en0, allmax(S0))
    cov = z3.And(z3.ForAll([e], z3.Implies(z3.Select(S1, e), z3.Select(S0, e))),
                 z3.ForAll([e], z3.Implies(z3.Select(P1, e), z3.Or(z3.Select(P0, e), z3.And(open_, z3.Select(S0, e))))))
    t.prove("epsiloncovering_preserves_V3_V4", z3.Implies(z3.And(V3(en0, P0), V4(en0, S0, P0), cov), z3.And(V3(open_, P1), V4(open_, S1, P1))), use_pre=False)
    # refinement: only a node with depth < maxd can be replaced by children (should_refine_design), so under the latch nothing is refined
    c = z3.Int("c")
    refine = z3.And(z3.Or(z3.Select(S0, c), z3.Select(P0, c)), depth(c) < maxd)
    t.prove("no_refinement_is_possible_once_the_latch_is_set", z3.Implies(z3.And(V4(en0, S0, P0), en0), z3.Not(refine)), use_pre=False)
    t.prove("P_members_are_at_max_depth", z3.Implies(z3.And(V3(en0, P0), V4(en0, S0, P0), z3.Select(P0, c)), depth(c) == maxd), use_pre=False)
