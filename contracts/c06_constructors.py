"""C06 (base of every run) / C01 / C03 / C05 -- the constructors: every design starts as a candidate, P (and U) empty, counters
zero, the slack the phases use is alpha * eps (PaVeBa family) or u* * eps (VOGP family), the design space gets the confidence
type the configuration names, the model / problem get the configured noise, contraction and batch size are stored.

Datasets, design spaces, problems, models and compute_u_star are built BY CONTRACT (recording stubs); what is decided is the
constructor's own data flow, for a dataset of K = 3 designs (the designs enter only through `range(cardinality)`)."""
import z3

from pyvc.harness import InArr, InOrder, InReal, task, cls_ref
from pyvc import libmodel as L
from pyvc import values as V
from pyvc.libcalls import ConcSet
from pyvc.symexec import find_obj
from pyvc.values import SObj, Opaque
from .algos import ALGOS

K, D, M = 3, 2, 2
DSF = "vopy/design_space.py"
MPF = "vopy/maximization_problem.py"
DTF = "vopy/datasets/dataset.py"
EMF = "vopy/models/empirical_mean_var.py"
GPF = "vopy/models/gpytorch.py"


class Rec:
    """Recording stub for an object built by contract."""

    def __init__(self, kind, args, kwargs, fields=None):
        self.kind, self.args, self.kwargs = kind, list(args), dict(kwargs)
        self.fields = dict(fields or {})

    def getattr(self, ex, st, name):
        if name in self.fields:
            return self.fields[name]
        raise AttributeError(name)

    def clone(self, memo):
        return self


def install(t, made):
    ds_in = L.fresh_array("in", (K, D))
    ds_out = L.fresh_array("out", (K, M))
    dataset = Rec("dataset", [], {}, {"in_data": ds_in, "out_data": ds_out, "in_dim": D, "out_dim": M})

    def c_dataset(ex, st, sv, args, kwargs, node):
        made.append(("get_dataset_instance", list(args)))
        return [(st, dataset)]
    t.contracts[DTF + "::get_dataset_instance"] = c_dataset

    def mk(kind, fields_of=lambda a, k: {}):
        def c(ex, st, cls, args, kwargs, node):
            r = Rec(kind, args, kwargs, fields_of(args, kwargs))
            made.append((kind, r))
            return [(st, r)]
        return c
    t.contracts[DSF + "::FixedPointsDesignSpace.__new__"] = mk("FixedPointsDesignSpace", lambda a, k: {"cardinality": L.as_arr(a[0]).shape[0]})
    t.contracts[DSF + "::AdaptivelyDiscretizedDesignSpace.__new__"] = mk("AdaptivelyDiscretizedDesignSpace", lambda a, k: {"cardinality": 1})
    t.contracts[MPF + "::ProblemFromDataset.__new__"] = mk("ProblemFromDataset")
    t.contracts[MPF + "::DecoupledEvaluationProblem.__new__"] = mk("DecoupledEvaluationProblem")
    t.contracts[EMF + "::EmpiricalMeanVarModel.__new__"] = mk("EmpiricalMeanVarModel")

    def c_factory(name):
        def c(ex, st, sv, args, kwargs, node):
            r = Rec(name, args, kwargs)
            made.append((name, r))
            return [(st, r)]
        return c
    t.contracts[GPF + "::get_gpytorch_model_w_known_hyperparams"] = c_factory("get_gpytorch_model_w_known_hyperparams")
    t.contracts[GPF + "::get_gpytorch_modellist_w_known_hyperparams"] = c_factory("get_gpytorch_modellist_w_known_hyperparams")
    return dataset, ds_in, ds_out


def _one(made, kind):
    xs = [r for k, r in made if k == kind]
    return xs[0] if len(xs) == 1 else None


def _common(t, name, extra_args, slack, conf_type, model_kind, has_U, model_class=None, with_order=True):
    made = []
    dataset, ds_in, ds_out = install(t, made)
    eps, delta, nv = t.inp("epsilon", InReal("eps")), t.inp("delta", InReal("delta")), t.inp("noise_var", InReal("nv"))
    # the documented domain of the configuration (a constructor may reject anything outside it)
    t.assume(V.R(eps) > 0, V.R(delta) > 0, V.R(delta) < 1, V.R(nv) > 0, cc > 0, bs >= 1)
    order = t.inp("order", InOrder("o", 3, M)) if with_order else None
    O = t.inputs.get("order")
    ustar = L.fresh_array("ustar", (M,))
    d1 = z3.Real("d1")
    if slack == "ustar":
        t.contracts[ALGOS[name] + "::" + name + ".compute_u_star"] = lambda ex, st, sv, args, kwargs, node: [(st, (ustar, d1))]
    obj = SObj(cls_ref(ALGOS[name], name))
    args = [eps, delta, "SomeDataset"] + ([order] if with_order else []) + [nv] + list(extra_args)
    paths = t.run(ALGOS[name], name + ".__init__", args, self_val=obj)
    t.must_fail()
    t.no_raise(paths)

    def goal(p):
        o = find_obj(p.st, obj.oid)
        f = o.fields
        cs = []
        S_, P_ = f.get("S"), f.get("P")
        cs.append(z3.BoolVal(isinstance(S_, ConcSet) and S_.vals == list(range(K)) and isinstance(P_, ConcSet) and P_.vals == []))      # all designs candidates, P empty
        if has_U:
            cs.append(z3.BoolVal(isinstance(f.get("U"), ConcSet) and f["U"].vals == []))
        cs.append(z3.BoolVal(f.get("round") == 0 and f.get("sample_count") == 0 and f.get("m") == M))
        cs.append(V.R(f.get("epsilon")) == V.R(eps))
        cs.append(V.R(f.get("delta")) == V.R(delta))
        if with_order:
            cs.append(z3.BoolVal(f.get("order") is order))
        ds = _one(made, "FixedPointsDesignSpace")
        cs.append(z3.BoolVal(ds is not None and f.get("design_space") is ds and ds.kwargs.get("confidence_type", ds.args[2] if len(ds.args) > 2 else None) == conf_type
                             and ds.args[1] == M))
        pr = _one(made, "ProblemFromDataset")
        cs.append(z3.BoolVal(pr is not None and pr.args[0] is dataset))
        if pr is not None:
            cs.append(V.R(pr.args[1]) == V.R(nv))
        if slack == "alpha":
            A = O.alpha.snapshot.flat()
            ca = f.get("cone_alpha_eps")
            cs.append(z3.BoolVal(isinstance(ca, L.SArr) and ca.shape == (3,)))
            if isinstance(ca, L.SArr) and ca.shape == (3,):
                cs += [V.R(ca.a[k]) == V.R(A[k]) * V.R(eps) for k in range(3)]       # the slack of the promotion tests: alpha_k * eps
        if slack == "ustar":
            us = f.get("u_star_eps")
            cs.append(z3.BoolVal(isinstance(us, L.SArr) and us.shape == (M,) and f.get("u_star") is ustar))
            if isinstance(us, L.SArr) and us.shape == (M,):
                cs += [V.R(us.a[k]) == V.R(ustar.a[k]) * V.R(eps) for k in range(M)]  # the slack of VOGP: u* * eps
            cs.append(V.R(f.get("d1")) == d1)
        # the model
        if model_kind == "empirical":
            md = _one(made, "EmpiricalMeanVarModel")
            cs.append(z3.BoolVal(md is not None and f.get("model") is md and md.args[0] == D and md.args[1] == M and md.args[3] == K))
            if md is not None:
                cs.append(V.R(md.args[2]) == V.R(nv))
        elif model_kind == "gp":
            md = _one(made, "get_gpytorch_model_w_known_hyperparams")
            ok = md is not None and f.get("model") is md and md.kwargs.get("initial_sample_cnt") == 1 and md.kwargs.get("X") is dataset.fields["in_data"] and md.kwargs.get("Y") is dataset.fields["out_data"]
            ok = ok and getattr(md.args[0], "name", None) == model_class and md.args[1] is f.get("problem")
            cs.append(z3.BoolVal(bool(ok)))
            if md is not None:
                cs.append(V.R(md.args[2]) == V.R(nv))
        elif model_kind == "gplist":
            md = _one(made, "get_gpytorch_modellist_w_known_hyperparams")
            ok = md is not None and f.get("model") is md and md.kwargs.get("initial_sample_cnt") == 1 and md.kwargs.get("X") is dataset.fields["in_data"] and md.kwargs.get("Y") is dataset.fields["out_data"] and md.args[0] is f.get("problem")
            cs.append(z3.BoolVal(bool(ok)))
            if md is not None:
                cs.append(V.R(md.args[1]) == V.R(nv))
        return cs, f, made
    return paths, goal, obj, made, dataset, ds_in


def _ctor(name, variant, extra_args, slack, conf_type, model_kind, has_U, model_class=None, with_order=True, more=None, index_column=False, decoupled=False):
    @task("C06", "%s.__init__[%s]" % (name, variant))
    def _t(t):
        t.mode = "dataset of K=%d designs, d=%d, m=%d by contract; epsilon, delta, noise symbolic" % (K, D, M)
        paths, goal, obj, made, dataset, ds_in = _common(t, name, extra_args, slack, conf_type, model_kind, has_U, model_class, with_order)

        def g(p):
            if p.kind != "return":
                return False
            cs, f, mk = goal(p)
            ds = _one(mk, "FixedPointsDesignSpace")
            if ds is not None:
                pts = L.as_arr(ds.args[0])
                if index_column:
                    # the design's index rides along as the last column (the empirical model predicts by index)
                    cs.append(z3.BoolVal(pts.shape == (K, D + 1)))
                    if pts.shape == (K, D + 1):
                        cs += [V.R(pts.a[i, c]) == V.R(ds_in.a[i, c]) for i in range(K) for c in range(D)]
                        cs += [V.R(pts.a[i, D]) == i for i in range(K)]
                else:
                    cs.append(z3.BoolVal(ds.args[0] is dataset.fields["in_data"]))
            if decoupled:
                dp = _one(mk, "DecoupledEvaluationProblem")
                pr = _one(mk, "ProblemFromDataset")
                cs.append(z3.BoolVal(dp is not None and f.get("problem") is dp and dp.args[0] is pr))
            else:
                cs.append(z3.BoolVal(f.get("problem") is _one(mk, "ProblemFromDataset")))
            if more is not None:
                cs += more(f)
            return z3.And(*cs)
        t.prove_paths("every_design_a_candidate_P_empty_counters_zero_slack_is_alpha_or_ustar_times_eps_configuration_handed_on", paths, g)
    return _t


cc, bs = z3.Real("conf_contraction"), z3.Int("batch_size")
_ctor("PaVeBa", "default", [cc], "alpha", "hyperellipsoid", "empirical", True, index_column=True,
      more=lambda f: [V.R(f.get("conf_contraction")) == cc])
_ctor("PaVeBaGP", "type=IH", [cc, "IH", bs], "alpha", "hyperrectangle", "gp", True, model_class="IndependentExactGPyTorchModel",
      more=lambda f: [V.R(f.get("conf_contraction")) == cc, V.Z(f.get("batch_size")) == bs])
_ctor("PaVeBaGP", "type=DE", [cc, "DE", bs], "alpha", "hyperellipsoid", "gp", True, model_class="CorrelatedExactGPyTorchModel",
      more=lambda f: [V.R(f.get("conf_contraction")) == cc, V.Z(f.get("batch_size")) == bs])
for _ct in ("hyperrectangle", "hyperellipsoid"):
    _ctor("PaVeBaPartialGP", "confidence_type=%s,no costs" % _ct, [cc, None, None, _ct, bs], "alpha", _ct, "gplist", True, decoupled=True,
          more=lambda f: [V.R(f.get("conf_contraction")) == cc, V.Z(f.get("batch_size")) == bs, z3.BoolVal(f.get("costs") is None and f.get("total_cost") == 0)])
_ctor("VOGP", "default", [cc, bs], "ustar", "hyperrectangle", "gp", False, model_class="CorrelatedExactGPyTorchModel",
      more=lambda f: [V.R(f.get("conf_contraction")) == cc, V.Z(f.get("batch_size")) == bs])
_ctor("EpsilonPAL", "default", [cc, bs], None, "hyperrectangle", "gp", False, model_class="IndependentExactGPyTorchModel", with_order=False,
      more=lambda f: [V.R(f.get("conf_contraction")) == cc, V.Z(f.get("batch_size")) == bs,
                      z3.BoolVal(getattr(getattr(f.get("order"), "cls", None), "name", None) == "ComponentwiseOrder")])
_ctor("Auer", "use_empirical_beta=False", [cc, False], None, "hyperrectangle", "empirical", False, with_order=False, index_column=True,
      more=lambda f: [V.R(f.get("conf_contraction")) == cc, z3.BoolVal(f.get("_use_empirical_beta") is False),
                      z3.BoolVal(getattr(getattr(f.get("order"), "cls", None), "name", None) == "ComponentwiseOrder")])


@task("C06", "VOGP_AD.__init__[default]")
def _vogp_ad_ctor(t):
    t.mode = "continuous problem stub (in_dim 2, out_dim 2, depth_max symbolic); epsilon, delta, noise symbolic"
    made = []
    install(t, made)
    eps, delta, nv = t.inp("epsilon", InReal("eps")), t.inp("delta", InReal("delta")), t.inp("noise_var", InReal("nv"))
    t.assume(V.R(eps) > 0, V.R(delta) > 0, V.R(delta) < 1, V.R(nv) > 0, cc > 0)
    order = t.inp("order", InOrder("o", 3, M))
    dmax = z3.Int("depth_max")
    t.assume(dmax >= 1)
    problem = SObj("ContinuousProblemStub", {"depth_max": dmax, "in_dim": D, "out_dim": M})
    ustar = L.fresh_array("ustar", (M,))
    d1 = z3.Real("d1")
    t.contracts[ALGOS["VOGP_AD"] + "::VOGP_AD.compute_u_star"] = lambda ex, st, sv, args, kwargs, node: [(st, (ustar, d1))]
    obj = SObj(cls_ref(ALGOS["VOGP_AD"], "VOGP_AD"))
    paths = t.run(ALGOS["VOGP_AD"], "VOGP_AD.__init__", [eps, delta, problem, order, nv, cc, 1], self_val=obj)
    t.must_fail()
    t.no_raise(paths)

    def g(p):
        if p.kind != "return":
            return False
        f = find_obj(p.st, obj.oid).fields
        ds = _one(made, "AdaptivelyDiscretizedDesignSpace")
        md = _one(made, "get_gpytorch_model_w_known_hyperparams")
        us = f.get("u_star_eps")
        cs = [z3.BoolVal(isinstance(f.get("S"), ConcSet) and f["S"].vals == [0] and isinstance(f.get("P"), ConcSet) and f["P"].vals == []),   # the root cell only
              z3.BoolVal(f.get("round") == 0 and f.get("sample_count") == 0 and f.get("enable_epsilon_covering") is False and f.get("m") == M),
              z3.BoolVal(f.get("order") is order and f.get("problem") is not None and f.get("u_star") is ustar),
              V.Z(f.get("max_discretization_depth")) == dmax, V.R(f.get("conf_contraction")) == cc, V.R(f.get("d1")) == d1,
              z3.BoolVal(ds is not None and f.get("design_space") is ds and ds.args[:2] == [D, M] and ds.kwargs.get("confidence_type") == "hyperrectangle"),
              z3.BoolVal(md is not None and f.get("model") is md and getattr(md.args[0], "name", None) == "CorrelatedExactGPyTorchModel" and md.kwargs.get("initial_sample_cnt") == 1),
              z3.BoolVal(isinstance(us, L.SArr) and us.shape == (M,))]
        if ds is not None:
            cs += [V.R(ds.kwargs.get("delta")) == V.R(delta), V.Z(ds.kwargs.get("max_depth")) == dmax]
        if md is not None:
            cs.append(V.R(md.args[2]) == V.R(nv))
        if isinstance(us, L.SArr) and us.shape == (M,):
            cs += [V.R(us.a[k]) == V.R(ustar.a[k]) * V.R(eps) for k in range(M)]
        return z3.And(*cs)
    t.prove_paths("root_cell_is_the_only_candidate_P_empty_gate_closed_slack_is_ustar_times_eps_configuration_handed_on", paths, g)


@task("C06", "VOGP_AD.__init__[batch size other than 1 is rejected]")
def _vogp_ad_ctor_bad(t):
    made = []
    install(t, made)
    order = t.inp("order", InOrder("o", 3, M))
    problem = SObj("ContinuousProblemStub", {"depth_max": 3, "in_dim": D, "out_dim": M})
    obj = SObj(cls_ref(ALGOS["VOGP_AD"], "VOGP_AD"))
    paths = t.run(ALGOS["VOGP_AD"], "VOGP_AD.__init__", [z3.Real("eps"), z3.Real("delta"), problem, order, z3.Real("nv"), 32, 2], self_val=obj)
    # (the exception class is not part of any property)
    t.prove("an_unsupported_batch_size_is_rejected", z3.BoolVal(bool(paths) and all(p.kind == "raise" for p in paths)))
