"""C11 -- pessimistic rectangle comparison: sound for every cone; complete for two-facet 2-D cones."""
import itertools

import z3

from pyvc.harness import InArr, InInt, InOrder, InReal, InRect, task
from pyvc import libmodel as L
from pyvc import values as V
from . import spec as S

UT = "vopy/utils/utils.py"
CR = "vopy/confidence_region.py"
PURE = {UT + "::is_pt_in_extended_polytope", UT + "::line_seg_pt_intersect_at_dim"}


def _lineseg(dim, d):
    @task("C11", "line_seg_pt_intersect_at_dim[dim=%d,target_dim=%d]" % (dim, d))
    def _t(t):
        t.ieee_div = True
        P1 = t.inp("P1", InArr("P1", (dim,)))
        P2 = t.inp("P2", InArr("P2", (dim,)))
        pt = t.inp("pt", InArr("pt", (dim,)))
        paths = t.run(UT, "line_seg_pt_intersect_at_dim", [P1, P2, pt, d])
        t.must_fail()
        t.no_raise(paths)
        A, B = t.inputs["P1"].snapshot.flat(), t.inputs["P2"].snapshot.flat()
        s = z3.Real("s!w")

        def goal(p):
            if p.kind != "return":
                return False
            if p.value is None:
                return True
            r = p.value
            if not isinstance(r, L.SArr) or r.shape != (dim,):
                return False
            # a point of the segment whenever the division is a proper one (IEEE: P2[d] == P1[d] gives nan / inf)
            return z3.Implies(V.R(B[d]) != V.R(A[d]),
                              z3.Exists([s], z3.And(0 <= s, s <= 1, *[V.R(r.flat()[c]) == V.R(A[c]) + s * (V.R(B[c]) - V.R(A[c])) for c in range(dim)])))
        t.prove_paths("result_is_None_or_a_point_of_the_segment", paths, goal)
        t.frame_unchanged("frame:inputs-not-written", paths, ["P1", "P2", "pt"])
    return _t


_lineseg(2, 0)
_lineseg(2, 1)
_lineseg(3, 2)


def exact_ext(pt, rows, dim):
    """The exact decision is_pt_in_extended_polytope computes (quantifier-free): some vertex is componentwise below
    pt, or for some axis d and ordered pair (i, j), i != j, with P_i[d] <= pt[d] <= P_j[d], the point of the segment
    P_i P_j at parameter t = (pt[d] - P_i[d]) / (P_j[d] - P_i[d]) has 0 <= t <= 1 and is componentwise below pt."""
    n = len(rows)
    alts = [z3.And(*[V.R(rows[a][c]) <= V.R(pt[c]) for c in range(dim)]) for a in range(n)]
    for d in range(dim):
        for i in range(n):
            for j in range(n):
                if i == j:
                    continue
                den = V.R(rows[j][d]) - V.R(rows[i][d])
                tt = (V.R(pt[d]) - V.R(rows[i][d])) / den
                # IEEE: a zero denominator gives 0/0 = nan here (the guard forces the numerator to 0): no hit
                alts.append(z3.And(den != 0, V.R(rows[i][d]) <= V.R(pt[d]), V.R(pt[d]) <= V.R(rows[j][d]), tt >= 0, tt <= 1,
                                   *[V.R(rows[i][c]) + tt * (V.R(rows[j][c]) - V.R(rows[i][c])) <= V.R(pt[c]) for c in range(dim)]))
    return z3.Or(*alts)


def seg_witness(pt, rows, dim):
    s = z3.Real("s!w")
    n = len(rows)
    return z3.Or(*[z3.Exists([s], z3.And(0 <= s, s <= 1, *[V.R(rows[a][c]) + s * (V.R(rows[b][c]) - V.R(rows[a][c])) <= V.R(pt[c]) for c in range(dim)]))
                   for a in range(n) for b in range(n)])


def _ext_poly(Vn, dim, tier="quick"):
    @task("C11", "is_pt_in_extended_polytope[vertices=%d,dim=%d]" % (Vn, dim), tier=tier)
    def _t(t):
        t.mode = "%d vertices in dimension %d, all coordinates symbolic" % (Vn, dim)
        t.merge_ifs = True
        t.ieee_div = True
        t.pure = {UT + "::line_seg_pt_intersect_at_dim"}
        pt = t.inp("pt", InArr("pt", (dim,)))
        poly = t.inp("poly", InArr("poly", (Vn, dim)))
        paths = t.run(UT, "is_pt_in_extended_polytope", [pt, poly])
        t.must_fail()
        t.no_raise(paths)
        PT = t.inputs["pt"].snapshot.flat()
        PO = t.inputs["poly"].snapshot
        rows = [[PO.a[i, c] for c in range(dim)] for i in range(Vn)]
        # Soundness ("True only if some point of a segment between two vertices is componentwise below pt"), without
        # quantifiers: (a) per path, True implies the exact decision; (b) once, every alternative of the exact decision
        # exhibits an explicit witness: vertices a, b and a parameter s in [0, 1] with P_a + s (P_b - P_a) <= pt.
        t.prove_each_path("sound/True_only_if_the_exact_vertex_or_segment_decision_holds", paths,
                          lambda p: z3.Implies(V.Bz(p.value), exact_ext(PT, rows, dim)) if p.kind == "return" and V.is_bool(p.value) else False, chunk=4)
        R = lambda v: V.R(v)
        seg_pt_below = lambda a, b, sv: z3.And(0 <= sv, sv <= 1, *[R(rows[a][c]) + sv * (R(rows[b][c]) - R(rows[a][c])) <= R(PT[c]) for c in range(dim)])
        wit = []
        for a in range(Vn):
            wit.append(z3.Implies(z3.And(*[R(rows[a][c]) <= R(PT[c]) for c in range(dim)]), seg_pt_below(a, a, z3.RealVal(0))))
        for d in range(dim):
            for i in range(Vn):
                for j in range(Vn):
                    if i == j:
                        continue
                    den = R(rows[j][d]) - R(rows[i][d])
                    tt = (R(PT[d]) - R(rows[i][d])) / den
                    alt = z3.And(den != 0, R(rows[i][d]) <= R(PT[d]), R(PT[d]) <= R(rows[j][d]), tt >= 0, tt <= 1,
                                 *[R(rows[i][c]) + tt * (R(rows[j][c]) - R(rows[i][c])) <= R(PT[c]) for c in range(dim)])
                    wit.append(z3.Implies(alt, seg_pt_below(i, j, tt)))
        t.prove("sound/every_alternative_of_the_exact_decision_exhibits_a_segment_point_below_pt", z3.And(*wit), use_pre=False)
        t.prove_each_path("result_is_exactly_vertex_test_or_segment_intersection_test", paths,
                          lambda p: V.Bz(p.value) == exact_ext(PT, rows, dim) if p.kind == "return" and V.is_bool(p.value) else False, chunk=4)
        t.prove("returns_the_python_literals_True_or_False_on_every_path", z3.BoolVal(all(p.kind == "return" and isinstance(p.value, bool) for p in paths)))
        t.prove_paths("a_vertex_below_pt_gives_True", paths,
                      lambda p: z3.Implies(z3.Or(*[z3.And(*[V.R(rows[a][c]) <= V.R(PT[c]) for c in range(dim)]) for a in range(Vn)]), V.Bz(p.value)) if p.kind == "return" else False)
        t.frame_unchanged("frame:inputs-not-written", paths, ["pt", "poly"])
        t.agree(paths, k=4)
        t.implicit()
    return _t


_ext_poly(2, 2)
_ext_poly(4, 2)
_ext_poly(3, 3)


def _check_dominates(m, K, tier="quick"):
    @task("C11", "Rect.check_dominates[m=%d,K=%d]" % (m, K), tier=tier)
    def _t(t):
        t.mode = "unrolled m=%d K=%d; is_pt_in_extended_polytope by contract (its exact decision, proved in its own task)" % (m, K)
        order = t.inp("order", InOrder("o", K, m))
        r1 = t.inp("r1", InRect("r1", m))
        r2 = t.inp("r2", InRect("r2", m))
        O, R1, R2 = t.inputs["order"], t.inputs["r1"], t.inputs["r2"]
        t.assume(R1.valid(), R2.valid())
        calls = []

        def c_ext(ex, st, self_val, args, kwargs, node):
            pt, poly = L.as_arr(args[0]), L.as_arr(args[1])
            if len(args) > 2 or kwargs:
                raise Exception("unexpected invert_extension argument")
            rows = [[poly.a[i, c] for c in range(poly.shape[1])] for i in range(poly.shape[0])]
            calls.append((L.copy(pt), L.copy(poly)))
            r = exact_ext(pt.flat(), rows, poly.shape[1])
            ex.ctx.pybool_ids.add(r.get_id())   # the callee returns the literals True / False (checked in its task)
            return [(st, r)]
        t.contracts[UT + "::is_pt_in_extended_polytope"] = c_ext
        t.trusted.add("callee-contract: is_pt_in_extended_polytope returns exactly its vertex/segment decision (proved in C11/is_pt_in_extended_polytope[...])")
        paths = t.run(CR, "RectangularConfidenceRegion.check_dominates", [None, order, r1, r2])
        t.must_fail()
        t.no_raise(paths)
        W = S.rows_of(O)
        lo1, up1 = R1.lower.snapshot.flat(), R1.upper.snapshot.flat()
        lo2, up2 = R2.lower.snapshot.flat(), R2.upper.snapshot.flat()
        V1, V2 = S.verts(lo1, up1), S.verts(lo2, up2)
        Wv = lambda v: [S.dot(w, v) for w in W]
        poly_spec = [Wv(v) for v in V2]
        # (1) the code answers: every cone-transformed vertex of R1 passes the exact test against the cone-transformed vertices of R2
        spec_all = z3.And(*[exact_ext(Wv(v), poly_spec, K) for v in V1])
        t.prove_paths("result_is_forall_vertices_of_R1_exact_test_against_transformed_vertices_of_R2", paths,
                      lambda p: V.Bz(p.value) == spec_all if p.kind == "return" and V.is_bool(p.value) else False)
        # (2) soundness: each passed test yields a point of a segment between two vertices of R2 (hence of the box R2, by
        #     convexity) that the vertex dominates:  W(a' + s (b' - a')) <= W v
        s = z3.Real("s!w")
        def wit(v):
            return z3.Or(*[z3.Exists([s], z3.And(0 <= s, s <= 1, *[S.dot(w, S.vsub(v, [V.R(a[c]) + s * (V.R(b[c]) - V.R(a[c])) for c in range(m)])) >= 0 for w in W]))
                           for a in V2 for b in V2])
        # generic in the vertex: one symbolic point v of objective space stands for every vertex of R1
        vg = S.reals("vg", m)
        ptg = Wv(vg)
        n2 = len(V2)
        for a in range(n2):
            t.prove("sound:vertex_test_%d" % a,
                    z3.Implies(z3.And(*[V.R(poly_spec[a][k]) <= ptg[k] for k in range(K)]),
                               z3.And(*[S.dot(w, S.vsub(vg, V2[a])) >= 0 for w in W])))
        sv = z3.Real("sv")
        for a in range(n2):
            for b in range(n2):
                if a == b:
                    continue
                seg = [V.R(V2[a][c]) + sv * (V.R(V2[b][c]) - V.R(V2[a][c])) for c in range(m)]
                t.prove("sound:segment_test_%d_%d" % (a, b),
                        z3.Implies(z3.And(*[V.R(poly_spec[a][k]) + sv * (V.R(poly_spec[b][k]) - V.R(poly_spec[a][k])) <= ptg[k] for k in range(K)]),
                                   z3.And(*[S.dot(w, S.vsub(vg, seg)) >= 0 for w in W])), timeout_ms=max(t.timeout_ms, 20000))
        zq = S.reals("zq", m)
        t.prove("segment_between_two_vertices_of_a_box_stays_in_the_box",
                z3.And(*[z3.Implies(z3.And(0 <= s, s <= 1), S.in_box([V.R(a[c]) + s * (V.R(b[c]) - V.R(a[c])) for c in range(m)], lo2, up2)) for a in V2 for b in V2]))
        if m == 2 and K == 2:
            # (3) completeness for two-facet 2-D cones (W non-singular): if the vertex dominates SOME point of R2, the test passes
            det = V.R(O.row(0)[0]) * V.R(O.row(1)[1]) - V.R(O.row(0)[1]) * V.R(O.row(1)[0])
            for i, v in enumerate(V1):
                t.prove("complete_2x2:vertex_%d_dominating_some_point_of_R2_passes_the_test" % i,
                        z3.Implies(z3.And(det != 0, S.in_box(zq, lo2, up2), S.dom(W, v, zq)), exact_ext(Wv(v), poly_spec, K)),
                        timeout_ms=max(t.timeout_ms, 60000))
        t.frame_unchanged("frame:regions-not-written", paths, [])
        t.implicit()
    return _t


_check_dominates(2, 2)
_check_dominates(2, 3)


def _check_dominates_history(mutation):
    @task("C11", "Rect.history[check_dominates, m=2, K=2; construct, use, %s, use]" % mutation)
    def _t(t):
        """The answer refers to the bounds displayed NOW: both rectangles are built by the real constructor, the test is used once,
        the SECOND rectangle (the one whose transformed vertices form the polytope) is changed by the real `%s`, and the test is
        used again: the second answer must be the exact vertex test over the current bounds.""" % mutation
        from pyvc.harness import cls_ref
        from pyvc.values import SObj
        from pyvc.symexec import find_obj
        m, K = 2, 2
        t.mode = "unrolled m=2 K=2, call sequence on one region object"
        order = t.inp("order", InOrder("o", K, m))
        O = t.inputs["order"]
        ins = {n: t.inp(n, InArr(n, (m,))) for n in ("lo1", "up1", "lo2", "up2")}
        snap = {n: t.inputs[n].snapshot.flat() for n in ins}
        t.assume(*[V.R(a) <= V.R(b) for a, b in zip(list(snap["lo1"]) + list(snap["lo2"]), list(snap["up1"]) + list(snap["up2"]))])

        def c_ext(ex, st, self_val, args, kwargs, node):
            pt, poly = L.as_arr(args[0]), L.as_arr(args[1])
            if len(args) > 2 or kwargs:
                raise Exception("unexpected invert_extension argument")
            rows = [[poly.a[i, c] for c in range(poly.shape[1])] for i in range(poly.shape[0])]
            r = exact_ext(pt.flat(), rows, poly.shape[1])
            ex.ctx.pybool_ids.add(r.get_id())
            return [(st, r)]
        t.contracts[UT + "::is_pt_in_extended_polytope"] = c_ext
        t.trusted.add("callee-contract: is_pt_in_extended_polytope returns exactly its vertex/segment decision (proved in C11/is_pt_in_extended_polytope[...])")
        r1, r2 = SObj(cls_ref(CR, "RectangularConfidenceRegion")), SObj(cls_ref(CR, "RectangularConfidenceRegion"))
        made = [p for p in t.run(CR, "RectangularConfidenceRegion.__init__", [m, ins["lo1"], ins["up1"]], self_val=r1) if p.kind == "return"]
        if len(made) == 1:
            made = [p for p in t.run(CR, "RectangularConfidenceRegion.__init__", [m, ins["lo2"], ins["up2"], mutation == "intersect"], self_val=r2, after=made[0]) if p.kind == "return"]
        if len(made) != 1:
            t.prove("constructors_return_on_one_path", False)
            return
        first = [p for p in t.run(CR, "RectangularConfidenceRegion.check_dominates", [None, order, r1, r2], after=made[0]) if p.kind == "return"]
        if mutation == "intersect":
            nl, nu = t.inp("nl", InArr("nl", (m,))), t.inp("nu", InArr("nu", (m,)))
            t.assume(*[V.R(a) <= V.R(b) for a, b in zip(t.inputs["nl"].snapshot.flat(), t.inputs["nu"].snapshot.flat())])
            step = lambda p: t.run(CR, "RectangularConfidenceRegion.intersect", [nl, nu], self_val=r2, after=p)
        else:
            mean, cov, sc = t.inp("mean", InArr("mu", (m,))), t.inp("cov", InArr("cov", (m, m))), t.inp("scale", InArr("sc", ()))
            C = t.inputs["cov"].snapshot
            t.assume(*[V.R(C.a[j, j]) >= 0 for j in range(m)], V.R(t.inputs["scale"].snapshot.flat()[0]) >= 0)
            step = lambda p: t.run(CR, "RectangularConfidenceRegion.update", [mean, cov, sc], self_val=r2, after=p)
        second = []
        for p in first[:2]:
            for q in step(p):
                if q.kind == "return":
                    second += t.run(CR, "RectangularConfidenceRegion.check_dominates", [None, order, r1, r2], after=q)
        t.prove("history_reaches_the_second_use", z3.BoolVal(len(second) > 0))
        t.must_fail()
        t.no_raise(second)
        W = S.rows_of(O)
        Wv = lambda v: [S.dot(w, v) for w in W]

        def goal(p):
            if p.kind != "return" or not V.is_bool(p.value):
                return False
            cur = find_obj(p.st, r2.oid)
            V1 = S.verts(snap["lo1"], snap["up1"])
            V2 = S.verts(cur.fields["lower"].flat(), cur.fields["upper"].flat())
            poly = [Wv(v) for v in V2]
            return V.Bz(p.value) == z3.And(*[exact_ext(Wv(v), poly, K) for v in V1])
        t.prove_paths("second_answer_is_the_exact_test_over_the_bounds_now_displayed", second, goal)
    return _t


_check_dominates_history("intersect")
_check_dominates_history("update")


def _convex_lift(m):
    @task("C11", "lemma.convex_lift[m=%d]" % m)
    def _t(t):
        """If every vertex v_i of a (non-degenerate) box R1 dominates some z'_i in the box R2, then every point z of R1
        dominates some point of R2.  Two steps: (A) the multilinear interpolation weights of z are non-negative, sum to 1
        and reproduce z from the vertices; (B) for ANY such weights the weighted witness lies in R2 (convexity) and is
        dominated by the weighted vertex (linearity of x -> w.x).  One generic facet row."""
        w = S.reals("w", m)
        lo1, up1, lo2, up2 = S.reals("l1", m), S.reals("u1", m), S.reals("l2", m), S.reals("u2", m)
        z = S.reals("z", m)
        vs = S.verts(lo1, up1)
        n = len(vs)
        lam = S.reals("lam", m)
        hypA = z3.And(*([lo1[c] < up1[c] for c in range(m)] + [S.in_box(z, lo1, up1)] + [lam[c] * (up1[c] - lo1[c]) == z[c] - lo1[c] for c in range(m)]))
        weights = []
        for bits in itertools.product(*[[0, 1]] * m):
            wgt = z3.RealVal(1)
            for c in range(m):
                wgt = wgt * (lam[c] if bits[c] == 1 else (1 - lam[c]))
            weights.append(wgt)
        t.prove("A_weights_nonnegative_and_sum_to_1", z3.Implies(hypA, z3.And(sum(weights) == 1, *[x >= 0 for x in weights])), use_pre=False, timeout_ms=60000)
        for c in range(m):
            t.prove("A_weights_reproduce_coordinate_%d" % c, z3.Implies(hypA, sum(weights[i] * vs[i][c] for i in range(n)) == z[c]), use_pre=False, timeout_ms=60000)
        om = S.reals("om", n)
        wit = [S.reals("zq%d" % i, m) for i in range(n)]
        hypB = z3.And(*([x >= 0 for x in om] + [sum(om) == 1] + [lo2[c] <= up2[c] for c in range(m)] +
                        [S.in_box(wit[i], lo2, up2) for i in range(n)]))
        zprime = [sum(om[i] * wit[i][c] for i in range(n)) for c in range(m)]
        for c in range(m):
            t.prove("B_convexity_coordinate_%d" % c, z3.Implies(hypB, z3.And(lo2[c] <= zprime[c], zprime[c] <= up2[c])), use_pre=False, timeout_ms=60000)
        g = S.reals("g", n)  # g_i = w.(v_i - z'_i) >= 0
        t.prove("B_weighted_sum_of_nonnegative_margins_is_nonnegative", z3.Implies(z3.And(*([x >= 0 for x in om] + [x >= 0 for x in g])), sum(om[i] * g[i] for i in range(n)) >= 0), use_pre=False)
        vsym = [S.reals("vv%d" % i, m) for i in range(n)]
        t.prove("B_linearity", S.dot(w, S.vsub([sum(om[i] * vsym[i][c] for i in range(n)) for c in range(m)], zprime)) ==
                sum(om[i] * S.dot(w, S.vsub(vsym[i], wit[i])) for i in range(n)), use_pre=False, timeout_ms=60000)
    return _t


_convex_lift(1)
_convex_lift(2)
