"""C17 -- cone constants alpha, u*, d1 and beta are the optima they are defined as."""
import z3

from pyvc.harness import InArr, InInt, InReal, task, cls_ref
from pyvc import libmodel as L
from pyvc import values as V
from pyvc.values import SObj
from . import spec as S
from .c10_covered import cvx_for_path

UT = "vopy/utils/utils.py"
CONE = "vopy/ordering_cone.py"


def _get_alpha(K, D, rind):
    @task("C17", "get_alpha[K=%d,D=%d,rind=%d]" % (K, D, rind))
    def _t(t):
        t.mode = "unrolled K=%d facets, D=%d dimensions" % (K, D)
        W = t.inp("W", InArr("W", (K, D)))
        WS = t.inputs["W"].snapshot
        paths = t.run(UT, "get_alpha", [rind, W])
        t.must_fail()
        t.no_raise(paths)
        if len(t.ctx.cvx) != 1:
            t.prove("exactly_one_program_solved", False)
            return
        rec = t.ctx.cvx[0]
        x = rec["vars"]
        rows = [[WS.a[k, c] for c in range(D)] for k in range(K)]
        spec = z3.And(*([S.dot(w, x) >= 0 for w in rows] + [sum((xi * xi for xi in x[1:]), x[0] * x[0]) <= 1]))
        t.prove("feasible_set_is_unit_ball_intersected_with_the_cone", rec["constraints"] == spec)
        t.prove("objective_is_minus_the_facet_functional", rec["objective"] == -S.dot(rows[rind], x))
        t.prove("one_variable_of_dimension_D", z3.BoolVal(len(x) == D))
        t.prove_paths("result_is_minus_the_optimal_value(=max of the facet functional over unit cone vectors)", paths,
                      lambda p: V.R(p.value) == -rec["optval"] if p.kind == "return" else False)
        t.frame_unchanged("frame:W-not-written", paths, ["W"])
        t.implicit()
    return _t


for (_K, _D) in [(2, 2), (3, 2), (3, 3), (4, 3)]:
    for _r in range(_K):
        _get_alpha(_K, _D, _r)


@task("C17", "get_alpha_vec[K=3,D=2]")
def _alpha_vec(t):
    K, D = 3, 2
    W = t.inp("W", InArr("W", (K, D)))
    A = z3.Function("ALPHA", z3.IntSort(), z3.RealSort())
    seen = []

    def c_alpha(ex, st, self_val, args, kwargs, node):
        seen.append((args[0], args[1] is W))
        return [(st, A(V.Z(args[0])))]
    t.contracts[UT + "::get_alpha"] = c_alpha
    paths = t.run(UT, "get_alpha_vec", [W])
    t.no_raise(paths)
    t.prove_paths("shape_Kx1_entry_k_is_alpha_of_row_k", paths,
                  lambda p: z3.And(z3.BoolVal(isinstance(p.value, L.SArr) and p.value.shape == (K, 1)),
                                   *[V.R(p.value.a[k, 0]) == A(k) for k in range(K)]) if isinstance(p.value, L.SArr) and p.value.shape == (K, 1) else False)
    t.prove("each_row_queried_once_on_the_same_matrix", z3.BoolVal(sorted(s[0] for s in seen) == list(range(K)) and all(s[1] for s in seen)))


def _ustar(cls, relpath, K, m):
    @task("C17", "%s.compute_u_star[K=%d,m=%d]" % (cls, K, m))
    def _t(t):
        W = t.inp("W", InArr("W", (K, m)))
        WS = t.inputs["W"].snapshot
        cone = SObj("ConeStub", {"W": W})
        order = SObj("OrderStub", {"ordering_cone": cone})
        obj = SObj(cls_ref(relpath, cls), {"order": order, "m": m})
        paths = t.run(relpath, cls + ".compute_u_star", [], self_val=obj)
        t.must_fail()
        t.no_raise(paths)
        if len(t.ctx.nlp) != 1:
            t.prove("exactly_one_program_handed_to_the_optimiser", False)
            return
        rec = t.ctx.nlp[0]
        z = [V.R(x) for x in rec["z"].flat()]
        rows = [[WS.a[k, c] for c in range(m)] for k in range(K)]
        nz = V.R(rec["objective"])
        t.prove("objective_is_the_euclidean_norm", z3.And(nz >= 0, nz * nz == sum((a * a for a in z[1:]), z[0] * z[0])))
        cons = rec["constraints"]
        ok = len(cons) == 1 and cons[0]["type"] == "ineq" and cons[0]["at_z"].shape == (K,)
        t.prove("one_inequality_constraint_vector_with_one_entry_per_facet", z3.BoolVal(ok))
        if ok:
            t.prove("constraints_are_all_facet_functionals_at_least_1",
                    z3.And(*[V.R(cons[0]["at_z"].flat()[k]) == S.dot(rows[k], z) - 1 for k in range(K)]))
        zs = [V.R(x) for x in rec["star"].flat()]

        def goal(p):
            if p.kind != "return" or not isinstance(p.value, tuple) or len(p.value) != 2:
                return False
            u, d1 = p.value
            d1 = V.R(d1)
            if not isinstance(u, L.SArr) or u.shape != (m,):
                return False
            return z3.And(d1 >= 0, d1 * d1 == sum((a * a for a in zs[1:]), zs[0] * zs[0]),
                          *[V.R(u.flat()[c]) * d1 == zs[c] for c in range(m)])
        t.prove_paths("u_star_is_the_normalised_minimiser_and_d1_its_norm", paths, goal)
        # u* lies in the cone: W z* >= 1 > 0 and positive scaling
        t.prove_paths("u_star_is_in_the_cone", paths,
                      lambda p: z3.And(*[S.dot(rows[k], [V.R(x) for x in p.value[0].flat()]) >= 0 for k in range(K)]) if isinstance(p.value, tuple) else False)
        t.implicit()
    return _t


for (_K, _m) in [(2, 2), (3, 2), (3, 3), (4, 3)]:
    _ustar("VOGP", "vopy/algorithms/vogp.py", _K, _m)
_ustar("VOGP_AD", "vopy/algorithms/vogp_ad.py", 2, 2)
_ustar("VOGP_AD", "vopy/algorithms/vogp_ad.py", 4, 3)


@task("C17", "ConeTheta2D.beta")
def _beta(t):
    deg = t.inp("deg", InReal("deg"))
    t.assume(deg > 0, deg < 180)
    obj = SObj(cls_ref(CONE, "ConeTheta2D"), {"cone_degree": deg})
    paths = t.run(CONE, "ConeTheta2D.beta", [], self_val=obj)
    t.must_fail()
    t.cover("acute", [deg < 90])
    t.cover("obtuse", [deg > 90])
    t.no_raise(paths)
    s = L.SIN(V.R(deg) / 180 * L.PI)
    t.prove_paths("beta_is_1_over_sin_theta_for_acute_and_1_for_right_or_obtuse", paths,
                  lambda p: z3.And(z3.Implies(deg < 90, V.R(p.value) == 1 / s), z3.Implies(deg >= 90, V.R(p.value) == 1)))
    t.implicit()
