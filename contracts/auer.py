"""Auer: C02 (discarding) and C03 (pareto_updating) with each design's OWN displayed half-width.

Widths: the property speaks about the designs' own confidence widths, i.e. the half-widths of the
rectangles the design space currently displays, W_k(A.reg(x)).  The code reads `self.beta_t[pos]`, a row of
the array `compute_beta` returned, addressed by the POSITION of the design in the iteration order of
self.S.  The link  beta_t[i] == W(A.reg(seq_S[i]))  is therefore a PRECONDITION of the two methods here
(`aligned`), and an obligation at their call sites in run_one_step (see c06_steps.py), where it fails for
use_empirical_beta=True after discarding has shrunk S (known finding) and holds otherwise.
"""
import z3

from pyvc.harness import task, cls_ref
from pyvc import finite
from pyvc import libmodel as L
from pyvc import setmode as SM
from pyvc import values as V
from pyvc.values import Opaque, SObj, Unsupported
from .algos import ALGOS, REGION, AlgoState, same_set, set_is, _nocapture

I = z3.IntSort()
q = z3.Int("q!w")
s_ = z3.Int("s!w")
xc = z3.Int("x!c")  # quantified variable of the one-directional clauses (distinct from the bound variables of cert / P1 / held)


def _mono(t, A, paths):
    """Monotonicity facts consumed by the step composition (C06) and the run-level lemma (C01)."""
    t.prove_paths("mono/S_only_shrinks", paths, lambda p: z3.ForAll([xc], z3.Implies(z3.Select(A.final(p)[0], xc), z3.Select(A.S0, xc))))
    t.prove_paths("mono/P_only_grows", paths, lambda p: z3.ForAll([xc], z3.Implies(z3.Select(A.P0, xc), z3.Select(A.final(p)[1], xc))))
    t.prove_paths("mono/S_and_P_stay_disjoint", paths, lambda p: z3.ForAll([xc], z3.Not(z3.And(z3.Select(A.final(p)[0], xc), z3.Select(A.final(p)[1], xc)))))
    t.prove_paths("mono/a_design_enters_P_only_from_S", paths, lambda p: z3.ForAll([xc], z3.Implies(z3.Select(A.final(p)[1], xc), z3.Or(z3.Select(A.P0, xc), z3.Select(A.S0, xc)))))


class RowMap:
    """beta_t: array (rows, m); row i is the vector (BT_0(i), .., BT_{m-1}(i))."""

    def __init__(self, fns, rows):
        self.fns = fns
        self.rows = rows

    def getitem(self, ex, st, idx):
        i = V.Z(idx)
        ex.ctx.obligation("no-raise:IndexError", z3.And(i >= 0, i < self.rows))
        return L.mk([f(i) for f in self.fns], (len(self.fns),), "f")

    def clone(self, memo):
        return self


def auer_state(t, m):
    A = AlgoState(t, "Auer", with_U=False)
    A.m = m
    A.BT = [z3.Function("BT%d" % k, I, z3.RealSort()) for k in range(m)]
    A.CEN = [z3.Function("CEN%d" % k, REGION, z3.RealSort()) for k in range(m)]
    A.WID = [z3.Function("WID%d" % k, REGION, z3.RealSort()) for k in range(m)]
    A.obj.fields["beta_t"] = RowMap(A.BT, A.S.card())
    from .algos import RegionList
    A.ds.fields["confidence_regions"] = RegionList(A.REG0, A.N, attrs=lambda term: {"center": L.mk([f(term) for f in A.CEN], (m,), "f")})
    i = z3.Int("i!q")
    rr = z3.Const("r!q", REGION)
    # displayed rectangles have lower <= upper (C14), i.e. non-negative half-widths
    t.assume(z3.ForAll([rr], z3.And(*[w(rr) >= 0 for w in A.WID])))
    t.assume(*A.S.order_axioms())
    # aligned: row i of beta_t is the displayed half-width of the i-th design in S's iteration order
    t.assume(z3.ForAll([i], z3.Implies(z3.And(0 <= i, i < A.S.card()),
                                       z3.And(*[A.BT[k](i) == A.WID[k](A.reg(z3.Select(A.S.seq, i))) for k in range(m)]))))
    return A


def zmax(xs):
    r = xs[0]
    for x in xs[1:]:
        r = z3.If(x > r, x, r)
    return r


def zmin(xs):
    r = xs[0]
    for x in xs[1:]:
        r = z3.If(x < r, x, r)
    return r


def small_m(A, p, qq):
    return zmax([z3.RealVal(0), zmin([A.CEN[k](A.reg(qq)) - A.CEN[k](A.reg(p)) for k in range(A.m)])])


def big_m(A, p, qq):
    return zmax([z3.RealVal(0), zmax([A.CEN[k](A.reg(p)) + A.eps - A.CEN[k](A.reg(qq)) for k in range(A.m)])])


def wsum(A, p, qq, k):
    return A.WID[k](A.reg(p)) + A.WID[k](A.reg(qq))


def auer_replay(t, A, method, expS, expP):
    def builder(mdl):
        n = t.finite.get("n") if t.finite else mdl.eval(A.N, model_completion=True).as_long()
        dom = list(range(-1, n + 1))
        ev = lambda e: mdl.eval(finite.expand(e, dom), model_completion=True)
        tb = lambda e: z3.is_true(ev(e))

        def fl(e):
            v = ev(e)
            return float(v.numerator_as_long()) / float(v.denominator_as_long())
        rng = range(n)
        mem = lambda arr: sorted(k for k in rng if tb(z3.Select(arr, k)))
        cen = [[fl(A.CEN[k](A.reg(i))) for k in range(A.m)] for i in rng]
        wid = [[fl(A.WID[k](A.reg(i))) for k in range(A.m)] for i in rng]
        exp = {"S": sorted(k for k in rng if tb(expS(z3.IntVal(k)))), "P": sorted(k for k in rng if tb(expP(z3.IntVal(k))))}
        Ls = ["import vopy.algorithms.auer as M",
              "from vopy.confidence_region import RectangularConfidenceRegion",
              "N = %d; EPS = %r; cen = np.array(%r, dtype=float).reshape(N, %d); wid = np.array(%r, dtype=float).reshape(N, %d)" % (n, fl(A.eps), cen, A.m, wid, A.m),
              "class DS: pass",
              "ds = DS(); ds.cardinality = N",
              "ds.confidence_regions = [RectangularConfidenceRegion(%d, cen[i] - np.abs(wid[i]), cen[i] + np.abs(wid[i])) for i in range(N)]" % A.m,
              "a = object.__new__(M.Auer); a.S = set(%r); a.P = set(%r); a.epsilon = EPS; a.design_space = ds" % (mem(A.S0), mem(A.P0)),
              "a.beta_t = np.array([wid[x] for x in list(a.S)]).reshape(len(a.S), %d)   # aligned with the real iteration order" % A.m,
              "if (wid < 0).any(): print('counter-model has a negative width: not a displayable region'); print('REPLAY-NOT-REPRODUCED obligation=%s' % OBLIGATION); raise SystemExit(4)",
              "try:\n    a.%s(); out = 'return'\nexcept Exception as e:\n    out = 'raise ' + type(e).__name__ + ': ' + str(e)" % method,
              "got = {'S': sorted(a.S), 'P': sorted(a.P)}; exp = %r" % (exp,),
              "print('INPUT S={} P={} centres={} widths={}'.format(%r, %r, cen.tolist(), wid.tolist()))" % (mem(A.S0), mem(A.P0)),
              "print('REAL ', out, got); print('SPEC ', exp)",
              "if out != 'return' or got != exp:\n    print('REPLAY-CONFIRMED obligation=%s (real method deviates from the specified transition)' % OBLIGATION)\n    raise SystemExit(1)",
              "print('REPLAY-NOT-REPRODUCED obligation=%s' % OBLIGATION)\nraise SystemExit(4)"]
        return Ls
    return builder


def auer_unrolled(t, A, method, clause, expS, expP, N=3):
    """Bounded structural cross-check / fall-back for Auer (cf. algos.unrolled_transition): the real method runs without loop
    summaries on every S/P configuration of N designs, beta_t being the (|S|, m) array of the designs' own displayed
    half-widths in S's (sorted) iteration order; centres and widths stay symbolic."""
    import itertools
    from pyvc.libcalls import ConcSet
    from pyvc.symexec import find_obj
    from .algos import RegionList, I as INT
    m = A.m
    dom = list(range(-1, N + 1))

    def arr_of(members):
        a = z3.K(INT, z3.BoolVal(False))
        for k in members:
            a = z3.Store(a, z3.IntVal(k), z3.BoolVal(True))
        return a
    goals = []
    n_cfg = 0
    for lab in itertools.product("SPN", repeat=N):
        S0c = [k for k in range(N) if lab[k] == "S"]
        P0c = [k for k in range(N) if lab[k] == "P"]
        n_cfg += 1
        sub = [(A.S0, arr_of(S0c)), (A.P0, arr_of(P0c)), (A.N, z3.IntVal(N))]
        fields = dict(A.fields0)
        fields["S"], fields["P"] = ConcSet(S0c), ConcSet(P0c)
        fields["beta_t"] = L.mk([A.WID[k](A.reg(z3.IntVal(s))) for s in S0c for k in range(m)], (len(S0c), m), "f")
        fields["design_space"] = SObj("DesignSpaceStub", {"confidence_regions": RegionList(A.REG0, z3.IntVal(N), attrs=lambda term: {"center": L.mk([f(term) for f in A.CEN], (m,), "f")}),
                                                          "cardinality": N}, tag="ds")
        obj = SObj(A.obj.cls, fields, tag="self")
        saved = list(t.pre)
        rr = z3.Const("r!q", REGION)
        t.pre = [A.eps >= 0, z3.ForAll([rr], z3.And(*[w(rr) >= 0 for w in A.WID]))]
        try:
            paths = t.run(ALGOS["Auer"], "Auer." + method, [], self_val=obj, setmode=False)
        finally:
            t.pre = saved
        for p in paths:
            if p.kind != "return":
                goals.append(z3.Implies(p.cond(), z3.BoolVal(False)))
                continue
            o = find_obj(p.st, obj.oid)
            cs = []
            for key, exp in (("S", expS), ("P", expP)):
                got = set(o.fields[key].vals) if isinstance(o.fields[key], ConcSet) else None
                for k in range(N):
                    want = finite.expand(z3.substitute(exp(z3.IntVal(k)), *sub), dom)
                    cs.append((z3.BoolVal(k in got) == want) if got is not None else z3.BoolVal(False))
            goals.append(z3.Implies(z3.And(A.eps >= 0, *[A.WID[k](A.reg(z3.IntVal(i))) >= 0 for i in range(N) for k in range(m)], p.cond()), z3.And(*cs)))
    t.trusted.add("bounded cross-check: N = %d designs, all %d S/P configurations, centres and widths symbolic" % (N, n_cfg))
    t.prove("%s[bounded: every configuration of %d designs, no loop summaries]" % (clause, N), z3.And(*goals), use_pre=False, kind="bounded",
            timeout_ms=max(t.timeout_ms, 120000))


def _auer_discarding(m):
    @task("C02", "Auer.discarding[m=%d]" % m)
    def _t(t):
        t.mode = "set-level S, P; objectives unrolled m=%d; centres and widths arbitrary reals" % m
        A = auer_state(t, m)
        cert0 = lambda p: z3.Exists([q], z3.And(z3.Select(A.S0, q), q != p, z3.And(*[small_m(A, p, q) > wsum(A, p, q, k) for k in range(m)])))
        bounded = lambda: auer_unrolled(t, A, "discarding", "exactly_designs_beaten_by_more_than_both_own_widths_in_every_objective_leave",
                                        lambda e: z3.And(z3.Select(A.S0, e), z3.Not(cert0(e))), lambda e: z3.Select(A.P0, e))
        t.bounded_fn = bounded
        try:
            paths = t.run(ALGOS["Auer"], "Auer.discarding", [], self_val=A.obj, setmode=True)
        except Unsupported as ex_:
            bounded()
            t.fallback(str(ex_))
            return
        t.must_fail()
        t.no_raise(paths)
        cert = _nocapture(lambda p: z3.Exists([q], z3.And(z3.Select(A.S0, q), q != p,
                                                          z3.And(*[small_m(A, p, q) > wsum(A, p, q, k) for k in range(m)]))))
        expS = lambda e: z3.And(z3.Select(A.S0, e), z3.Not(cert(e)))
        expP = lambda e: z3.Select(A.P0, e)
        t.finite = {"N": A.N, "replay": auer_replay(t, A, "discarding", expS, expP)}
        t.prove_paths("exactly_designs_beaten_by_more_than_both_own_widths_in_every_objective_leave/S'", paths,
                      lambda p: set_is(A.final(p)[0], expS))
        t.prove_paths("frame:P_unchanged", paths, lambda p: same_set(A.final(p)[1], A.P0))
        # the soundness direction consumed by the C01 lemma (a more conservative rule keeps it)
        t.prove_paths("safe/a_design_leaves_S_only_when_another_candidate_beats_it_by_more_than_both_own_widths_in_every_objective", paths,
                      lambda p: z3.ForAll([xc], z3.Implies(z3.And(z3.Select(A.S0, xc), z3.Not(z3.Select(A.final(p)[0], xc))), cert(xc))))
        t.prove_paths("safe/P_untouched", paths, lambda p: same_set(A.final(p)[1], A.P0))
        _mono(t, A, paths)
        t.finite = None
        t.implicit()
        if t.tier == "thorough":
            bounded()
    return _t


def _auer_pareto(m):
    @task("C03", "Auer.pareto_updating[m=%d]" % m)
    def _t(t):
        t.mode = "set-level S, P; objectives unrolled m=%d; centres and widths arbitrary reals" % m
        A = auer_state(t, m)

        def bounded():
            P1b = lambda p: z3.And(z3.Select(A.S0, p), z3.Not(z3.Exists([q], z3.And(z3.Select(A.S0, q), q != p, z3.And(*[big_m(A, p, q) < wsum(A, p, q, k) for k in range(m)])))))
            heldb = lambda p: z3.Exists([s_], z3.And(z3.Select(A.S0, s_), z3.Not(P1b(s_)), z3.And(*[big_m(A, s_, p) <= wsum(A, p, s_, k) for k in range(m)])))
            newb = lambda p: z3.And(P1b(p), z3.Not(heldb(p)))
            auer_unrolled(t, A, "pareto_updating", "passing_designs_not_held_back_move_to_P(own widths)",
                          lambda e: z3.And(z3.Select(A.S0, e), z3.Not(newb(e))), lambda e: z3.Or(z3.Select(A.P0, e), newb(e)))
        t.bounded_fn = bounded
        try:
            paths = t.run(ALGOS["Auer"], "Auer.pareto_updating", [], self_val=A.obj, setmode=True)
        except Unsupported as ex_:
            bounded()
            t.fallback(str(ex_))
            return
        t.must_fail()
        t.no_raise(paths)
        P1 = lambda p: z3.And(z3.Select(A.S0, p), z3.Not(z3.Exists([q], z3.And(
            z3.Select(A.S0, q), q != p, z3.And(*[big_m(A, p, q) < wsum(A, p, q, k) for k in range(m)])))))
        held = lambda p: z3.Exists([s_], z3.And(z3.Select(A.S0, s_), z3.Not(P1(s_)),
                                                z3.And(*[big_m(A, s_, p) <= wsum(A, p, s_, k) for k in range(m)])))
        new = lambda p: z3.And(P1(p), z3.Not(held(p)))
        expS = lambda e: z3.And(z3.Select(A.S0, e), z3.Not(new(e)))
        expP = lambda e: z3.Or(z3.Select(A.P0, e), new(e))
        t.finite = {"N": A.N, "replay": auer_replay(t, A, "pareto_updating", expS, expP)}
        t.prove_paths("passing_designs_not_held_back_move_to_P(own widths)/S'", paths, lambda p: set_is(A.final(p)[0], expS))
        t.prove_paths("passing_designs_not_held_back_move_to_P(own widths)/P'", paths, lambda p: set_is(A.final(p)[1], expP))
        t.prove_paths("safe/a_design_enters_P_only_if_it_passes_against_every_candidate_and_no_non_passing_candidate_still_needs_it", paths,
                      lambda p: z3.ForAll([xc], z3.Implies(z3.And(z3.Select(A.final(p)[1], xc), z3.Not(z3.Select(A.P0, xc))), new(xc))))
        t.prove_paths("safe/every_candidate_stays_in_S_or_moves_to_P", paths,
                      lambda p: z3.ForAll([xc], z3.Implies(z3.Select(A.S0, xc), z3.Or(z3.Select(A.final(p)[0], xc), z3.Select(A.final(p)[1], xc)))))
        _mono(t, A, paths)
        t.finite = None
        t.implicit()
        if t.tier == "thorough":
            bounded()
    return _t


for _m in (2, 3):
    _auer_discarding(_m)
    _auer_pareto(_m)
