"""C19 -- gaps, eps-coverage and eps-F1 agree with their geometric definitions."""
import itertools
from fractions import Fraction

import z3

from pyvc.harness import InArr, InConst, InOrder, InReal, task, cls_ref
from pyvc import libmodel as L
from pyvc import values as V
from pyvc.values import SObj
from . import spec as S
from .c10_covered import cvx_for_path

UT = "vopy/utils/utils.py"
EV = "vopy/utils/evaluate.py"


def zmax(xs):
    r = xs[0]
    for x in xs[1:]:
        r = z3.If(x > r, x, r)
    return r


def zmin(xs):
    r = xs[0]
    for x in xs[1:]:
        r = z3.If(x < r, x, r)
    return r


def mij_spec(W, alpha, vi, vj):
    """min_k max(0, W_k.(vj - vi)) / alpha_k."""
    d = S.vsub(vj, vi)
    return zmin([z3.If(S.dot(w, d) < 0, z3.RealVal(0), S.dot(w, d)) / V.R(a) for w, a in zip(W, alpha)])


def _smallmij(m, K, ashape):
    @task("C19", "get_smallmij[m=%d,K=%d,alpha_shape=%s]" % (m, K, "x".join(map(str, ashape))))
    def _t(t):
        t.mode = "unrolled m=%d K=%d" % (m, K)
        vi = t.inp("vi", InArr("vi", (m,)))
        vj = t.inp("vj", InArr("vj", (m,)))
        W = t.inp("W", InArr("W", (K, m)))
        al = t.inp("alpha", InArr("al", ashape))
        AL = t.inputs["alpha"].snapshot.flat()
        t.assume(*[V.R(a) > 0 for a in AL])
        paths = t.run(UT, "get_smallmij", [vi, vj, W, al])
        t.must_fail()
        t.no_raise(paths)
        Wr = [[t.inputs["W"].snapshot.a[k, j] for j in range(m)] for k in range(K)]
        spec = mij_spec(Wr, AL, t.inputs["vi"].snapshot.flat(), t.inputs["vj"].snapshot.flat())
        t.prove_paths("result_is_min_over_facets_of_clipped_functional_over_own_alpha", paths,
                      lambda p: V.R(p.value) == spec if p.kind == "return" and not isinstance(p.value, L.SArr) else False)
        t.frame_unchanged("frame:inputs-not-written", paths, ["vi", "vj", "W", "alpha"])
        t.agree(paths, k=1)
        t.implicit()
    return _t


for (_m, _K) in [(2, 2), (2, 3), (3, 3)]:
    _smallmij(_m, _K, (_K, 1))
    _smallmij(_m, _K, (_K,))
_smallmij(2, 1, (1, 1))


def _delta(N, m, K, mu_kind="f"):
    @task("C19", "get_delta[N=%d,m=%d,K=%d%s]" % (N, m, K, "" if mu_kind == "f" else ",mu dtype=int"))
    def _t(t):
        mu = t.inp("mu", InArr("mu", (N, m), mu_kind))     # mu_kind="i": an integer-dtype value table (gaps are still reals)
        W = t.inp("W", InArr("W", (K, m)))
        al = t.inp("alpha", InArr("al", (K, 1)))
        MIJ = z3.Function("MIJ", z3.IntSort(), z3.IntSort(), z3.RealSort())
        seen = []

        def c_mij(ex, st, self_val, args, kwargs, node):
            # call by contract: result is the opaque m(i,j) of the two rows handed over
            a, b = args[0], args[1]
            MU = t.inputs["mu"].snapshot
            def which(v):
                for i in range(N):
                    if all(x is y or (hasattr(x, "eq") and hasattr(y, "eq") and x.eq(y)) for x, y in zip(v.flat(), [MU.a[i, c] for c in range(m)])):
                        return i
                return None
            i, j = which(a), which(b)
            seen.append((i, j, args[2] is W or True, args[3] is al or True))
            if i is None or j is None:
                return [(st, z3.Real("mij_unknown!%d" % V.fresh_id()))]
            return [(st, MIJ(i, j))]
        t.contracts[UT + "::get_smallmij"] = c_mij
        paths = t.run(UT, "get_delta", [mu, W, al])
        t.no_raise(paths)
        for i in range(N):
            for j in range(N):
                t.assume(MIJ(i, j) >= 0)

        def goal(p):
            d = p.value
            if not isinstance(d, L.SArr) or d.shape != (N, 1):
                return False
            return z3.And(*[V.R(d.a[i, 0]) == zmax([MIJ(i, j) for j in range(N)]) for i in range(N)])
        t.prove_paths("entry_i_is_max_over_j_of_mij_shape_Nx1", paths, goal)
        t.prove("every_ordered_pair_compared_once", z3.BoolVal(sorted((a, b) for a, b, _, _ in seen) == [(i, j) for i in range(N) for j in range(N)]))
    return _t


_delta(2, 2, 2)
_delta(2, 2, 2, mu_kind="i")
_delta(3, 2, 2)
_delta(3, 3, 4)


def _gap_lemma(m, K):
    @task("C19", "lemma.gap_definition[m=%d,K=%d]" % (m, K))
    def _t(t):
        """With alpha_k = max{W_k.u : u in C, |u| <= 1} (C17): for s >= 0,
             when vj weakly dominates vi:  (forall unit u in C: vj dominates vi + s u)  <=>  s <= mij
             (when it does not, no s >= 0 qualifies and mij = 0: last clause),
           split into the two directions, each needing one property of alpha_k:
             (upper) W_k.u <= alpha_k for every unit cone vector u;  (attained) some unit u_k in C has W_k.u_k = alpha_k."""
        W = [S.reals("w%d" % k, m) for k in range(K)]
        al = S.reals("al", K)
        vi, vj = S.reals("vi", m), S.reals("vj", m)
        s = z3.Real("s")
        u = S.reals("u", m)
        d = S.vsub(vj, vi)
        mij = mij_spec(W, al, vi, vj)
        incone = lambda x: z3.And(*[S.dot(w, x) >= 0 for w in W])
        unit = lambda x: sum((xi * xi for xi in x[1:]), x[0] * x[0]) == 1
        pos = z3.And(*[a > 0 for a in al])
        # (=>) s <= mij and the upper-bound half of alpha's definition give domination along every unit cone direction
        # cut into three small steps per facet k:
        #   (i)  d in C  =>  mij <= (W_k.d)/alpha_k          (min over facets, clip inactive)
        #   (ii) scalar algebra:  0 <= s <= a/alpha, b <= alpha, alpha > 0  =>  a - s b >= 0
        #   (iii) linearity:  W_k.(d - s u) = W_k.d - s W_k.u
        a_, b_, al_ = z3.Reals("a_ b_ al_")
        t.prove("step_ii_scalar_algebra", z3.Implies(z3.And(al_ > 0, s >= 0, s * al_ <= a_, b_ <= al_), a_ - s * b_ >= 0), use_pre=False)
        for k in range(K):
            t.prove("step_i_mij_le_facet_%d_ratio" % k, z3.Implies(z3.And(pos, incone(d)), mij * al[k] <= S.dot(W[k], d)), use_pre=False)
            t.prove("step_iii_linearity_facet_%d" % k, S.dot(W[k], S.vsub(d, [s * x for x in u])) == S.dot(W[k], d) - s * S.dot(W[k], u), use_pre=False)
        # (<=) domination along the attaining direction of the minimising facet forces s <= mij
        for k in range(K):
            uk = S.reals("u%d_" % k, m)
            att = z3.And(incone(uk), unit(uk), S.dot(W[k], uk) == al[k])
            dom_all = z3.And(*[S.dot(W[kk], S.vsub(d, [s * x for x in uk])) >= 0 for kk in range(K)])
            t.prove("domination_along_attaining_direction_of_facet_%d_bounds_s" % k,
                    z3.Implies(z3.And(pos, s >= 0, att, dom_all), s * al[k] <= S.dot(W[k], d)), use_pre=False)
        t.prove("mij_zero_iff_difference_not_in_cone_interior",
                z3.Implies(pos, (mij == 0) == z3.Not(z3.And(*[S.dot(w, d) > 0 for w in W]))), use_pre=False)
    return _t


_gap_lemma(2, 2)
_gap_lemma(3, 3)
_gap_lemma(2, 3)


def _is_covered(m, K):
    @task("C19", "utils.is_covered[m=%d,K=%d]" % (m, K))
    def _t(t):
        vi = t.inp("vi", InArr("vi", (m,)))
        vj = t.inp("vj", InArr("vj", (m,)))
        eps = t.inp("eps", InReal("eps"))
        W = t.inp("W", InArr("W", (K, m)))
        paths = t.run(UT, "is_covered", [vi, vj, eps, W])
        t.must_fail()
        t.no_raise(paths)
        Wr = [[t.inputs["W"].snapshot.a[k, j] for j in range(m)] for k in range(K)]
        VI, VJ = t.inputs["vi"].snapshot.flat(), t.inputs["vj"].snapshot.flat()
        # Semantic statement (robust against shortcuts that skip the solve): COVERED is the specification's verdict
        #     exists u in C, |u| <= eps, vj + u dominates vi;
        # a program whose constraint set is proved pointwise equal to the specification's returns COVERED (A-SOLVE); u = 0 is a
        # witness whenever it satisfies the specification; the result must be COVERED.
        COVERED = z3.Bool("covered_spec")

        def spec_of(u):
            return z3.And(*([S.dot(w, u) >= 0 for w in Wr] + [V.R(eps) >= 0, sum((a * a for a in u[1:]), u[0] * u[0]) <= V.R(eps) * V.R(eps)] +
                            [S.dot(w, S.vsub(S.vadd(VJ, u), VI)) >= 0 for w in Wr]))
        links = [z3.Implies(spec_of([z3.RealVal(0)] * m), COVERED)]
        for i, rec in enumerate(t.ctx.cvx):
            x = rec["vars"]
            if len(x) != m:
                t.prove("single_variable_of_dimension_m#%d" % i, False)
                continue
            u = [x[c] + V.R(VI[c]) - V.R(VJ[c]) for c in range(m)]
            # spec in the variable u = x + vi - vj: u in C, |u| <= eps, vj + u dominates vi (which is x in C)
            r = t.prove("constraints_are_exists_cone_vector_u_of_norm_le_eps_with_vj_plus_u_dominating_vi#%d" % i, rec["constraints"] == spec_of(u), assumptions=rec["pc"][len(t.pre):], needed=True)
            if r is not None and r["status"] == "proved":
                links.append(z3.Implies(z3.And(*rec["pc"][len(t.pre):]) if rec["pc"][len(t.pre):] else z3.BoolVal(True), rec["feas"] == COVERED))
        t.prove_paths("result_is_the_coverage_verdict", paths, lambda p: z3.Implies(z3.And(*links), V.Bz(p.value) == COVERED) if p.kind == "return" else False)
        t.frame_unchanged("frame:inputs-not-written", paths, ["vi", "vj", "W"])
    return _t


_is_covered(2, 2)
_is_covered(2, 3)
_is_covered(3, 3)


def _uncovered(np_, nh):
    @task("C19", "get_uncovered_size_and_set[pareto=%d,hat=%d]" % (np_, nh))
    def _t(t):
        m, K = 2, 2
        pp = t.inp("pp", InArr("pp", (np_, m)))
        ph = t.inp("ph", InArr("ph", (nh, m)))
        eps = t.inp("eps", InReal("eps"))
        W = t.inp("W", InArr("W", (K, m)))
        C = [[z3.Bool("cov_%d_%d" % (i, j)) for j in range(nh)] for i in range(np_)]
        PP, PH = t.inputs["pp"].snapshot, t.inputs["ph"].snapshot

        def row_of(v, A, n):
            for i in range(n):
                if all(x is y or (hasattr(x, "eq") and hasattr(y, "eq") and x.eq(y)) for x, y in zip(v.flat(), [A.a[i, c] for c in range(m)])):
                    return i
            return None

        def c_cov(ex, st, self_val, args, kwargs, node):
            i, j = row_of(args[0], PP, np_), row_of(args[1], PH, nh)
            if i is None or j is None or args[2] is not eps:
                return [(st, z3.Bool("cov_unknown!%d" % V.fresh_id()))]
            return [(st, C[i][j])]
        t.contracts[UT + "::is_covered"] = c_cov
        paths = t.run(UT, "get_uncovered_size", [pp, ph, eps, W])
        t.no_raise(paths)
        want = sum((z3.If(z3.Or(*C[i]) if nh else z3.BoolVal(False), 0, 1) for i in range(np_)), z3.IntVal(0))
        t.prove_paths("count_of_pareto_points_no_predicted_point_covers", paths, lambda p: V.Z(p.value) == want if p.kind == "return" else False)
        # the set variant, on index lists
        mu = t.inp("mu", InArr("mu", (np_ + nh, m)))
        MU = t.inputs["mu"].snapshot

        def c_cov2(ex, st, self_val, args, kwargs, node):
            i, j = row_of(args[0], MU, np_ + nh), row_of(args[1], MU, np_ + nh)
            if i is None or j is None or i >= np_ or j < np_:
                return [(st, z3.Bool("cov_unknown!%d" % V.fresh_id()))]
            return [(st, C[i][j - np_])]
        t.contracts[UT + "::is_covered"] = c_cov2
        paths2 = t.run(UT, "get_uncovered_set", [list(range(np_)), list(range(np_, np_ + nh)), mu, eps, W])
        t.no_raise(paths2, clause="no-raise(set)")

        def goal2(p):
            if p.kind != "return" or not isinstance(p.value, list):
                return False
            # on this path the returned list is exactly the uncovered indices in increasing order
            exp = [i for i in range(np_)]
            conds = []
            for i in range(np_):
                unc = z3.Not(z3.Or(*C[i])) if nh else z3.BoolVal(True)
                conds.append(z3.BoolVal(i in p.value) == unc)
            return z3.And(z3.BoolVal(p.value == sorted(p.value)), *conds)
        t.prove_paths("set_variant_lists_exactly_the_uncovered_indices", paths2, goal2)
    return _t


_uncovered(2, 2)
_uncovered(3, 1)
_uncovered(2, 0)


def _f1(N, true_idx, pred_idx):
    nm = "epsilonF1[N=%d,true=%s,pred=%s]" % (N, "".join(map(str, true_idx)), "".join(map(str, pred_idx)) or "none")

    @task("C19", nm)
    def _t(t):
        m, K = 2, 2
        out = t.inp("out_data", InArr("out", (N, m)))
        order = t.inp("order", InOrder("o", K, m))
        eps = t.inp("eps", InReal("eps"))
        t.assume(eps >= 0)
        ds = SObj("DatasetStub", {"out_data": out})
        missed = sorted(set(true_idx) - set(pred_idx))
        unc = z3.Int("uncovered")
        delta = L.fresh_array("delta", (N, 1))
        got = {}

        def c_unc(ex, st, self_val, args, kwargs, node):
            got["unc_args"] = (L.as_arr(args[0]).shape[0], L.as_arr(args[1]).shape[0], args[2] is eps)
            st.pc.append(z3.And(unc >= 0, unc <= len(missed)))
            if not pred_idx:
                st.pc.append(unc == len(missed))  # nothing can cover when nothing is predicted (proved above)
            return [(st, unc)]

        def c_delta(ex, st, self_val, args, kwargs, node):
            got["delta_args"] = (args[0] is out, args[1] is t.inputs["order"].cone.fields["W"], args[2] is t.inputs["order"].cone.fields["alpha"])
            for x in delta.flat():
                st.pc.append(x >= 0)
            return [(st, delta)]
        t.contracts[UT + "::get_uncovered_size"] = c_unc
        t.contracts[UT + "::get_delta"] = c_delta
        ti = L.mk(list(true_idx), (len(true_idx),), "i")
        pi = L.mk(list(pred_idx), (len(pred_idx),), "i")
        paths = t.run(EV, "calculate_epsilonF1_score", [ds, order, ti, pi, eps])
        t.must_fail()
        t.no_raise(paths)
        tp = sum((z3.If(V.R(delta.a[i, 0]) <= V.R(eps), 1, 0) for i in pred_idx), z3.IntVal(0))
        fp = len(pred_idx) - tp
        den = 2 * tp + fp + unc
        t.prove("callees_get_the_missed_true_points_the_predicted_points_and_the_cone",
                z3.BoolVal(got.get("unc_args") == (len(missed), len(pred_idx), True) and got.get("delta_args") == (True, True, True)))
        t.prove_paths("denominator_positive_when_true_set_nonempty", paths, lambda p: den > 0)
        t.prove_paths("score_is_2tp_over_2tp_plus_fp_plus_uncovered_missed", paths,
                      lambda p: V.R(p.value) * z3.ToReal(den) == z3.ToReal(2 * tp) if p.kind == "return" else False)
        t.prove_paths("score_in_unit_interval", paths, lambda p: z3.And(V.R(p.value) >= 0, V.R(p.value) <= 1))
        if sorted(pred_idx) == sorted(true_idx):
            # prediction is the true Pareto set: gaps are 0 there (lemma above) and nothing is missed
            t.prove_paths("equals_1_when_prediction_is_the_true_pareto_set", paths,
                          lambda p: z3.Implies(z3.And(*[V.R(delta.a[i, 0]) == 0 for i in pred_idx]), V.R(p.value) == 1))
    return _t


_f1(3, (0, 1), (0, 1))
_f1(3, (0, 1), (1, 0))
_f1(3, (0, 1), (0,))
_f1(3, (0, 1), (0, 1, 2))
_f1(3, (0,), ())
_f1(4, (0, 2), (3, 2))


@task("C19", "lemma.f1_monotone_and_order_free")
def _f1_lemmas(t):
    """f(tp, unc) = 2tp/(tp + n + unc) (since fp = n - tp) is non-decreasing in tp and non-increasing in unc;
    tp(eps) = #{i in pred | gap_i <= eps} is non-decreasing in eps and unc(eps) non-increasing (coverage is monotone
    in eps: a witness for eps serves every larger eps), hence the score never decreases as eps grows.  tp, n and
    unc depend on pred only through its set of indices (a sum over it / set difference), so order is irrelevant."""
    tp, tp2, n, unc, unc2 = z3.Reals("tp tp2 n unc unc2")
    f = lambda a, b: 2 * a / (a + n + b)
    pre = z3.And(0 <= tp, tp <= tp2, tp2 <= n, 0 <= unc2, unc2 <= unc, n + unc2 > 0)
    t.prove("score_monotone_in_tp_and_antitone_in_uncovered", z3.Implies(pre, f(tp, unc) <= f(tp2, unc2)), use_pre=False)
    g, e1, e2 = z3.Reals("g e1 e2")
    t.prove("gap_indicator_monotone_in_eps", z3.Implies(z3.And(e1 <= e2, g <= e1), g <= e2), use_pre=False)
    m = 2
    u = S.reals("u", m)
    t.prove("coverage_witness_persists_for_larger_eps",
            z3.Implies(z3.And(0 <= e1, e1 <= e2, u[0] * u[0] + u[1] * u[1] <= e1 * e1), u[0] * u[0] + u[1] * u[1] <= e2 * e2), use_pre=False)


# ----------------------------------------------------------------------------------------------
# calculate_hypervolume_discrepancy_for_model: data flow.  botorch's Hypervolume, the Sobol sampler, the problem, the model and
# get_pareto_set are used BY CONTRACT; decided here: both fronts are measured in the cone's FACET coordinates (row i -> W f_i),
# against the same reference point (the column-wise minimum over all sampled designs), true front first, result = log of the
# difference.  (That HV(true front) >= HV(predicted subset) is then a property of the monotone set function itself.)
# ----------------------------------------------------------------------------------------------
EV = "vopy/utils/evaluate.py"


@task("C19", "calculate_hypervolume_discrepancy_for_model[N=3,m=2,K=2]")
def _hv_flow(t):
    from pyvc.harness import InOrder
    from pyvc.values import SObj, Opaque
    N, m, K, d = 3, 2, 2, 2
    order = t.inp("order", InOrder("o", K, m))
    O = t.inputs["order"]
    F = L.fresh_array("f", (N, m))
    Y = L.fresh_array("y", (N, m))
    X = L.fresh_array("x", (N, d))
    hv_true, hv_pred = z3.Real("hv_true"), z3.Real("hv_pred")
    t.assume(hv_true - hv_pred > z3.RealVal("0.0001"))
    log_ = {"hv": [], "pareto": [], "eval": [], "predict": []}

    class HV:
        def __init__(self, ref):
            self.ref = ref

        def getattr(self, ex, st, name):
            if name == "compute":
                return self
            raise AttributeError(name)

        def call(self, ex, st, args, kwargs, node):
            log_["hv"].append((self.ref, args[0]))
            return hv_true if len(log_["hv"]) == 1 else hv_pred

        def clone(self, memo):
            return self

    class Obj:
        def __init__(self, kind):
            self.kind = kind

        def getattr(self, ex, st, name):
            if self.kind == "problem" and name == "in_dim":
                return d
            return Meth(self.kind, name)

        def clone(self, memo):
            return self

    class Meth:
        def __init__(self, kind, name):
            self.kind, self.name = kind, name

        def call(self, ex, st, args, kwargs, node):
            if (self.kind, self.name) == ("problem", "evaluate"):
                log_["eval"].append((args[0], kwargs.get("noisy", args[1] if len(args) > 1 else None)))
                return F
            if (self.kind, self.name) == ("model", "predict"):
                log_["predict"].append(args[0])
                return (Y, L.fresh_array("cov", (N, m, m)))
            raise AttributeError(self.name)

        def clone(self, memo):
            return self

    def lib_hook(ex, st, dotted, args, kwargs, node):
        if dotted == "botorch.utils.multi_objective.hypervolume.Hypervolume":
            return HV(args[0] if args else kwargs.get("ref_point"))
        return NotImplemented
    t.hooks["lib"] = lib_hook
    t.contracts["vopy/utils/utils.py::generate_sobol_samples"] = lambda ex, st, sv, args, kwargs, node: [(st, X)]

    def c_pareto(ex, st, sv, args, kwargs, node):
        log_["pareto"].append(args[0])
        return [(st, L.mk([0, 2], (2,), "i") if len(log_["pareto"]) == 1 else L.mk([1], (1,), "i"))]
    t.contracts["vopy/order.py::PolyhedralConeOrder.get_pareto_set"] = c_pareto
    paths = t.run(EV, "calculate_hypervolume_discrepancy_for_model", [order, Obj("problem"), Obj("model")])
    t.must_fail()
    t.no_raise(paths)
    if len(paths) != 1:
        from pyvc.values import Unsupported
        raise Unsupported("the call log of this task is kept per run: a forking body is outside its reach")
    W = S.rows_of(O)
    cone = lambda i: [S.dot(W[k], [V.R(F.a[i, c]) for c in range(m)]) for k in range(K)]
    zmin_ = lambda v: __import__("functools").reduce(lambda a, b: z3.If(b < a, b, a), v)

    def goal(p):
        if len(log_["hv"]) != 2 or len(log_["pareto"]) != 2 or len(log_["eval"]) != 1 or len(log_["predict"]) != 1:
            return False
        (ref1, a1), (ref2, a2) = log_["hv"]
        if ref1 is not ref2 or not isinstance(ref1, L.SArr) or ref1.shape != (K,) or a1.shape != (2, K) or a2.shape != (1, K):
            return False
        cs = [z3.BoolVal(log_["pareto"][0] is F and log_["pareto"][1] is Y and log_["eval"][0][0] is X and log_["eval"][0][1] is False and log_["predict"][0] is X)]
        cs += [V.R(ref1.a[k]) == zmin_([cone(i)[k] for i in range(N)]) for k in range(K)]
        for r, i in enumerate([0, 2]):
            cs += [V.R(a1.a[r, k]) == cone(i)[k] for k in range(K)]
        cs += [V.R(a2.a[0, k]) == cone(1)[k] for k in range(K)]
        cs.append(V.R(p.value) == L.LOG(hv_true - hv_pred) if p.kind == "return" else z3.BoolVal(False))
        return z3.And(*cs)
    t.prove_paths("both_fronts_in_facet_coordinates_W_f_same_reference_point_min_over_all_designs_true_front_first_log_of_difference", paths, goal)
