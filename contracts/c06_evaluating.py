"""C06 / C07 -- evaluating(): which designs are sampled, what reaches the model, what is counted.

Set level: the active sets are arbitrary finite sets; `design_space.points[list(A)]` is the opaque stack of
the rows of A in list order; problem / model / discrete optimisers are called BY CONTRACT and every call is
logged on the path, so the obligations speak about the real data flow of the real evaluating() bodies."""
import z3

from pyvc.harness import task
from pyvc import libmodel as L
from pyvc import setmode as SM
from pyvc import values as V
from pyvc.symexec import SliceVal
from pyvc.values import Opaque, SObj, Unsupported
from .algos import ALGOS, AlgoState, same_set
from .c06_steps import subset

AQ = "vopy/acquisition/acquisition.py"
I = z3.IntSort()


class Rows:
    """Stack of design rows: row k is the row of design seq[k]; cols tags a column slice."""

    def __init__(self, seq, cols="all", origin=None):
        self.seq, self.cols, self.origin = seq, cols, origin

    def getitem(self, ex, st, idx):
        if isinstance(idx, tuple) and len(idx) == 2 and isinstance(idx[0], SliceVal) and idx[0].lo is None and idx[0].hi is None:
            c = idx[1]
            tag = "cols[%s:%s]" % (c.lo, c.hi) if isinstance(c, SliceVal) else "col[%s]" % (c,)
            return Rows(self.seq, tag, self)
        raise Unsupported("row-stack index %r" % (idx,))

    def length(self, ex, st):
        return self.seq.length_t

    def clone(self, memo):
        from pyvc.symexec import clone_val
        return Rows(clone_val(self.seq, memo), self.cols, self.origin)


class PointsMap:
    def getitem(self, ex, st, idx):
        if isinstance(idx, SM.SSeq):
            return Rows(idx, "all")
        raise Unsupported("points index %r" % (idx,))

    def clone(self, memo):
        return self


class Stub:
    """Object whose method calls are logged on the path (st.roots['calls'])."""

    def __init__(self, name, fields=None):
        self.name = name
        self.fields = fields or {}

    def getattr(self, ex, st, attr):
        if attr in self.fields:
            return self.fields[attr]
        return StubMethod(self, attr)

    def clone(self, memo):
        return self


class StubMethod:
    def __init__(self, stub, attr):
        self.stub, self.attr = stub, attr

    def call(self, ex, st, args, kwargs, node):
        rec = {"obj": self.stub.name, "method": self.attr, "args": list(args), "kwargs": dict(kwargs), "ret": None}
        st.roots.setdefault("calls", []).append(rec)
        if self.stub.name == "problem" and self.attr == "evaluate":
            rec["ret"] = Opaque("Obs", z3.Const("obs!%d" % V.fresh_id(), z3.DeclareSort("Obs")))
        return rec["ret"]

    def clone(self, memo):
        return self


COST = z3.Function("cost_of_indices", z3.DeclareSort("EvalIdx"), z3.RealSort())


def install_optimisers(t, batch):
    """optimize_acqf_discrete / optimize_decoupled_acqf_discrete by contract (proved in C07 for the real bodies):
    requires q >= 1 and a non-empty candidate stack; returns min(q, #candidates) distinct rows of the candidates."""
    def mk_sub(ex, st, rows, q):
        ex.ctx.cur_state = st
        ex.ctx.obligation("call-pre(optimize_acqf_discrete): batch >= 1 and at least one active candidate",
                          z3.And(V.Z(q) >= 1, rows.seq.length_t >= 1))
        sub = SM.SSeq(ex.ctx, "chosen")
        # min(batch, number of candidates) rows are returned (C07)
        sub.length_t = z3.If(V.Z(q) <= rows.seq.length_t, V.Z(q), rows.seq.length_t)
        sub.elems = SM.fresh_const(ex.ctx, "chosen_e", SM.SEQSORT)
        sub.mem = SM.fresh_const(ex.ctx, "chosen_m", SM.SETSORT)
        sub.distinct = True
        e = z3.Int("e!q")
        st.pc.append(z3.ForAll([e], z3.Implies(z3.Select(sub.mem, e), z3.Select(rows.seq.mem, e))))
        st.pc.append(z3.ForAll([e], z3.Implies(z3.And(0 <= e, e < sub.length_t), z3.Select(sub.mem, z3.Select(sub.elems, e)))))
        return sub

    def c_opt(ex, st, self_val, args, kwargs, node):
        acq, q = args[0], args[1]
        rows = kwargs.get("choices", args[2] if len(args) > 2 else None)
        st.roots.setdefault("calls", []).append({"obj": "optimiser", "method": "optimize_acqf_discrete", "args": [acq, q, rows]})
        sub = mk_sub(ex, st, rows, q)
        return [(st, (type(rows)(sub, rows.cols, rows), Opaque("AcqValues", z3.Const("acqv!%d" % V.fresh_id(), z3.DeclareSort("AcqValues")))))]

    def c_optd(ex, st, self_val, args, kwargs, node):
        acq, q = args[0], args[1]
        rows = kwargs.get("choices", args[2] if len(args) > 2 else None)
        st.roots.setdefault("calls", []).append({"obj": "optimiser", "method": "optimize_decoupled_acqf_discrete", "args": [acq, q, rows]})
        sub = mk_sub(ex, st, rows, q)
        ei = Opaque("EvalIdx", z3.Const("evidx!%d" % V.fresh_id(), z3.DeclareSort("EvalIdx")))
        return [(st, (type(rows)(sub, rows.cols, rows), Opaque("AcqValues", z3.Const("acqv!%d" % V.fresh_id(), z3.DeclareSort("AcqValues"))), ei))]
    t.contracts[AQ + "::optimize_acqf_discrete"] = c_opt
    t.contracts[AQ + "::optimize_decoupled_acqf_discrete"] = c_optd
    t.trusted.add("callee-contract: the discrete optimisers return `batch` distinct rows of the candidates handed to them (C07)")


class CostVec:
    def getitem(self, ex, st, idx):
        if isinstance(idx, Opaque) and idx.kind == "EvalIdx":
            return Opaque("CostSel", idx.term)
        raise Unsupported("costs index")

    def clone(self, memo):
        return self


def evaluating_replay(t, A, name, method, active, decoupled):
    """Replay of a (candidate) counter-model on the REAL evaluating(): the abstract designs of the model are relabelled with
    identifiers whose CPython set order is not the sorted order, the design space / problem / model are recording stubs, the
    discrete optimisers (their own bodies are verified in C07) are replaced by 'first q rows'.  The replay judges the real
    method against the property itself: only active designs, each at most once, counted, S/P/U untouched, and every
    observation handed to the model paired with the design whose row was evaluated."""
    from pyvc import finite

    def builder(m):
        n = (t.finite or {}).get("n") or m.eval(A.N, model_completion=True).as_long()
        dom = list(range(-1, n + 1))
        tb = lambda e: z3.is_true(m.eval(finite.expand(e, dom), model_completion=True))
        mem = lambda arr: [k for k in range(n) if tb(z3.Select(arr, k))]
        mod = ALGOS[name][:-3].replace("/", ".")
        L = ["import %s as M" % mod, "import itertools",
             "IDS = [8, 1, 16, 3, 32, 5]",
             "NP = 40; f = lambda x: 100.0 * x + 7.0",
             "pts = np.hstack([np.arange(NP, dtype=float)[:, None] / 64.0, np.arange(NP, dtype=float)[:, None]])",
             "class DS: pass",
             "for nm in ('SumVarianceAcquisition', 'MaxDiagonalAcquisition', 'MaxVarianceDecoupledAcquisition', 'ThompsonEntropyDecoupledAcquisition'):\n    if hasattr(M, nm): setattr(M, nm, lambda *a, **k: None)",
             "def run(S0, P0, U0, batch):",
             "    ACTIVE = set().union(*[%s])" % ", ".join({"S": "S0", "P": "P0", "U": "U0"}[k] for k in active),
             "    ds = DS(); ds.points = pts; ds.cardinality = NP",
             "    log = {'eval': [], 'add': [], 'update': 0}; offered = []",
             "    class Problem:\n        def evaluate(self, X, idx=None):\n            X = np.asarray(X, dtype=float); log['eval'].append((X.copy(), idx)); return np.stack([f(X[:, 0]), -f(X[:, 0])], axis=1)",
             "    class Model:\n        output_dim = 2\n        def add_sample(self, I, Y, dim_index=None):\n            log['add'].append((I, np.asarray(Y, dtype=float).copy(), dim_index))\n        def update(self):\n            log['update'] += 1",
             "    def first_q(acq, q, choices):\n        offered.append(np.asarray(choices, dtype=float).copy()); k = min(q, len(choices)); return choices[:k], np.zeros(k)",
             "    def first_q_dec(acq, q, choices):\n        offered.append(np.asarray(choices, dtype=float).copy()); k = min(q, len(choices)); return choices[:k], np.zeros(k), np.zeros(k, dtype=int)",
             "    if hasattr(M, 'optimize_acqf_discrete'): M.optimize_acqf_discrete = first_q",
             "    if hasattr(M, 'optimize_decoupled_acqf_discrete'): M.optimize_decoupled_acqf_discrete = first_q_dec",
             "    a = object.__new__(M.%s)" % name,
             "    a.S = set(S0); a.P = set(P0); a.U = set(U0); a.design_space = ds; a.problem = Problem(); a.model = Model()",
             "    a.batch_size = batch; a.sample_count = 5; a.round = 1; a.costs = None; a.total_cost = 0.0; a.cost_budget = 1e9",
             "    for k, v in list(vars(a).items()):",
             "        pass",
             "    bad = []",
             "    try:\n        a.%s()\n    except Exception as ex:\n        bad.append('raised %%s: %%s' %% (type(ex).__name__, ex))" % method,
             "    if not bad:",
             "        if len(log['eval']) != 1 or len(log['add']) != 1 or log['update'] != 1: bad.append('calls: %r' % ({k: (len(v) if isinstance(v, list) else v) for k, v in log.items()},))",
             "    if not bad:",
             "        X, idx = log['eval'][0]; I, Y, di = log['add'][0]",
             "        xs = [round(float(v) * 64.0) for v in X[:, 0]]      # designs whose rows were evaluated, in order",
             "        if any(d not in ACTIVE for d in xs): bad.append('sampled a design that is not active: %r (active %r)' % (xs, sorted(ACTIVE)))",
             "        if len(set(xs)) != len(xs): bad.append('a design sampled twice: %r' % (xs,))",
             "        if a.sample_count != 5 + len(xs): bad.append('sample_count %r after %d samples' % (a.sample_count, len(xs)))",
             "        if (a.S, a.P, a.U) != (S0, P0, U0): bad.append('S/P/U changed')",
             "        if offered:",
             "            off = sorted(round(float(v[-1])) for v in offered[0])",
             "            if off != sorted(ACTIVE): bad.append('candidates offered %r, active %r' % (off, sorted(ACTIVE)))",
             "            got = [round(float(r[0]) * 64.0) for r in np.asarray(I, dtype=float)]",
             "        else:",
             "            if sorted(xs) != sorted(ACTIVE): bad.append('not every active design sampled once: %r vs %r' % (xs, sorted(ACTIVE)))",
             "            if X.shape[1] != pts.shape[1] - 1: bad.append('index column not stripped')",
             "            got = [int(v) for v in list(I)]",
             "        want = [list(map(float, (f(d / 64.0), -f(d / 64.0)))) for d in got]",
             "        if len(got) != len(Y) or not same(Y, want): bad.append('observations handed to the model are not those of the designs they are paired with: designs %r, rows evaluated %r' % (got, xs))",
             "    return bad",
             "# the solver's candidate first, then every configuration of up to 3 relabelled designs (S non-empty, S and P disjoint, U inside P)",
             "cands = [({IDS[k] for k in %r}, {IDS[k] for k in %r}, {IDS[k] for k in %r})]" % (mem(A.S0), mem(A.P0), mem(A.U0)),
             "for lab in itertools.product('SPUN', repeat=3):",
             "    S0 = {IDS[k] for k in range(3) if lab[k] == 'S'}; P0 = {IDS[k] for k in range(3) if lab[k] in 'PU'}; U0 = {IDS[k] for k in range(3) if lab[k] == 'U'}",
             "    if S0: cands.append((S0, P0, U0))",
             "for (S0, P0, U0) in cands:",
             "    for batch in (2, 1, 5):",
             "        if not S0: continue",
             "        bad = run(S0, P0, U0, batch)",
             "        if bad:",
             "            print('INPUT S=%r P=%r U=%r batch=%d' % (sorted(S0), sorted(P0), sorted(U0), batch)); print('REAL', bad)",
             "            print('REPLAY-CONFIRMED obligation=%s (real evaluating() deviates from the property)' % OBLIGATION)\n            raise SystemExit(1)",
             "print('REPLAY-NOT-REPRODUCED obligation=%s' % OBLIGATION)\nraise SystemExit(4)"]
        return L
    return builder


def _evaluating(name, method, active, decoupled=False):
    @task("C06", "%s.%s" % (name, method))
    def _t(t):
        t.mode = "set-level"
        A = AlgoState(t, name, with_U=("U" in active))
        batch = z3.Int("batch_size")
        t.assume(batch >= 1)
        # evaluating() is only reached with candidates left (run_one_step: early return on empty S / `if self.S:`)
        t.assume(z3.Not(A.S0 == z3.EmptySet(z3.IntSort())))
        A.ds.fields["points"] = PointsMap()
        A.obj.fields.update({"problem": Stub("problem"), "model": Stub("model", {"output_dim": 2}), "batch_size": batch})
        if decoupled:
            A.cost0 = z3.Real("total_cost0")
            A.obj.fields.update({"total_cost": A.cost0, "costs": CostVec()})
        install_optimisers(t, batch)

        def lib_hook(ex, st, dotted, args, kwargs, node):
            if dotted == "numpy.sum" and isinstance(args[0], Opaque) and args[0].kind == "CostSel":
                c = COST(args[0].term)
                st.pc.append(c >= 0)
                return c
            return NotImplemented
        t.hooks["lib"] = lib_hook
        paths = t.run(ALGOS[name], name + "." + method, [], self_val=A.obj, setmode=True)
        t.must_fail()
        t.no_raise(paths)
        arrs = {"S": A.S0, "P": A.P0, "U": A.U0}
        in_active = lambda e: z3.Or(*[z3.Select(arrs[k], e) for k in active])
        e = z3.Int("e!q")

        def goal(p):
            calls = p.st.roots.get("calls") or []
            ev = [c for c in calls if c["obj"] == "problem"]
            add = [c for c in calls if c["obj"] == "model" and c["method"] == "add_sample"]
            upd = [c for c in calls if c["obj"] == "model" and c["method"] == "update"]
            opt = [c for c in calls if c["obj"] == "optimiser"]
            if len(ev) != 1 or len(add) != 1 or len(upd) != 1 or ev[0]["method"] != "evaluate":
                return False
            if not (calls.index(ev[0]) < calls.index(add[0]) < calls.index(upd[0])):
                return False
            rows = ev[0]["args"][0]
            if not isinstance(rows, Rows):
                return False
            S1, P1, U1, o = A.final(p)
            cs = [z3.ForAll([e], z3.Implies(z3.Select(rows.seq.mem, e), in_active(e))),   # only currently active designs
                  z3.BoolVal(rows.seq.distinct is True),                                 # each at most once
                  V.Z(o.fields["sample_count"]) == A.count0 + rows.seq.length_t,         # counted = rows requested
                  same_set(S1, A.S0), same_set(P1, A.P0), same_set(U1, A.U0)]
            # what reaches the model: the queried designs (same collection, same order) with exactly the returned observations
            a0 = add[0]["args"]
            if opt:
                cs.append(z3.BoolVal(isinstance(a0[0], Rows) and a0[0].seq is rows.seq))
                cand = opt[0]["args"][2]
                cs.append(z3.BoolVal(isinstance(cand, Rows) and isinstance(opt[0]["args"][1], z3.ExprRef) and opt[0]["args"][1].eq(batch)))
                # candidates offered to the optimiser = the whole active set
                cs.append(z3.ForAll([e], z3.Select(cand.seq.mem, e) == in_active(e)))
            else:
                # every active design once: the index collection handed to the model iterates in the order the rows were stacked
                cs.append(z3.ForAll([e], z3.Select(rows.seq.mem, e) == in_active(e)))
                src = rows.seq.from_set
                cs.append(z3.BoolVal(isinstance(a0[0], SM.SSet) and src is not None and a0[0].seq.eq(rows.seq.elems) and a0[0].mem.eq(rows.seq.mem)))
                cs.append(z3.BoolVal(rows.cols != "all"))   # the bookkeeping index column is stripped before evaluation
            cs.append(z3.BoolVal(a0[1] is ev[0]["ret"]))
            if decoupled:
                ei = ev[0]["args"][1] if len(ev[0]["args"]) > 1 else None
                cs.append(z3.BoolVal(ei is not None and len(a0) > 2 and a0[2] is ei))
                cs.append(V.R(o.fields["total_cost"]) == A.cost0 + COST(ei.term) if ei is not None else False)
            return z3.And(*cs)
        t.finite = {"N": A.N, "replay": evaluating_replay(t, A, name, method, active, decoupled)}
        t.prove_paths("samples_only_active_designs_once_each_counted_and_handed_to_the_model_with_their_observations", paths, goal)
        t.finite = None
        t.implicit()
    return _t


_evaluating("PaVeBa", "evaluating", ("S", "U"))
_evaluating("Auer", "evaluating", ("S",))
_evaluating("PaVeBaGP", "evaluating", ("S", "U"))
_evaluating("VOGP", "evaluating", ("S", "P"))
_evaluating("EpsilonPAL", "evaluating", ("S", "P"))
_evaluating("PaVeBaPartialGP", "evaluating", ("S", "U"), decoupled=True)


# ----------------------------------------------------------------------------------------------
# VOGP_AD.evaluate_refine: the refined node is replaced by its children IN THE SET IT CAME FROM (C18 / C06)
# ----------------------------------------------------------------------------------------------


class RowOf:
    def __init__(self, design):
        self.design = design

    def clone(self, memo):
        return self


class EqMask:
    def __init__(self, design):
        self.design = design

    def clone(self, memo):
        return self

    def getitem(self, ex, st, idx):
        if idx == 0:
            return WhereIdx(self.design)
        raise Unsupported("index into where() result")


class WhereIdx:
    def __init__(self, design):
        self.design = design

    def getattr(self, ex, st, name):
        if name == "item":
            return self
        raise Unsupported(name)

    def call(self, ex, st, args, kwargs, node):
        return self.design

    def clone(self, memo):
        return self


class PointsMapAD(PointsMap):
    def compare(self, ex, st, name, a, b):
        other = b if a is self else a
        if name == "eq" and isinstance(other, RowOf):
            return EqMask(other.design)
        raise Unsupported("points comparison")


class RowsAD(Rows):
    def getitem(self, ex, st, idx):
        if isinstance(idx, int):
            ex.ctx.obligation("no-raise:IndexError", self.seq.length_t > idx)
            return RowOf(z3.Select(self.seq.elems, idx))
        return Rows.getitem(self, ex, st, idx)

    def clone(self, memo):
        from pyvc.symexec import clone_val
        return RowsAD(clone_val(self.seq, memo), self.cols, self.origin)


@task("C06", "VOGP_AD.evaluate_refine")
def _evaluate_refine(t):
    t.mode = "set-level; design-space calls by contract"
    from .algos import depth
    A = AlgoState(t, "VOGP_AD", with_U=False)
    dchildren = z3.Int("n_children")
    t.assume(dchildren >= 2, z3.Not(A.S0 == z3.EmptySet(I)))

    class PM(PointsMapAD):
        def getitem(self, ex, st, idx):
            if isinstance(idx, SM.SSeq):
                return RowsAD(idx, "all")
            raise Unsupported("points index")
    A.ds.fields["points"] = PM()
    refine = z3.Bool("should_refine")
    kids = {}

    def m_should(ex, st, args, kwargs, node):
        c = V.Z(args[1])
        st.roots.setdefault("calls", []).append({"obj": "design_space", "method": "should_refine_design", "args": list(args)})
        st.pc.append(z3.Implies(refine, depth(c) < A.maxd))      # C18: never refines at max depth
        return refine

    def m_refine(ex, st, args, kwargs, node):
        c = V.Z(args[0])
        st.roots.setdefault("calls", []).append({"obj": "design_space", "method": "refine_design", "args": list(args)})
        ch = SM.SSeq(ex.ctx, "children")
        ch.length_t = dchildren
        ch.elems = SM.fresh_const(ex.ctx, "child_e", SM.SEQSORT)
        ch.mem = SM.fresh_const(ex.ctx, "child_m", SM.SETSORT)
        ch.distinct = True
        e = z3.Int("e!q")
        # C18: children get fresh indices beyond the existing nodes
        st.pc.append(z3.ForAll([e], z3.Implies(z3.Select(ch.mem, e), e >= A.N)))
        st.pc.append(z3.Exists([e], z3.Select(ch.mem, e)))
        kids["mem"] = ch.mem
        kids["parent"] = c
        return ch

    class DSMethods:
        def __init__(self, f):
            self.f = f

        def call(self, ex, st, args, kwargs, node):
            return self.f(ex, st, args, kwargs, node)

        def clone(self, memo):
            return self
    A.ds.fields["should_refine_design"] = DSMethods(m_should)
    A.ds.fields["refine_design"] = DSMethods(m_refine)
    A.obj.fields.update({"problem": Stub("problem"), "model": Stub("model"), "batch_size": 1, "beta": Opaque("Scale", z3.Const("beta", z3.DeclareSort("Scale")))})
    install_optimisers(t, 1)

    def cmp_hook(ex, st, op, a, b):
        import ast as _ast
        for x, y in ((a, b), (b, a)):
            if isinstance(x, PointsMapAD) and isinstance(y, RowOf) and isinstance(op, _ast.Eq):
                return EqMask(y.design)
        return NotImplemented
    t.hooks["compare"] = cmp_hook

    def lib_hook(ex, st, dotted, args, kwargs, node):
        if dotted in ("numpy.all", "numpy.where") and isinstance(args[0], EqMask):
            if dotted == "numpy.where":
                t.trusted.add("design points are pairwise distinct (distinct dyadic cell centres: C18 tiling), so exactly one row equals the candidate")
                return (WhereIdx(args[0].design),)
            return args[0]
        return NotImplemented
    t.hooks["lib"] = lib_hook
    paths = t.run(ALGOS["VOGP_AD"], "VOGP_AD.evaluate_refine", [], self_val=A.obj, setmode=True)
    t.must_fail()
    t.no_raise(paths)
    e = z3.Int("e!q")

    def goal(p):
        calls = p.st.roots.get("calls") or []
        S1, P1, U1, o = A.final(p)
        refined = [c for c in calls if c.get("method") == "refine_design"]
        ev = [c for c in calls if c["obj"] == "problem"]
        if refined:
            c = V.Z(refined[0]["args"][0])
            km = kids["mem"]
            inS = z3.Select(A.S0, c)
            # the refined node is replaced by its children in the set it came from; the other set is untouched
            caseS = z3.And(set_is_(S1, lambda x: z3.Or(z3.And(z3.Select(A.S0, x), x != c), z3.Select(km, x))), same_set(P1, A.P0))
            caseP = z3.And(set_is_(P1, lambda x: z3.Or(z3.And(z3.Select(A.P0, x), x != c), z3.Select(km, x))), same_set(S1, A.S0))
            return z3.And(z3.Or(z3.Select(A.S0, c), z3.Select(A.P0, c)), z3.If(inS, caseS, caseP),
                          V.Z(o.fields["sample_count"]) == A.count0, z3.BoolVal(not ev))
        # no refinement: one evaluation of the chosen active design, sets untouched
        if len(ev) != 1:
            return False
        rows = ev[0]["args"][0]
        act = lambda x: z3.Or(z3.Select(A.S0, x), z3.Select(A.P0, x))
        return z3.And(same_set(S1, A.S0), same_set(P1, A.P0), V.Z(o.fields["sample_count"]) == A.count0 + rows.seq.length_t,
                      z3.ForAll([e], z3.Implies(z3.Select(rows.seq.mem, e), act(e))))
    def builder(mdl):
        from pyvc import finite
        n = t.finite.get("n") if t.finite else 3
        dom = list(range(-1, n + 1))
        ev = lambda x: mdl.eval(finite.expand(x, dom), model_completion=True)
        tb = lambda x: z3.is_true(ev(x))
        mem = lambda arr: sorted(k for k in range(n) if tb(z3.Select(arr, k)))
        S0l, P0l = mem(A.S0), mem(A.P0)
        return ["import vopy.algorithms.vogp_ad as M",
                "N = %d; S0 = set(%r); P0 = set(%r); refine = %r" % (n, S0l, P0l, tb(refine)),
                "class DS: pass",
                "ds = DS(); ds.points = np.arange(N, dtype=float).reshape(N, 1) + 0.5",
                "def refine_design(i):\n    k = len(ds.points); ds.points = np.vstack([ds.points, [[k + 0.5], [k + 1.5]]]); return [k, k + 1]",
                "ds.refine_design = refine_design; ds.should_refine_design = lambda model, i, beta: refine",
                "class Stub:\n    def __getattr__(self, n):\n        return lambda *a, **k: np.zeros((1, 2))",
                "for cand in sorted(S0 | P0):",
                "    ds.points = np.arange(N, dtype=float).reshape(N, 1) + 0.5",
                "    M.optimize_acqf_discrete = lambda acq, q, choices, cand=cand: (ds.points[[cand]], np.zeros(1))",
                "    M.MaxDiagonalAcquisition = lambda d: None",
                "    a = object.__new__(M.VOGP_AD); a.S, a.P = set(S0), set(P0); a.design_space = ds; a.batch_size = 1; a.beta = 1.0",
                "    a.problem, a.model, a.sample_count = Stub(), Stub(), 0",
                "    a.evaluate_refine()",
                "    if refine:",
                "        kids = {N, N + 1}",
                "        expS, expP = ((S0 - {cand}) | kids, set(P0)) if cand in S0 else (set(S0), (P0 - {cand}) | kids)",
                "    else:",
                "        expS, expP = set(S0), set(P0)",
                "    print('candidate', cand, 'refine', refine, 'REAL', sorted(a.S), sorted(a.P), 'SPEC', sorted(expS), sorted(expP))",
                "    if (a.S, a.P) != (expS, expP):",
                "        print('REPLAY-CONFIRMED obligation=%s (the refined node is not replaced by its children in the set it came from)' % OBLIGATION)",
                "        raise SystemExit(1)",
                "print('REPLAY-NOT-REPRODUCED obligation=%s' % OBLIGATION)", "raise SystemExit(4)"]
    t.finite = {"N": A.N, "replay": builder}
    t.prove_paths("refined_node_replaced_by_children_in_its_own_set_or_one_active_design_sampled", paths, goal)
    t.finite = None
    t.implicit()


def set_is_(a, pred):
    e = z3.Int("e!q")
    return z3.ForAll([e], z3.Select(a, e) == pred(e))


# ----------------------------------------------------------------------------------------------
# DecoupledGP.evaluating: every design is a candidate in every round (no elimination); the data flow is the same as
# PaVeBaPartialGP's, with the Thompson-entropy acquisition built on the algorithm's own model, order and costs.
# ----------------------------------------------------------------------------------------------
@task("C06", "DecoupledGP.evaluating")
def _decoupled_eval(t):
    from pyvc.harness import cls_ref, InArr, InOrder
    from pyvc.symexec import find_obj
    DEC = "vopy/algorithms/decoupled.py"
    N, d, m, q = 3, 2, 2, 2
    t.mode = "N=%d designs, d=%d, m=%d, batch %d; acquisition / optimiser / problem / model by contract (recorded)" % (N, d, m, q)
    pts = t.inp("points", InArr("pts", (N, d)))
    costs = t.inp("costs", InArr("cost", (m,)))
    CS = t.inputs["costs"].snapshot
    order = t.inp("order", InOrder("o", 2, m))
    calls = []
    cand = L.fresh_array("cand", (q, d))
    acqv = L.fresh_array("acqv", (q,))
    e0, e1 = z3.Ints("evidx0 evidx1")
    t.assume(e0 >= 0, e0 < m, e1 >= 0, e1 < m)
    eidx = L.mk([e0, e1], (q,), "i")
    obs = L.fresh_array("obs", (q,))

    class Rec:
        def __init__(self, name):
            self.name = name

        def getattr(self, ex, st, attr):
            return RecM(self, attr)

        def clone(self, memo):
            return self

    class RecM:
        def __init__(self, o, attr):
            self.o, self.attr = o, attr

        def call(self, ex, st, args, kwargs, node):
            calls.append((self.o.name, self.attr, list(args), dict(kwargs)))
            return obs if (self.o.name, self.attr) == ("problem", "evaluate") else None

        def clone(self, memo):
            return self
    model, problem = Rec("model"), Rec("problem")
    acqs = []

    def c_acq(ex, st, cls, args, kwargs, node):
        a_ = ("acq", list(args), dict(kwargs))
        acqs.append(a_)
        return [(st, Opaque("Acq", z3.Const("acq!%d" % V.fresh_id(), z3.DeclareSort("Acq"))))]
    t.contracts[AQ + "::ThompsonEntropyDecoupledAcquisition.__new__"] = c_acq

    def c_opt(ex, st, sv, args, kwargs, node):
        calls.append(("optimiser", "optimize_decoupled_acqf_discrete", list(args), dict(kwargs)))
        return [(st, (cand, acqv, eidx))]
    t.contracts[AQ + "::optimize_decoupled_acqf_discrete"] = c_opt
    sc0, tc0 = z3.Int("sample_count0"), z3.Real("total_cost0")
    obj = SObj(cls_ref(DEC, "DecoupledGP"), {"model": model, "problem": problem, "order": order, "costs": costs, "batch_size": q, "points": pts,
                                             "sample_count": sc0, "total_cost": tc0})
    paths = t.run(DEC, "DecoupledGP.evaluating", [], self_val=obj)
    t.must_fail()
    t.no_raise(paths)
    if len(paths) != 1:
        raise Unsupported("the call log of this task is kept per run: a forking body is outside its reach")

    def goal(p):
        o = find_obj(p.st, obj.oid)
        names = [(c[0], c[1]) for c in calls]
        if names != [("optimiser", "optimize_decoupled_acqf_discrete"), ("problem", "evaluate"), ("model", "add_sample"), ("model", "update")] or len(acqs) != 1:
            return False
        oc, ev, ad = calls[0], calls[1], calls[2]
        aa, ak = acqs[0][1], acqs[0][2]
        ok = (aa[0] is model if aa else ak.get("model") is model) and ak.get("order", aa[1] if len(aa) > 1 else None) is order and ak.get("costs", aa[2] if len(aa) > 2 else None) is costs
        ok = ok and oc[2][1] == q and oc[3].get("choices", oc[2][2] if len(oc[2]) > 2 else None) is pts
        ok = ok and ev[2][0] is cand and ev[2][1] is eidx
        ok = ok and ad[2][0] is cand and ad[2][1] is obs and (ad[2][2] if len(ad[2]) > 2 else ad[3].get("dim_index")) is eidx
        sel = lambda e: z3.If(e == 0, V.R(CS.a[0]), V.R(CS.a[1]))
        return z3.And(z3.BoolVal(bool(ok)), V.Z(o.fields["sample_count"]) == sc0 + q, V.R(o.fields["total_cost"]) == tc0 + sel(e0) + sel(e1))
    t.prove_paths("own_model_order_costs_all_points_offered_batch_requested_observations_paired_and_counted_cost_summed_model_updated", paths, goal)
