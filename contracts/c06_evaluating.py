"""C06 / C07 -- evaluating(): which designs are sampled, what reaches the model, what is counted.

Set level: the active sets are arbitrary finite sets; `design_space.points[list(A)]` is the opaque stack of
the rows of A in list order; problem / model / discrete optimisers are called BY CONTRACT and every call is
logged on the path, so the obligations speak about the real data flow of the real evaluating() bodies."""
import z3

from pyvc.harness import task
from pyvc import libmodel as L
from pyvc import setmode as SM
from pyvc import values as V
from pyvc.symexec import SliceVal
from pyvc.values import Opaque, SObj, Unsupported
from .algos import ALGOS, AlgoState, same_set
from .c06_steps import subset

AQ = "vopy/acquisition/acquisition.py"
I = z3.IntSort()


class Rows:
    """Stack of design rows: row k is the row of design seq[k]; cols tags a column slice."""

    def __init__(self, seq, cols="all", origin=None):
        self.seq, self.cols, self.origin = seq, cols, origin

    def getitem(self, ex, st, idx):
        if isinstance(idx, tuple) and len(idx) == 2 and isinstance(idx[0], SliceVal) and idx[0].lo is None and idx[0].hi is None:
            c = idx[1]
            tag = "cols[%s:%s]" % (c.lo, c.hi) if isinstance(c, SliceVal) else "col[%s]" % (c,)
            return Rows(self.seq, tag, self)
        raise Unsupported("row-stack index %r" % (idx,))

    def length(self, ex, st):
        return self.seq.length_t

    def clone(self, memo):
        from pyvc.symexec import clone_val
        return Rows(clone_val(self.seq, memo), self.cols, self.origin)


class PointsMap:
    def getitem(self, ex, st, idx):
        if isinstance(idx, SM.SSeq):
            return Rows(idx, "all")
        raise Unsupported("points index %r" % (idx,))

    def clone(self, memo):
        return self


class Stub:
    """Object whose method calls are logged on the path (st.roots['calls'])."""

    def __init__(self, name, fields=None):
        self.name = name
        self.fields = fields or {}

    def getattr(self, ex, st, attr):
        if attr in self.fields:
            return self.fields[attr]
        return StubMethod(self, attr)

    def clone(self, memo):
        return self


class StubMethod:
    def __init__(self, stub, attr):
        self.stub, self.attr = stub, attr

    def call(self, ex, st, args, kwargs, node):
        rec = {"obj": self.stub.name, "method": self.attr, "args": list(args), "kwargs": dict(kwargs), "ret": None}
        st.roots.setdefault("calls", []).append(rec)
        if self.stub.name == "problem" and self.attr == "evaluate":
            rec["ret"] = Opaque("Obs", z3.Const("obs!%d" % V.fresh_id(), z3.DeclareSort("Obs")))
        return rec["ret"]

    def clone(self, memo):
        return self


COST = z3.Function("cost_of_indices", z3.DeclareSort("EvalIdx"), z3.RealSort())


def install_optimisers(t, batch):
    """optimize_acqf_discrete / optimize_decoupled_acqf_discrete by contract (proved in C07 for the real bodies):
    requires q >= 1 and a non-empty candidate stack; returns min(q, #candidates) distinct rows of the candidates."""
    def mk_sub(ex, st, rows, q):
        ex.ctx.cur_state = st
        ex.ctx.obligation("call-pre(optimize_acqf_discrete): batch >= 1 and at least one active candidate",
                          z3.And(V.Z(q) >= 1, rows.seq.length_t >= 1))
        sub = SM.SSeq(ex.ctx, "chosen")
        # min(batch, number of candidates) rows are returned (C07)
        sub.length_t = z3.If(V.Z(q) <= rows.seq.length_t, V.Z(q), rows.seq.length_t)
        sub.elems = SM.fresh_const(ex.ctx, "chosen_e", SM.SEQSORT)
        sub.mem = SM.fresh_const(ex.ctx, "chosen_m", SM.SETSORT)
        sub.distinct = True
        e = z3.Int("e!q")
        st.pc.append(z3.ForAll([e], z3.Implies(z3.Select(sub.mem, e), z3.Select(rows.seq.mem, e))))
        return sub

    def c_opt(ex, st, self_val, args, kwargs, node):
        acq, q = args[0], args[1]
        rows = kwargs.get("choices", args[2] if len(args) > 2 else None)
        st.roots.setdefault("calls", []).append({"obj": "optimiser", "method": "optimize_acqf_discrete", "args": [acq, q, rows]})
        sub = mk_sub(ex, st, rows, q)
        return [(st, (Rows(sub, rows.cols, rows), Opaque("AcqValues", z3.Const("acqv!%d" % V.fresh_id(), z3.DeclareSort("AcqValues")))))]

    def c_optd(ex, st, self_val, args, kwargs, node):
        acq, q = args[0], args[1]
        rows = kwargs.get("choices", args[2] if len(args) > 2 else None)
        st.roots.setdefault("calls", []).append({"obj": "optimiser", "method": "optimize_decoupled_acqf_discrete", "args": [acq, q, rows]})
        sub = mk_sub(ex, st, rows, q)
        ei = Opaque("EvalIdx", z3.Const("evidx!%d" % V.fresh_id(), z3.DeclareSort("EvalIdx")))
        return [(st, (Rows(sub, rows.cols, rows), Opaque("AcqValues", z3.Const("acqv!%d" % V.fresh_id(), z3.DeclareSort("AcqValues"))), ei))]
    t.contracts[AQ + "::optimize_acqf_discrete"] = c_opt
    t.contracts[AQ + "::optimize_decoupled_acqf_discrete"] = c_optd
    t.trusted.add("callee-contract: the discrete optimisers return `batch` distinct rows of the candidates handed to them (C07)")


class CostVec:
    def getitem(self, ex, st, idx):
        if isinstance(idx, Opaque) and idx.kind == "EvalIdx":
            return Opaque("CostSel", idx.term)
        raise Unsupported("costs index")

    def clone(self, memo):
        return self


def _evaluating(name, method, active, decoupled=False):
    @task("C06", "%s.%s" % (name, method))
    def _t(t):
        t.mode = "set-level"
        A = AlgoState(t, name, with_U=("U" in active))
        batch = z3.Int("batch_size")
        t.assume(batch >= 1)
        # evaluating() is only reached with candidates left (run_one_step: early return on empty S / `if self.S:`)
        t.assume(z3.Not(A.S0 == z3.EmptySet(z3.IntSort())))
        A.ds.fields["points"] = PointsMap()
        A.obj.fields.update({"problem": Stub("problem"), "model": Stub("model", {"output_dim": 2}), "batch_size": batch})
        if decoupled:
            A.cost0 = z3.Real("total_cost0")
            A.obj.fields.update({"total_cost": A.cost0, "costs": CostVec()})
        install_optimisers(t, batch)

        def lib_hook(ex, st, dotted, args, kwargs, node):
            if dotted == "numpy.sum" and isinstance(args[0], Opaque) and args[0].kind == "CostSel":
                c = COST(args[0].term)
                st.pc.append(c >= 0)
                return c
            return NotImplemented
        t.hooks["lib"] = lib_hook
        paths = t.run(ALGOS[name], name + "." + method, [], self_val=A.obj, setmode=True)
        t.must_fail()
        t.no_raise(paths)
        arrs = {"S": A.S0, "P": A.P0, "U": A.U0}
        in_active = lambda e: z3.Or(*[z3.Select(arrs[k], e) for k in active])
        e = z3.Int("e!q")

        def goal(p):
            calls = p.st.roots.get("calls") or []
            ev = [c for c in calls if c["obj"] == "problem"]
            add = [c for c in calls if c["obj"] == "model" and c["method"] == "add_sample"]
            upd = [c for c in calls if c["obj"] == "model" and c["method"] == "update"]
            opt = [c for c in calls if c["obj"] == "optimiser"]
            if len(ev) != 1 or len(add) != 1 or len(upd) != 1 or ev[0]["method"] != "evaluate":
                return False
            if not (calls.index(ev[0]) < calls.index(add[0]) < calls.index(upd[0])):
                return False
            rows = ev[0]["args"][0]
            if not isinstance(rows, Rows):
                return False
            S1, P1, U1, o = A.final(p)
            cs = [z3.ForAll([e], z3.Implies(z3.Select(rows.seq.mem, e), in_active(e))),   # only currently active designs
                  z3.BoolVal(rows.seq.distinct is True),                                 # each at most once
                  V.Z(o.fields["sample_count"]) == A.count0 + rows.seq.length_t,         # counted = rows requested
                  same_set(S1, A.S0), same_set(P1, A.P0), same_set(U1, A.U0)]
            # what reaches the model: the queried designs (same collection, same order) with exactly the returned observations
            a0 = add[0]["args"]
            if opt:
                cs.append(z3.BoolVal(isinstance(a0[0], Rows) and a0[0].seq is rows.seq))
                cand = opt[0]["args"][2]
                cs.append(z3.BoolVal(isinstance(cand, Rows) and isinstance(opt[0]["args"][1], z3.ExprRef) and opt[0]["args"][1].eq(batch)))
                # candidates offered to the optimiser = the whole active set
                cs.append(z3.ForAll([e], z3.Select(cand.seq.mem, e) == in_active(e)))
            else:
                # every active design once: the index collection handed to the model iterates in the order the rows were stacked
                cs.append(z3.ForAll([e], z3.Select(rows.seq.mem, e) == in_active(e)))
                src = rows.seq.from_set
                cs.append(z3.BoolVal(isinstance(a0[0], SM.SSet) and src is not None and a0[0].seq.eq(rows.seq.elems) and a0[0].mem.eq(rows.seq.mem)))
                cs.append(z3.BoolVal(rows.cols != "all"))   # the bookkeeping index column is stripped before evaluation
            cs.append(z3.BoolVal(a0[1] is ev[0]["ret"]))
            if decoupled:
                ei = ev[0]["args"][1] if len(ev[0]["args"]) > 1 else None
                cs.append(z3.BoolVal(ei is not None and len(a0) > 2 and a0[2] is ei))
                cs.append(V.R(o.fields["total_cost"]) == A.cost0 + COST(ei.term) if ei is not None else False)
            return z3.And(*cs)
        t.prove_paths("samples_only_active_designs_once_each_counted_and_handed_to_the_model_with_their_observations", paths, goal)
        t.implicit()
    return _t


_evaluating("PaVeBa", "evaluating", ("S", "U"))
_evaluating("Auer", "evaluating", ("S",))
_evaluating("PaVeBaGP", "evaluating", ("S", "U"))
_evaluating("VOGP", "evaluating", ("S", "P"))
_evaluating("EpsilonPAL", "evaluating", ("S", "P"))
_evaluating("PaVeBaPartialGP", "evaluating", ("S", "U"), decoupled=True)
