"""C09 -- region 'is dominated' <=> forall z in R1, z' in R2 : z' + slack dominates z."""
import itertools

import z3

from pyvc.harness import InArr, InConst, InOrder, InReal, InRect, task
from pyvc import values as V
from . import spec as S

CR = "vopy/confidence_region.py"


def _rect_setup(t, m, K, slack_kind, lower_kind="f"):
    t.mode = "unrolled m=%d K=%d slack=%s%s" % (m, K, slack_kind, "" if lower_kind == "f" else "; lower bounds of INTEGER dtype")
    order = t.inp("order", InOrder("o", K, m))
    r1 = t.inp("r1", InRect("r1", m, lower_kind=lower_kind))
    r2 = t.inp("r2", InRect("r2", m, lower_kind=lower_kind))
    O, R1, R2 = t.inputs["order"], t.inputs["r1"], t.inputs["r2"]
    t.assume(R1.valid(), R2.valid())
    if slack_kind == "zero":
        s = t.inp("s", InConst(0))
        svec = [0] * m
    elif slack_kind == "scalar":
        s = t.inp("s", InArr("s", ()))
        svec = [t.inputs["s"].snapshot.flat()[0]] * m
    elif slack_kind == "vec1":
        s = t.inp("s", InArr("s", (1,)))
        svec = [t.inputs["s"].snapshot.flat()[0]] * m
    elif slack_kind == "vec":
        s = t.inp("s", InArr("s", (m,)))
        svec = t.inputs["s"].snapshot.flat()
    else:
        raise ValueError(slack_kind)
    return order, r1, r2, s, svec, O, R1, R2


def _rect_task(m, K, slack_kind, tier="quick", lower_kind="f"):
    @task("C09", "Rect.is_dominated[m=%d,K=%d,slack=%s%s]" % (m, K, slack_kind, "" if lower_kind == "f" else ",lower dtype=int"), tier=tier)
    def _t(t):
        order, r1, r2, s, svec, O, R1, R2 = _rect_setup(t, m, K, slack_kind, lower_kind)
        paths = t.run(CR, "RectangularConfidenceRegion.is_dominated", [None, order, r1, r2, s])
        lo1, up1 = R1.lower.snapshot.flat(), R1.upper.snapshot.flat()
        lo2, up2 = R2.lower.snapshot.flat(), R2.upper.snapshot.flat()
        W = S.rows_of(O)
        shifted = (lambda v: v) if slack_kind == "zero" else (lambda v: S.vadd(v, svec))
        vertex_formula = z3.And(*[S.dom(W, shifted(v2), v1) for v1 in S.verts(lo1, up1) for v2 in S.verts(lo2, up2)])
        t.must_fail()
        t.cover("pre-satisfiable", [])
        t.no_raise(paths)
        t.prove_paths("code_is_vertex_formula", paths,
                      lambda p: V.Bz(p.value) == vertex_formula if p.kind == "return" else False)
        # the two directions separately (consumed by the C01 / C05 lemmas: they need only "True => every pair dominates")
        t.prove_paths("sound/True_only_if_every_vertex_pair_dominates", paths,
                      lambda p: z3.Implies(V.Bz(p.value), vertex_formula) if p.kind == "return" else False)
        t.prove_paths("complete/True_if_every_vertex_pair_dominates", paths,
                      lambda p: z3.Implies(vertex_formula, V.Bz(p.value)) if p.kind == "return" else False)
        t.frame_unchanged("frame:inputs-not-written", paths, [])
        t.agree(paths)
        t.implicit()
    return _t


for (_m, _K) in [(1, 1), (2, 2), (2, 3), (3, 3)]:
    for _sk in ("zero", "scalar", "vec"):
        _rect_task(_m, _K, _sk)
_rect_task(2, 2, "vec1")
_rect_task(2, 2, "zero", lower_kind="i")     # integer-dtype lower bounds with real upper bounds: no value may be truncated
_rect_task(2, 2, "vec", lower_kind="i")
_rect_task(3, 4, "vec")
_rect_task(4, 4, "vec", tier="thorough")


def _rect_history(mutation):
    @task("C09", "Rect.history[is_dominated, m=2, K=2, slack=zero; construct, use, %s, use]" % mutation)
    def _t(t):
        """The verdict refers to the bounds the regions display NOW: both regions are built by the real constructor, the predicate
        is used once, the first region is changed by the real `%s`, and the predicate is used again -- the second result must be
        the vertex formula over the current bounds (nothing remembered from the first use may leak into it).""" % mutation
        from pyvc.values import SObj
        from pyvc.harness import cls_ref
        from pyvc.symexec import find_obj
        m, K = 2, 2
        t.mode = "unrolled m=2 K=2, call sequence on one region object"
        order = t.inp("order", InOrder("o", K, m))
        O = t.inputs["order"]
        ins = {n: t.inp(n, InArr(n, (m,))) for n in ("lo0", "up0", "lo2", "up2")}
        snap = {n: t.inputs[n].snapshot.flat() for n in ins}
        t.assume(*[V.R(a) <= V.R(b) for a, b in zip(list(snap["lo0"]) + list(snap["lo2"]), list(snap["up0"]) + list(snap["up2"]))])
        r1, r2 = SObj(cls_ref(CR, "RectangularConfidenceRegion")), SObj(cls_ref(CR, "RectangularConfidenceRegion"))
        made = [p for p in t.run(CR, "RectangularConfidenceRegion.__init__", [m, ins["lo0"], ins["up0"], mutation == "intersect"], self_val=r1) if p.kind == "return"]
        if len(made) == 1:
            made = [p for p in t.run(CR, "RectangularConfidenceRegion.__init__", [m, ins["lo2"], ins["up2"]], self_val=r2, after=made[0]) if p.kind == "return"]
        if len(made) != 1:
            t.prove("constructors_return_on_one_path", False)
            return
        first = [p for p in t.run(CR, "RectangularConfidenceRegion.is_dominated", [None, order, r1, r2, 0], after=made[0]) if p.kind == "return"]
        if mutation == "intersect":
            nl, nu = t.inp("nl", InArr("nl", (m,))), t.inp("nu", InArr("nu", (m,)))
            t.assume(*[V.R(a) <= V.R(b) for a, b in zip(t.inputs["nl"].snapshot.flat(), t.inputs["nu"].snapshot.flat())])
            step = lambda p: t.run(CR, "RectangularConfidenceRegion.intersect", [nl, nu], self_val=r1, after=p)
        else:
            mean, cov, sc = t.inp("mean", InArr("mu", (m,))), t.inp("cov", InArr("cov", (m, m))), t.inp("scale", InArr("sc", ()))
            C = t.inputs["cov"].snapshot
            t.assume(*[V.R(C.a[j, j]) >= 0 for j in range(m)], V.R(t.inputs["scale"].snapshot.flat()[0]) >= 0)
            step = lambda p: t.run(CR, "RectangularConfidenceRegion.update", [mean, cov, sc], self_val=r1, after=p)
        second = []
        for p in first[:2]:
            for q in step(p):
                if q.kind == "return":
                    second += t.run(CR, "RectangularConfidenceRegion.is_dominated", [None, order, r1, r2, 0], after=q)
        t.prove("history_reaches_the_second_use", z3.BoolVal(len(second) > 0))
        t.must_fail()
        t.no_raise(second)
        W = S.rows_of(O)

        def goal(p):
            if p.kind != "return":
                return False
            cur = find_obj(p.st, r1.oid)
            lo1, up1 = cur.fields["lower"].flat(), cur.fields["upper"].flat()
            vf = z3.And(*[S.dom(W, v2, v1) for v1 in S.verts(lo1, up1) for v2 in S.verts(snap["lo2"], snap["up2"])])
            return V.Bz(p.value) == vf

        def replay(mdl):
            me = lambda x: mdl.eval(V.Z(x), model_completion=True)
            I = t.inputs
            L_ = ["import itertools",
                  "order = %s" % I["order"].src(me),
                  "r1 = RectangularConfidenceRegion(2, %s, %s, intersect_iteratively=%r)" % (I["lo0"].src(me), I["up0"].src(me), mutation == "intersect"),
                  "r2 = RectangularConfidenceRegion(2, %s, %s)" % (I["lo2"].src(me), I["up2"].src(me)),
                  "first = RectangularConfidenceRegion.is_dominated(order, r1, r2, 0)"]
            if mutation == "intersect":
                L_.append("r1.intersect(%s, %s)" % (I["nl"].src(me), I["nu"].src(me)))
            else:
                L_.append("r1.update(%s, %s, %s)" % (I["mean"].src(me), I["cov"].src(me), I["scale"].src(me)))
            L_ += ["second = bool(RectangularConfidenceRegion.is_dominated(order, r1, r2, 0))",
                   "W = np.asarray(order.ordering_cone.W, dtype=float)",
                   "margins = [float(np.min(W @ (np.array(v2) - np.array(v1)))) for v1 in itertools.product(*zip(r1.lower, r1.upper)) for v2 in itertools.product(*zip(r2.lower, r2.upper))]",
                   "print('first use:', first, ' bounds now:', r1.lower, r1.upper, ' second use:', second, ' least vertex-pair margin over the current bounds:', min(margins))",
                   "if abs(min(margins)) > 1e-9 and second != (min(margins) >= 0):",
                   "    print('REPLAY-CONFIRMED obligation=%s (the second result does not refer to the bounds now displayed)' % OBLIGATION)", "    raise SystemExit(1)",
                   "print('REPLAY-NOT-REPRODUCED obligation=%s' % OBLIGATION)", "raise SystemExit(4)"]
            return L_
        t.prove_paths("second_result_is_the_vertex_formula_over_the_bounds_now_displayed", second, goal, replay=replay)
    return _t


_rect_history("intersect")
_rect_history("update")


def _rect_bad_slack(m, K, n):
    @task("C09", "Rect.is_dominated.raises[m=%d,slack_size=%d]" % (m, n))
    def _t(t):
        t.mode = "unrolled m=%d K=%d" % (m, K)
        order = t.inp("order", InOrder("o", K, m))
        r1 = t.inp("r1", InRect("r1", m))
        r2 = t.inp("r2", InRect("r2", m))
        s = t.inp("s", InArr("s", (n,)))
        paths = t.run(CR, "RectangularConfidenceRegion.is_dominated", [None, order, r1, r2, s])
        # slack size not in {1, m}: ValueError on every path
        t.prove("is_rejected_with_an_exception_exactly", z3.And(*[z3.BoolVal(p.kind == "raise") for p in paths]) if paths else False)
    return _t


_rect_bad_slack(2, 2, 3)
_rect_bad_slack(3, 3, 2)


def _box_extreme(m, tier="quick"):
    @task("C09", "lemma.box_extreme[m=%d]" % m, tier=tier)
    def _t(t):
        """(forall vertex pairs w.(v2+s-v1) >= 0)  <=>  (forall z in Box1, z' in Box2: w.(z'+s-z) >= 0),
        for one arbitrary facet row w (so for every K) and non-empty boxes."""
        t.mode = "lemma, m=%d, one generic facet row (all K)" % m
        w = S.reals("w", m)
        s = S.reals("s", m)
        lo1, up1, lo2, up2 = S.reals("l1", m), S.reals("u1", m), S.reals("l2", m), S.reals("u2", m)
        z, zp = S.reals("z", m), S.reals("zp", m)
        nonempty = z3.And(*[a <= b for a, b in zip(lo1 + lo2, up1 + up2)])
        allv = z3.And(*[S.dot(w, S.vsub(S.vadd(v2, s), v1)) >= 0 for v1 in S.verts(lo1, up1) for v2 in S.verts(lo2, up2)])
        inside = z3.And(S.in_box(z, lo1, up1), S.in_box(zp, lo2, up2))
        # => direction (the hard one): no interior pair can violate when all vertex pairs satisfy
        t.prove("vertices_imply_all_points", z3.Implies(z3.And(nonempty, allv, inside), S.dot(w, S.vsub(S.vadd(zp, s), z)) >= 0),
                use_pre=False)
        # <= direction: vertices are points of the boxes
        t.prove("vertices_are_points", z3.And(*[z3.And(S.in_box(v1, lo1, up1), S.in_box(v2, lo2, up2))
                                                 for v1 in S.verts(lo1, up1) for v2 in S.verts(lo2, up2)]),
                assumptions=[nonempty], use_pre=False)
    return _t


for _m in (1, 2, 3):
    _box_extreme(_m)
_box_extreme(4, tier="thorough")
