"""C10 -- region 'is covered' <=> exists z in R1, z' in R2 : z' dominates z by the slack.
Also the ellipsoid half of C09 (same cvxpy-DSL machinery)."""
import z3

from pyvc.harness import InArr, InConst, InEll, InOrder, InReal, InRect, task
from pyvc import values as V
from pyvc import libcalls
from . import spec as S

CR = "vopy/confidence_region.py"


def cvx_for_path(t, p):
    ids = set(c.get_id() for c in p.st.pc)
    return [r for r in t.ctx.cvx if r["marker"].get_id() in ids]


def _slack(t, kind, m, K):
    if kind == "zero":
        return t.inp("s", InConst(0)), None
    if kind == "scalar":
        s = t.inp("s", InArr("s", ()))
        return s, [t.inputs["s"].snapshot.flat()[0]]
    if kind == "pyfloat":
        s = t.inp("s", InReal("s"))
        return s, [s]
    n = {"vecm": m, "vecK": K, "vec1": 1}[kind]
    s = t.inp("s", InArr("s", (n,)))
    return s, t.inputs["s"].snapshot.flat()


def _rect_cov(m, K, slack_kind, tier="quick"):
    @task("C10", "Rect.is_covered[m=%d,K=%d,slack=%s]" % (m, K, slack_kind), tier=tier)
    def _t(t):
        t.mode = "unrolled m=%d K=%d slack=%s" % (m, K, slack_kind)
        order = t.inp("order", InOrder("o", K, m))
        r1 = t.inp("r1", InRect("r1", m))
        r2 = t.inp("r2", InRect("r2", m))
        O, R1, R2 = t.inputs["order"], t.inputs["r1"], t.inputs["r2"]
        t.assume(R1.valid(), R2.valid())
        s, sv = _slack(t, slack_kind, m, K)
        svec = [0] * m if sv is None else S.broadcast_slack(sv, m)
        paths = t.run(CR, "RectangularConfidenceRegion.is_covered", [None, order, r1, r2, s])
        t.must_fail()
        t.no_raise(paths)
        W = S.rows_of(O)
        lo1, up1 = R1.lower.snapshot.flat(), R1.upper.snapshot.flat()
        lo2, up2 = R2.lower.snapshot.flat(), R2.upper.snapshot.flat()
        # Semantic statement (robust against shortcuts that decide without the LP): COVERED is the specification's verdict
        #     exists z in R1, z' in R2 :  W (z' - z - slack) >= 0.
        # (1) a program whose constraint set is proved pointwise equal to the specification's returns COVERED (A-SOLVE);
        # (2) witnesses: a pair of box vertices / centres satisfying the specification makes it COVERED;
        # (3) certificates: a facet functional that is negative on every vertex pair is negative on the boxes (box-extreme lemma of
        #     C09), so the specification is not satisfiable;  the result must be COVERED.
        COVERED = z3.Bool("covered_spec")
        spec_of = lambda z, zp: z3.And(S.in_box(z, lo1, up1), S.in_box(zp, lo2, up2), *[S.dot(w, S.vsub(S.vsub(zp, z), svec)) >= 0 for w in W])
        mid = lambda lo, up: [(V.R(a) + V.R(b)) / 2 for a, b in zip(lo, up)]
        pts1 = [list(v) for v in S.verts(lo1, up1)] + [mid(lo1, up1)]
        pts2 = [list(v) for v in S.verts(lo2, up2)] + [mid(lo2, up2)]
        links = [z3.Implies(spec_of(a_, b_), COVERED) for a_ in pts1 for b_ in pts2]
        for w in W:
            links.append(z3.Implies(z3.And(*[S.dot(w, S.vsub(S.vsub(list(v2), list(v1)), svec)) < 0 for v1 in S.verts(lo1, up1) for v2 in S.verts(lo2, up2)]), z3.Not(COVERED)))
        for i, rec in enumerate(t.ctx.cvx):
            vs = rec["vars"]
            if len(vs) != 2 * m:
                t.prove("two_variables_only#%d" % i, False)
                continue
            z, zp = vs[:m], vs[m:2 * m]
            spec = spec_of(z, zp)
            r = t.prove("constraints_are_spec#%d" % i, rec["constraints"] == spec, assumptions=rec["pc"][len(t.pre):], needed=True)
            # directions (C01 / C05 consume only "a covering pair of points makes the program feasible")
            t.prove("complete/every_covering_pair_is_feasible_for_the_program#%d" % i, z3.Implies(spec, rec["constraints"]), assumptions=rec["pc"][len(t.pre):])
            t.prove("sound/every_feasible_point_is_a_covering_pair#%d" % i, z3.Implies(rec["constraints"], spec), assumptions=rec["pc"][len(t.pre):])
            if r is not None and r["status"] == "proved":
                own = rec["pc"][len(t.pre):]
                links.append(z3.Implies(z3.And(*own) if own else z3.BoolVal(True), rec["feas"] == COVERED))

        def goal(p):
            if p.kind != "return":
                return False
            return z3.Implies(z3.And(R1.valid(), R2.valid(), *links), V.Bz(p.value) == COVERED)
        t.prove_paths("result_is_feasibility", paths, goal)
        t.implicit()
    return _t


for (_m, _K) in [(1, 1), (2, 2), (2, 3), (3, 3)]:
    for _sk in ("zero", "scalar", "vecm"):
        _rect_cov(_m, _K, _sk)
_rect_cov(2, 2, "vec1")
_rect_cov(2, 2, "pyfloat")
_rect_cov(3, 4, "vecm")
_rect_cov(4, 5, "vecm")


def _rect_cov_history(mutation):
    @task("C10", "Rect.history[is_covered, m=2, K=2, slack=zero; construct, use, %s, use]" % mutation)
    def _t(t):
        """The verdict refers to the region's CURRENT bounds along a history: the first region is built by the real constructor,
        used once (so that anything the predicate or the region remembers is filled in), changed by the real `%s`, and used
        again; the second verdict must be the specification's verdict for the bounds the region then displays.""" % mutation
        from pyvc.values import SObj
        from pyvc.harness import cls_ref
        from pyvc.symexec import find_obj
        from pyvc import libmodel as L
        m, K = 2, 2
        t.mode = "unrolled m=2 K=2, call sequence on one region object"
        order = t.inp("order", InOrder("o", K, m))
        O = t.inputs["order"]
        lo0, up0 = t.inp("lo0", InArr("lo0", (m,))), t.inp("up0", InArr("up0", (m,)))
        lo2_, up2_ = t.inp("lo2", InArr("lo2", (m,))), t.inp("up2", InArr("up2", (m,)))
        LO0, UP0 = t.inputs["lo0"].snapshot.flat(), t.inputs["up0"].snapshot.flat()
        lo2, up2 = t.inputs["lo2"].snapshot.flat(), t.inputs["up2"].snapshot.flat()
        t.assume(*[V.R(a) <= V.R(b) for a, b in zip(list(LO0) + list(lo2), list(UP0) + list(up2))])
        # both regions are built by the real constructor (complete objects: whatever the class keeps besides its bounds is there)
        r1, r2 = SObj(cls_ref(CR, "RectangularConfidenceRegion")), SObj(cls_ref(CR, "RectangularConfidenceRegion"))
        made = [p for p in t.run(CR, "RectangularConfidenceRegion.__init__", [m, lo0, up0, mutation == "intersect"], self_val=r1) if p.kind == "return"]
        if len(made) == 1:
            made = [p for p in t.run(CR, "RectangularConfidenceRegion.__init__", [m, lo2_, up2_], self_val=r2, after=made[0]) if p.kind == "return"]
        if len(made) != 1:
            t.prove("constructors_return_on_one_path", False)
            return
        first = [p for p in t.run(CR, "RectangularConfidenceRegion.is_covered", [None, order, r1, r2, 0], after=made[0]) if p.kind == "return"]
        n0 = len(t.ctx.cvx)
        if mutation == "intersect":
            nl, nu = t.inp("nl", InArr("nl", (m,))), t.inp("nu", InArr("nu", (m,)))
            NL, NU = t.inputs["nl"].snapshot.flat(), t.inputs["nu"].snapshot.flat()
            t.assume(*[V.R(a) <= V.R(b) for a, b in zip(NL, NU)])
            step = lambda p: t.run(CR, "RectangularConfidenceRegion.intersect", [nl, nu], self_val=r1, after=p)
        else:
            mean, cov = t.inp("mean", InArr("mu", (m,))), t.inp("cov", InArr("cov", (m, m)))
            sc = t.inp("scale", InArr("sc", ()))
            C = t.inputs["cov"].snapshot
            t.assume(*[V.R(C.a[j, j]) >= 0 for j in range(m)], V.R(t.inputs["scale"].snapshot.flat()[0]) >= 0)
            step = lambda p: t.run(CR, "RectangularConfidenceRegion.update", [mean, cov, sc], self_val=r1, after=p)
        second = []
        for p in first[:2]:
            for q in step(p):
                if q.kind == "return":
                    second += t.run(CR, "RectangularConfidenceRegion.is_covered", [None, order, r1, r2, 0], after=q)
        t.prove("history_reaches_the_second_use", z3.BoolVal(len(second) > 0))
        t.must_fail()
        t.no_raise(second)
        W = S.rows_of(O)
        proved = {}

        def goal(p):
            if p.kind != "return":
                return False
            cur = find_obj(p.st, r1.oid)
            lo1, up1 = cur.fields["lower"].flat(), cur.fields["upper"].flat()
            COVERED = z3.Bool("covered_spec_now")
            spec_of = lambda z, zp: z3.And(S.in_box(z, lo1, up1), S.in_box(zp, lo2, up2), *[S.dot(w, S.vsub(zp, z)) >= 0 for w in W])
            links = []
            for rec in cvx_for_path(t, p):
                i = [k for k, r_ in enumerate(t.ctx.cvx) if r_ is rec][0]
                if i < n0:
                    continue
                vs = rec["vars"][-2 * m:]      # the variables of THIS program (the context also remembers the first use's)
                if len(vs) != 2 * m:
                    return False
                spec = spec_of(vs[:m], vs[m:2 * m])
                key = (i, tuple(x.get_id() if hasattr(x, "get_id") else repr(x) for x in list(lo1) + list(up1)))
                if key not in proved:
                    r = t.prove("program_of_the_second_use_is_the_spec_for_the_current_bounds#%d" % len(proved), rec["constraints"] == spec,
                                assumptions=rec["pc"][len(t.pre):])
                    proved[key] = r is not None and r["status"] == "proved"
                if proved[key]:
                    own = rec["pc"][len(t.pre):]
                    links.append(z3.Implies(z3.And(*own) if own else z3.BoolVal(True), rec["feas"] == COVERED))
            # witnesses / certificates for verdicts reached without a program
            mid = lambda lo, up: [(V.R(a) + V.R(b)) / 2 for a, b in zip(lo, up)]
            pts1 = [list(v) for v in S.verts(lo1, up1)] + [mid(lo1, up1)]
            pts2 = [list(v) for v in S.verts(lo2, up2)] + [mid(lo2, up2)]
            links += [z3.Implies(spec_of(a_, b_), COVERED) for a_ in pts1 for b_ in pts2]
            for w in W:
                links.append(z3.Implies(z3.And(*[S.dot(w, S.vsub(list(v2), list(v1))) < 0 for v1 in S.verts(lo1, up1) for v2 in S.verts(lo2, up2)]), z3.Not(COVERED)))
            return z3.Implies(z3.And(*links), V.Bz(p.value) == COVERED)

        def replay(mdl):
            me = lambda x: mdl.eval(V.Z(x), model_completion=True)
            I = t.inputs
            L_ = ["from scipy.optimize import linprog",
                  "order = %s" % I["order"].src(me),
                  "r1 = RectangularConfidenceRegion(2, %s, %s, intersect_iteratively=%r)" % (I["lo0"].src(me), I["up0"].src(me), mutation == "intersect"),
                  "r2 = RectangularConfidenceRegion(2, %s, %s)" % (I["lo2"].src(me), I["up2"].src(me)),
                  "first = RectangularConfidenceRegion.is_covered(order, r1, r2, 0)"]
            if mutation == "intersect":
                L_.append("r1.intersect(%s, %s)" % (I["nl"].src(me), I["nu"].src(me)))
            else:
                L_.append("r1.update(%s, %s, %s)" % (I["mean"].src(me), I["cov"].src(me), I["scale"].src(me)))
            L_ += ["second = bool(RectangularConfidenceRegion.is_covered(order, r1, r2, 0))",
                   "W = np.asarray(order.ordering_cone.W, dtype=float)",
                   "# LP oracle on the bounds the region displays NOW: exists z in R1, z' in R2 with W (z' - z) >= 0 ?  (maximise the least facet margin)",
                   "c = np.zeros(5); c[-1] = -1.0",
                   "A = np.hstack([W, -W, np.ones((W.shape[0], 1))])    # W z - W z' + t <= 0",
                   "bounds = [(r1.lower[0], r1.upper[0]), (r1.lower[1], r1.upper[1]), (r2.lower[0], r2.upper[0]), (r2.lower[1], r2.upper[1]), (None, 1.0)]",
                   "res = linprog(c, A_ub=A, b_ub=np.zeros(W.shape[0]), bounds=bounds, method='highs')",
                   "margin = res.x[-1] if res.status == 0 else float('-inf')",
                   "print('first use:', first, ' bounds now:', r1.lower, r1.upper, ' second use:', second, ' oracle margin on the current bounds:', margin)",
                   "if abs(margin) > 1e-7 and second != (margin > 0):",
                   "    print('REPLAY-CONFIRMED obligation=%s (the second verdict does not refer to the bounds now displayed)' % OBLIGATION)", "    raise SystemExit(1)",
                   "print('REPLAY-NOT-REPRODUCED obligation=%s' % OBLIGATION)", "raise SystemExit(4)"]
            return L_
        t.prove_paths("second_verdict_is_the_specification_verdict_for_the_bounds_now_displayed", second, goal, replay=replay)
    return _t


_rect_cov_history("intersect")
_rect_cov_history("update")


@task("C10", "Rect.is_covered.raises[m=2,K=3,slack_size=3]")
def _rect_cov_badslack(t):
    """K = 3 facets, m = 2: a per-facet slack vector (size 3) is rejected by the rectangle routine."""
    m, K = 2, 3
    order = t.inp("order", InOrder("o", K, m))
    r1 = t.inp("r1", InRect("r1", m))
    r2 = t.inp("r2", InRect("r2", m))
    s = t.inp("s", InArr("s", (3,)))
    paths = t.run(CR, "RectangularConfidenceRegion.is_covered", [None, order, r1, r2, s])
    t.prove("is_rejected_with_an_exception_exactly", z3.BoolVal(bool(paths) and all(p.kind == "raise" for p in paths)))


def ell_member(E, z, m):
    """z in Ell(R): ||Q (z - c)|| <= alpha with Q = sqrtm(inv(Sigma)) (the library-opaque matrix)."""
    Q = libcalls.mat_uf("sqrtm", libcalls.mat_uf("inv", E.sigma.snapshot))
    c = E.center.snapshot.flat()
    d = S.vsub(z, c)
    comps = [S.dot([Q.a[i, j] for j in range(m)], d) for i in range(m)]
    ss = sum((x * x for x in comps[1:]), comps[0] * comps[0])
    a = V.R(E.alpha.sym)
    return z3.And(a >= 0, ss <= a * a)


def ell_member_now(center, sigma, alpha, z, m):
    """z in the ellipsoid a region displays NOW (its current center / sigma / alpha fields)."""
    from pyvc import libmodel as L
    Q = libcalls.mat_uf("sqrtm", libcalls.mat_uf("inv", L.as_arr(sigma)))
    c = L.as_arr(center).flat()
    d = S.vsub(z, c)
    comps = [S.dot([Q.a[i, j] for j in range(m)], d) for i in range(m)]
    ss = sum((x * x for x in comps[1:]), comps[0] * comps[0])
    a = V.R(alpha.flat()[0] if hasattr(alpha, "flat") else alpha)
    return z3.And(a >= 0, ss <= a * a)


@task("C10", "Ell.history[is_covered, m=2, K=2, slack=zero; construct, use, update, use]")
def _ell_cov_history(t):
    """As for rectangles: both ellipsoids are built by the real constructor, the predicate is used once, the first region is
    updated by the real `update`, and the second verdict must be the specification's verdict for the ellipsoid now displayed."""
    from pyvc.values import SObj
    from pyvc.harness import cls_ref
    from pyvc.symexec import find_obj
    m, K = 2, 2
    t.mode = "unrolled m=2 K=2, call sequence on one region object"
    order = t.inp("order", InOrder("o", K, m))
    O = t.inputs["order"]
    c1, S1, a1 = t.inp("c1", InArr("c1", (m,))), t.inp("S1", InArr("S1", (m, m))), t.inp("a1", InReal("a1"))
    c2, S2, a2 = t.inp("c2", InArr("c2", (m,))), t.inp("S2", InArr("S2", (m, m))), t.inp("a2", InReal("a2"))
    mean, cov, sc = t.inp("mean", InArr("mu", (m,))), t.inp("cov", InArr("cov", (m, m))), t.inp("scale", InArr("sc", ()))
    e1, e2 = SObj(cls_ref(CR, "EllipsoidalConfidenceRegion")), SObj(cls_ref(CR, "EllipsoidalConfidenceRegion"))
    made = [p for p in t.run(CR, "EllipsoidalConfidenceRegion.__init__", [m, c1, S1, a1], self_val=e1) if p.kind == "return"]
    if len(made) == 1:
        made = [p for p in t.run(CR, "EllipsoidalConfidenceRegion.__init__", [m, c2, S2, a2], self_val=e2, after=made[0]) if p.kind == "return"]
    if len(made) != 1:
        t.prove("constructors_return_on_one_path", False)
        return
    first = [p for p in t.run(CR, "EllipsoidalConfidenceRegion.is_covered", [None, order, e1, e2, 0], after=made[0]) if p.kind == "return"]
    n0 = len(t.ctx.cvx)
    second = []
    for p in first[:2]:
        for q in t.run(CR, "EllipsoidalConfidenceRegion.update", [mean, cov, sc], self_val=e1, after=p):
            if q.kind == "return":
                second += t.run(CR, "EllipsoidalConfidenceRegion.is_covered", [None, order, e1, e2, 0], after=q)
    t.prove("history_reaches_the_second_use", z3.BoolVal(len(second) > 0))
    t.must_fail()
    t.no_raise(second)
    W = S.rows_of(O)
    proved = {}

    def goal(p):
        if p.kind != "return":
            return False
        cur, oth = find_obj(p.st, e1.oid), find_obj(p.st, e2.oid)
        COVERED = z3.Bool("covered_spec_now")
        spec_of = lambda z, zp: z3.And(ell_member_now(cur.fields["center"], cur.fields["sigma"], cur.fields["alpha"], z, m),
                                       ell_member_now(oth.fields["center"], oth.fields["sigma"], oth.fields["alpha"], zp, m),
                                       *[S.dot(W[k], S.vsub(zp, z)) >= 0 for k in range(K)])
        links = []
        for rec in cvx_for_path(t, p):
            i = [k for k, r_ in enumerate(t.ctx.cvx) if r_ is rec][0]
            if i < n0:
                continue
            vs = rec["vars"][-2 * m:]
            if len(vs) != 2 * m:
                return False
            spec = spec_of(vs[:m], vs[m:2 * m])
            if i not in proved:
                r = t.prove("program_of_the_second_use_is_the_spec_for_the_ellipsoid_now_displayed#%d" % len(proved), rec["constraints"] == spec,
                            assumptions=rec["pc"][len(t.pre):])
                proved[i] = r is not None and r["status"] == "proved"
            if proved[i]:
                own = rec["pc"][len(t.pre):]
                links.append(z3.Implies(z3.And(*own) if own else z3.BoolVal(True), rec["feas"] == COVERED))
        return z3.Implies(z3.And(*links), V.Bz(p.value) == COVERED)
    t.prove_paths("second_verdict_is_the_specification_verdict_for_the_ellipsoid_now_displayed", second, goal)


def _ell_cov(m, K, slack_kind, tier="quick"):
    @task("C10", "Ell.is_covered[m=%d,K=%d,slack=%s]" % (m, K, slack_kind), tier=tier)
    def _t(t):
        t.mode = "unrolled m=%d K=%d slack=%s" % (m, K, slack_kind)
        order = t.inp("order", InOrder("o", K, m))
        e1 = t.inp("e1", InEll("e1", m))
        e2 = t.inp("e2", InEll("e2", m))
        O, E1, E2 = t.inputs["order"], t.inputs["e1"], t.inputs["e2"]
        s, sv = _slack(t, slack_kind, m, K)
        sK = [0] * K if sv is None else S.broadcast_slack(sv, K)
        paths = t.run(CR, "EllipsoidalConfidenceRegion.is_covered", [None, order, e1, e2, s])
        t.must_fail()
        t.no_raise(paths)
        W = S.rows_of(O)
        # Semantic statement (as for rectangles): COVERED = exists z in Ell1, z' in Ell2 with W_k (z' - z) >= s_k for every facet;
        # a program with the specification's constraint set returns COVERED; the centres are a witness when they satisfy it.
        COVERED = z3.Bool("covered_spec")
        spec_of = lambda z, zp: z3.And(ell_member(E1, z, m), ell_member(E2, zp, m), *[S.dot(W[k], S.vsub(zp, z)) >= V.R(sK[k]) for k in range(K)])
        c1 = [V.R(x) for x in E1.center.snapshot.flat()]
        c2 = [V.R(x) for x in E2.center.snapshot.flat()]
        links = [z3.Implies(z3.And(*[S.dot(W[k], S.vsub(c2, c1)) >= V.R(sK[k]) for k in range(K)]), COVERED)]   # (centres are members of their ellipsoids)
        for i, rec in enumerate(t.ctx.cvx):
            vs = rec["vars"]
            if len(vs) != 2 * m:
                t.prove("two_variables_only#%d" % i, False)
                continue
            z, zp = vs[:m], vs[m:2 * m]
            spec = spec_of(z, zp)
            r = t.prove("constraints_are_spec#%d" % i, rec["constraints"] == spec, assumptions=rec["pc"][len(t.pre):], needed=True)
            # directions (C01 / C05 consume only "a covering pair of points makes the program feasible")
            t.prove("complete/every_covering_pair_is_feasible_for_the_program#%d" % i, z3.Implies(spec, rec["constraints"]), assumptions=rec["pc"][len(t.pre):])
            t.prove("sound/every_feasible_point_is_a_covering_pair#%d" % i, z3.Implies(rec["constraints"], spec), assumptions=rec["pc"][len(t.pre):])
            if r is not None and r["status"] == "proved":
                own = rec["pc"][len(t.pre):]
                links.append(z3.Implies(z3.And(*own) if own else z3.BoolVal(True), rec["feas"] == COVERED))

        def goal(p):
            if p.kind != "return":
                return False
            return z3.Implies(z3.And(*links), V.Bz(p.value) == COVERED)
        t.prove_paths("result_is_feasibility", paths, goal)
        t.implicit()
    return _t


for (_m, _K) in [(2, 2), (2, 3), (3, 3)]:
    for _sk in ("zero", "scalar", "vecK"):
        _ell_cov(_m, _K, _sk)


@task("C10", "Ell.is_covered.raises[m=2,K=3,slack_size=2]")
def _ell_cov_badslack(t):
    m, K = 2, 3
    order = t.inp("order", InOrder("o", K, m))
    e1 = t.inp("e1", InEll("e1", m))
    e2 = t.inp("e2", InEll("e2", m))
    s = t.inp("s", InArr("s", (2,)))
    paths = t.run(CR, "EllipsoidalConfidenceRegion.is_covered", [None, order, e1, e2, s])
    t.prove("is_rejected_with_an_exception_exactly", z3.BoolVal(bool(paths) and all(p.kind == "raise" for p in paths)))


# ---------------------------------------------------------------------------------------------
# C09, ellipsoids: K minimisation programs, result <=> forall k. min >= -s_k
# ---------------------------------------------------------------------------------------------


def _same_linear(e1, e2, vars_):
    """e1 and e2 are the same affine function of vars_ (coefficients and constant agree): quantifier-free."""
    zero = [(v, z3.RealVal(0)) for v in vars_]
    cs = [z3.substitute(e1, *zero) == z3.substitute(e2, *zero)]
    for i, v in enumerate(vars_):
        unit = [(u, z3.RealVal(1 if j == i else 0)) for j, u in enumerate(vars_)]
        cs.append(z3.substitute(e1, *unit) == z3.substitute(e2, *unit))
    return z3.And(*cs)


def _ell_dom(m, K, slack_kind, tier="quick"):
    @task("C09", "Ell.is_dominated[m=%d,K=%d,slack=%s]" % (m, K, slack_kind), tier=tier)
    def _t(t):
        t.mode = "unrolled m=%d K=%d slack=%s" % (m, K, slack_kind)
        order = t.inp("order", InOrder("o", K, m))
        e1 = t.inp("e1", InEll("e1", m))
        e2 = t.inp("e2", InEll("e2", m))
        O, E1, E2 = t.inputs["order"], t.inputs["e1"], t.inputs["e2"]
        s, sv = _slack(t, slack_kind, m, K)
        sK = [0] * K if sv is None else S.broadcast_slack(sv, K)
        paths = t.run(CR, "EllipsoidalConfidenceRegion.is_dominated", [None, order, e1, e2, s])
        t.must_fail()
        t.no_raise(paths)
        W = S.rows_of(O)
        if not t.ctx.cvx:
            t.prove("a_problem_is_solved", False)
        # every program built: feasible set == Ell1 x Ell2, objective == W_k . (z' - z) for some facet k
        for i, rec in enumerate(t.ctx.cvx):
            vs = rec["vars"]
            z, zp = vs[:m], vs[m:2 * m]
            spec = z3.And(ell_member(E1, z, m), ell_member(E2, zp, m))
            t.prove("feasible_set_is_Ell1xEll2#%d" % i, rec["constraints"] == spec, assumptions=rec["pc"][len(t.pre):])
            # direction consumed by C01 / C05: the minimum is taken over (at least) every pair of points of the two regions
            t.prove("sound/every_pair_of_region_points_is_feasible#%d" % i, z3.Implies(spec, rec["constraints"]), assumptions=rec["pc"][len(t.pre):])
        # Semantic statement (robust against shortcuts that skip a solve): OPT_k is the specification's optimum of facet k,
        #     OPT_k = min { W_k . (z' - z) : z in Ell1, z' in Ell2 };
        # every program the code solves whose objective is facet k's and whose feasible set is Ell1 x Ell2 (clause above) returns
        # OPT_k (A-SOLVE); the ellipsoids' centres are members, so OPT_k <= W_k . (c2 - c1); the result must be "OPT_k >= -s_k
        # for every facet k".
        OPT = [z3.Real("OPT_facet_%d" % k) for k in range(K)]
        c1 = E1.center.snapshot.flat()
        c2 = E2.center.snapshot.flat()
        centre_bound = z3.And(*[OPT[k] <= S.dot(W[k], S.vsub([V.R(x) for x in c2], [V.R(x) for x in c1])) for k in range(K)])
        spec_result = z3.And(*[OPT[k] >= -V.R(sK[k]) for k in range(K)])

        def goal(p):
            if p.kind != "return":
                return False
            recs = cvx_for_path(t, p)
            link = []
            for rec in recs:
                zv, zpv = rec["vars"][:m], rec["vars"][m:2 * m]
                for k in range(K):
                    link.append(z3.Implies(_same_linear(rec["objective"], S.dot(W[k], S.vsub(zpv, zv)), list(zv) + list(zpv)), rec["optval"] == OPT[k]))
                # a solved program that is none of the facets' programs says nothing about the specification
            return z3.Implies(z3.And(centre_bound, *link), V.Bz(p.value) == spec_result)
        t.prove_paths("result_is_forall_facets_min_ge_minus_slack", paths, goal)
        t.implicit()
    return _t


for (_m, _K) in [(2, 2), (2, 3), (3, 3)]:
    for _sk in ("zero", "scalar", "vecK"):
        _ell_dom(_m, _K, _sk)


@task("C09", "Ell.history[is_dominated, m=2, K=2, slack=zero; construct, use, update, use]")
def _ell_dom_history(t):
    """Both ellipsoids built by the real constructor, the predicate used once, the first region updated by the real `update`,
    the predicate used again: every program of the second use ranges over the ellipsoids NOW displayed, and the second result
    is "OPT_k >= 0 for every facet" for those ellipsoids."""
    from pyvc.values import SObj
    from pyvc.harness import cls_ref
    from pyvc.symexec import find_obj
    m, K = 2, 2
    t.mode = "unrolled m=2 K=2, call sequence on one region object"
    order = t.inp("order", InOrder("o", K, m))
    O = t.inputs["order"]
    c1, S1, a1 = t.inp("c1", InArr("c1", (m,))), t.inp("S1", InArr("S1", (m, m))), t.inp("a1", InReal("a1"))
    c2, S2, a2 = t.inp("c2", InArr("c2", (m,))), t.inp("S2", InArr("S2", (m, m))), t.inp("a2", InReal("a2"))
    mean, cov, sc = t.inp("mean", InArr("mu", (m,))), t.inp("cov", InArr("cov", (m, m))), t.inp("scale", InArr("sc", ()))
    e1, e2 = SObj(cls_ref(CR, "EllipsoidalConfidenceRegion")), SObj(cls_ref(CR, "EllipsoidalConfidenceRegion"))
    made = [p for p in t.run(CR, "EllipsoidalConfidenceRegion.__init__", [m, c1, S1, a1], self_val=e1) if p.kind == "return"]
    if len(made) == 1:
        made = [p for p in t.run(CR, "EllipsoidalConfidenceRegion.__init__", [m, c2, S2, a2], self_val=e2, after=made[0]) if p.kind == "return"]
    if len(made) != 1:
        t.prove("constructors_return_on_one_path", False)
        return
    first = [p for p in t.run(CR, "EllipsoidalConfidenceRegion.is_dominated", [None, order, e1, e2, 0], after=made[0]) if p.kind == "return"]
    n0 = len(t.ctx.cvx)
    second = []
    for p in first[:2]:
        for q in t.run(CR, "EllipsoidalConfidenceRegion.update", [mean, cov, sc], self_val=e1, after=p):
            if q.kind == "return":
                second += t.run(CR, "EllipsoidalConfidenceRegion.is_dominated", [None, order, e1, e2, 0], after=q)
    t.prove("history_reaches_the_second_use", z3.BoolVal(len(second) > 0))
    t.must_fail()
    t.no_raise(second)
    W = S.rows_of(O)
    OPT = [z3.Real("OPT_now_facet_%d" % k) for k in range(K)]
    done = set()

    def goal(p):
        if p.kind != "return":
            return False
        cur, oth = find_obj(p.st, e1.oid), find_obj(p.st, e2.oid)
        from pyvc import libmodel as L
        cc1 = [V.R(x) for x in L.as_arr(cur.fields["center"]).flat()]
        cc2 = [V.R(x) for x in L.as_arr(oth.fields["center"]).flat()]
        link = [OPT[k] <= S.dot(W[k], S.vsub(cc2, cc1)) for k in range(K)]
        for rec in cvx_for_path(t, p):
            i = [k for k, r_ in enumerate(t.ctx.cvx) if r_ is rec][0]
            if i < n0:
                continue
            vs = rec["vars"][-2 * m:]
            zv, zpv = vs[:m], vs[m:2 * m]
            if i not in done:
                done.add(i)
                spec = z3.And(ell_member_now(cur.fields["center"], cur.fields["sigma"], cur.fields["alpha"], zv, m),
                              ell_member_now(oth.fields["center"], oth.fields["sigma"], oth.fields["alpha"], zpv, m))
                t.prove("feasible_set_of_the_second_use_is_the_pair_of_ellipsoids_now_displayed#%d" % len(done), rec["constraints"] == spec,
                        assumptions=rec["pc"][len(t.pre):])
            for k in range(K):
                link.append(z3.Implies(_same_linear(rec["objective"], S.dot(W[k], S.vsub(zpv, zv)), list(zv) + list(zpv)), rec["optval"] == OPT[k]))
        return z3.Implies(z3.And(*link), V.Bz(p.value) == z3.And(*[OPT[k] >= 0 for k in range(K)]))
    t.prove_paths("second_result_is_forall_facets_min_ge_zero_for_the_ellipsoids_now_displayed", second, goal)


@task("C09", "Ell.is_dominated.raises[m=2,K=3,slack_size=2]")
def _ell_dom_badslack(t):
    m, K = 2, 3
    order = t.inp("order", InOrder("o", K, m))
    e1 = t.inp("e1", InEll("e1", m))
    e2 = t.inp("e2", InEll("e2", m))
    s = t.inp("s", InArr("s", (2,)))
    paths = t.run(CR, "EllipsoidalConfidenceRegion.is_dominated", [None, order, e1, e2, s])
    t.prove("is_rejected_with_an_exception_exactly", z3.BoolVal(bool(paths) and all(p.kind == "raise" for p in paths)))
