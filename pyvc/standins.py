"""Bounded stand-ins (thorough tier only).  Labelled bounded, never counted as proved.
Each entry: name -> script under /verif/standins run by /venv/bin/python against /repo."""
import json
import os
import subprocess

ROOT = os.path.dirname(os.path.dirname(os.path.abspath(__file__)))
REGISTRY = {}  # prop -> [(name, script, bound description)]


def register(prop, name, script, bound):
    REGISTRY.setdefault(prop, []).append((name, script, bound))


def run_for(prop, seed):
    out = []
    for name, script, bound in REGISTRY.get(prop, []):
        env = dict(os.environ)
        env["PYTHONPATH"] = os.environ.get("PYVC_REPO", "/repo")
        env["VERIF_SEED"] = str(seed)
        env["PYTHONWARNINGS"] = "ignore"
        try:
            p = subprocess.run(["/venv/bin/python", os.path.join(ROOT, "standins", script)], capture_output=True,
                               text=True, timeout=3000, env=env, cwd=ROOT)
        except subprocess.TimeoutExpired:
            out.append({"name": name, "status": "error", "detail": "timeout", "bound": bound})
            continue
        rep = {"name": name, "bound": bound, "label": "bounded stand-in (not proof)"}
        last = [l for l in p.stdout.splitlines() if l.startswith("STANDIN ")]
        if p.returncode == 0 and last:
            rep["status"] = "ok"
            try:
                rep.update(json.loads(last[-1][8:]))
            except Exception:
                pass
        elif p.returncode == 1:
            rep["status"] = "violation"
            rep["detail"] = p.stdout[-1500:]
            rp = os.path.join("replays", "standin_%s_%s.txt" % (prop, name))
            with open(os.path.join(ROOT, rp), "w") as fh:
                fh.write(p.stdout[-20000:])
            rep["replay"] = rp
        else:
            rep["status"] = "error"
            rep["detail"] = (p.stdout + p.stderr)[-1500:]
        out.append(rep)
    return out
