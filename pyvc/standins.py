"""Bounded stand-ins (both tiers; entries marked thorough_only run in the thorough tier only).  Labelled bounded, never counted as proved.
Each entry: name -> script under /verif/standins run by /venv/bin/python against /repo."""
import json
import os
import subprocess

ROOT = os.path.dirname(os.path.dirname(os.path.abspath(__file__)))
REGISTRY = {}  # prop -> [(name, script, bound description)]


THOROUGH_ONLY = set()
COVERS = {}   # stand-in name -> task-name prefixes whose FUNCTIONS the stand-in exercises natively (so it can stand in for
              # such a task when a changed body leaves the deductive engine's reach)


def register(prop, name, script, bound, thorough_only=False, covers=()):
    REGISTRY.setdefault(prop, []).append((name, script, bound))
    COVERS[name] = tuple(covers)
    if thorough_only:
        THOROUGH_ONLY.add(name)


def covering(task_name):
    """(property, stand-in name) pairs whose stand-in covers the function of this task."""
    return [(p, n) for p, lst in REGISTRY.items() for (n, _, _) in lst if any(task_name.startswith(c) for c in COVERS.get(n, ()))]


register("C09", "regions_vs_closed_form_oracle", "c09_c10_oracle.py C09", "scales 1e-4..1e2 x 6 cones x 6 random region pairs (rectangles and ellipsoids), margin > 1e-6*scale",
         covers=("C09/Rect.is_dominated[", "C09/Ell.is_dominated["))
register("C10", "rect_covered_vs_LP_oracle", "c09_c10_oracle.py C10", "scales 1e-4..1e2 x 6 cones x 6 random rectangle pairs, HiGHS LP oracle, margin > 1e-5*scale",
         covers=("C10/Rect.is_covered[",))
register("C04", "exact_tail_sums", "c04_tails.py", "K in {1,5,200}, m in {2,3,6}, delta in {0.9,0.1,0.001}, rounds t <= 20000 (step upper bound), exact scipy tails", thorough_only=True,
         covers=("C04/Auer.compute_beta", "C04/EpsilonPAL.compute_beta", "C04/VOGP.compute_beta", "C04/PaVeBa.compute_radius", "C04/PaVeBaGP.compute_alpha", "C04/PaVeBaPartialGP.compute_alpha"))
register("C08", "two_design_failure_probability", "c08_pac.py", "theta in {45,60,90,120}, noise_var in {0.05,0.5,1,4}, eps in {0.2,1}, delta in {0.1,0.01}; union bound over facets")
register("C12", "icecream_tangency_and_theta_90", "c12_icecream.py", "K in {3..12,16,32,64} x half-angles {5,20,45,60,85}; theta = 90 (one point)")
register("C17", "optima_vs_certificates", "c17_optima.py", "11 bundled cones + 6 random cones in 2-4-D: alpha vs NNLS projection, u* KKT, beta = 1/alpha",
         covers=("C17/get_alpha", "C17/VOGP.compute_u_star", "C17/ConeTheta2D.beta"))
register("C15", "posterior_vs_closed_form", "c15_posterior.py", "d in {1,2,3}, m in {2,3}, train sizes {1,3,12,40}, N in {1,2,7}: independent model vs closed-form conditioning (1e-5); order/batching/forgetting, variance monotone, model-list cross-talk for the other classes",
         covers=tuple("C15/%s.%s[" % (c, m) for c in ("IndependentExactGPyTorchModel", "CorrelatedExactGPyTorchModel", "GPyTorchModelListExactModel") for m in ("add_sample", "update", "predict")))
register("C20", "noise_sample_moments", "c20_moments.py", "2 random correlated factors, 2e5 draws each, 5-sigma bands", covers=("C20/get_noisy_evaluations_chol[",))
register("C11", "check_dominates_vs_LP_oracle", "c11_pessimistic.py", "7 cones x 60 random rectangle pairs (soundness; completeness for 2x2 cones with margin 1e-6); 480 lattice polytope queries in 2-3-D",
         covers=("C11/is_pt_in_extended_polytope[", "C11/Rect.check_dominates[", "C11/line_seg_pt_intersect_at_dim["))
register("C13", "pareto_routines_vs_brute_force", "c13_pareto.py", "6 cones x N in {1,2,3,5,8,13} x 12 half-integer lattice samples (ties, duplicates), both routines",
         covers=("C13/get_pareto_set[", "C13/get_pareto_set_naive["))
register("C16", "histories_vs_independent_accumulator", "c16_empirical.py", "150 random add/update/clear histories, 2-4 designs, 2-3 objectives, all tracking modes",
         covers=("C16/add_sample[", "C16/update[", "C16/predict[", "C16/history["))
register("C19", "gaps_coverage_f1_vs_oracles", "c19_gaps.py", "5 cones x 10 lattice value tables (gaps vs formula), coverage vs SLSQP distance oracle away from the boundary, F1 laws on 36 random instances",
         covers=("C19/get_smallmij[", "C19/get_delta[", "C19/utils.is_covered[", "C19/get_uncovered_size", "C19/epsilonF1["))
register("C14", "updates_vs_closed_form", "c14_update.py", "120 random design-space updates (subsets, scale forms, both region kinds) and 200 iterative intersections, m in {2,3}",
         covers=("C14/FixedPointsDesignSpace.update[", "C14/Rect.update[", "C14/Rect.intersect[", "C14/Ell.update[", "C14/hyperrectangle_check_intersection["))
_ALGOS = ("PaVeBa", "PaVeBaGP", "PaVeBaPartialGP", "VOGP", "VOGP_AD", "EpsilonPAL", "Auer")
register("C02", "discarding_history_independence", "c02_c03_histories.py C02",
         "7 algorithms x 2 cones x rectangle/ellipsoid regions x 3 histories of 4 rounds on 5 designs: discarding() on a long-lived object vs an object holding only the declared state (real region predicates)",
         covers=tuple("C02/%s.discarding" % a for a in _ALGOS) + tuple("C02/%s.compute_pessimistic_set" % a for a in _ALGOS))
register("C03", "promotion_history_independence", "c02_c03_histories.py C03",
         "7 algorithms x 2 cones x rectangle/ellipsoid regions x 3 histories of 4 rounds on 5 designs: pareto_updating / epsiloncovering / useful_updating on a long-lived object vs an object holding only the declared state",
         covers=tuple("C03/%s.%s" % (a, m) for a in _ALGOS for m in ("pareto_updating", "epsiloncovering", "useful_updating")))
for _p in ("C06", "C07"):
    register(_p, "rounds_evaluate_only_active_designs", "c07_round_histories.py",
             "6 algorithm classes (11 configurations) built by the real constructors on the Test dataset, up to 12 real run_one_step() rounds each: every problem.evaluate call checked against the state at that moment (active designs only, no repeats, batch / full sweep size, sample_count accounting, idle after completion)",
             covers=tuple("C06/%s.evaluating" % a for a in _ALGOS) + ("C06/DecoupledGP.evaluating",))
for _p in ("C09", "C10", "C11"):
    register(_p, "region_predicates_history_independence", "c09_region_histories.py",
             "3 cones x 25 rectangle histories (iterative and plain) and 8 ellipsoid histories, 2 updates each: is_dominated / is_covered / check_dominates on the long-lived regions vs fresh regions built from the bounds now displayed",
             covers=("C09/Rect.history[", "C09/Ell.history[", "C10/Rect.history[", "C10/Ell.history[", "C11/Rect.history["))


def run_for(prop, seed, tier="thorough", only=None):
    out = []
    for name, script, bound in REGISTRY.get(prop, []):
        if only is not None and name not in only:
            continue
        if only is None and tier != "thorough" and name in THOROUGH_ONLY:
            continue
        env = dict(os.environ)
        env["PYTHONPATH"] = os.environ.get("PYVC_REPO", "/repo")
        env["VERIF_SEED"] = str(seed)
        env["PYTHONWARNINGS"] = "ignore"
        try:
            parts = script.split()
            p = subprocess.run(["/venv/bin/python", os.path.join(ROOT, "standins", parts[0])] + parts[1:], capture_output=True,
                               text=True, timeout=3000, env=env, cwd=ROOT)
        except subprocess.TimeoutExpired:
            out.append({"name": name, "status": "error", "detail": "timeout", "bound": bound})
            continue
        rep = {"name": name, "bound": bound, "label": "bounded stand-in (not proof)"}
        last = [l for l in p.stdout.splitlines() if l.startswith("STANDIN ")]
        if p.returncode == 0 and last:
            rep["status"] = "ok"
            try:
                rep.update(json.loads(last[-1][8:]))
            except Exception:
                pass
        elif p.returncode == 1:
            rep["status"] = "violation"
            rep["detail"] = p.stdout[-1500:]
            rp = os.path.join("replays", "standin_%s_%s.txt" % (prop, name))
            with open(os.path.join(ROOT, rp), "w") as fh:
                fh.write(p.stdout[-20000:])
            rep["replay"] = rp
        else:
            rep["status"] = "error"
            rep["detail"] = (p.stdout + p.stderr)[-1500:]
        out.append(rep)
    return out
