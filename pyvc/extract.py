"""Read the real VOPy sources as text on every run (never imports the repo).

A ``Module`` is the parsed AST of one file under REPO plus a map of what its
top-level names resolve to (imports, functions, classes).  ``find_def`` follows
``from vopy.x import y`` re-exports until it reaches the defining file.

What extraction drops (and nothing else): docstrings, type annotations and
``logging.*`` call statements.  Every function that is executed symbolically
is recorded (file, line span, sha256 of its source segment) for the evidence.
"""
import ast
import hashlib
import os

REPO = os.environ.get("PYVC_REPO", "/repo")


class ExtractError(Exception):
    pass


class Module:
    def __init__(self, relpath):
        self.relpath = relpath
        path = os.path.join(REPO, relpath)
        with open(path, "r", encoding="utf-8") as fh:
            self.src = fh.read()
        self.lines = self.src.splitlines(keepends=True)
        self.tree = ast.parse(self.src, filename=path)
        self.imports = {}  # alias -> dotted path (module or module.attr)
        self.defs = {}  # name -> ast node (FunctionDef / ClassDef)
        self.assigns = {}  # module-level simple constants name -> ast expr
        for node in self.tree.body:
            if isinstance(node, ast.Import):
                for a in node.names:
                    self.imports[a.asname or a.name.split(".")[0]] = (
                        a.name if a.asname else a.name.split(".")[0]
                    )
            elif isinstance(node, ast.ImportFrom):
                for a in node.names:
                    self.imports[a.asname or a.name] = (node.module or "") + "." + a.name
            elif isinstance(node, (ast.FunctionDef, ast.ClassDef)):
                self.defs[node.name] = node
            elif isinstance(node, ast.Assign) and len(node.targets) == 1 and isinstance(
                node.targets[0], ast.Name
            ):
                self.assigns[node.targets[0].id] = node.value
            elif isinstance(node, ast.AnnAssign) and isinstance(node.target, ast.Name) and node.value is not None:
                self.assigns[node.target.id] = node.value

    def segment(self, node):
        return "".join(self.lines[node.lineno - 1 : node.end_lineno])


_cache = {}


def load(relpath):
    if relpath not in _cache:
        _cache[relpath] = Module(relpath)
    return _cache[relpath]


def reset_cache():
    _cache.clear()


def dotted_to_relpath(dotted):
    """'vopy.utils' -> 'vopy/utils/__init__.py' or 'vopy/utils.py' (None if absent)."""
    base = dotted.replace(".", "/")
    for cand in (base + ".py", base + "/__init__.py"):
        if os.path.exists(os.path.join(REPO, cand)):
            return cand
    return None


def resolve_dotted(dotted, depth=0):
    """Resolve 'vopy.utils.get_alpha' to (Module, ast node) following re-exports.

    Returns ('module', Module) when the dotted path names a module, ('def', Module, node)
    for a function/class, or None when it is not inside the repository."""
    if depth > 8:
        raise ExtractError("import cycle resolving " + dotted)
    if not dotted.startswith("vopy"):
        return None
    rp = dotted_to_relpath(dotted)
    if rp is not None:
        return ("module", load(rp))
    if "." not in dotted:
        return None
    modpart, name = dotted.rsplit(".", 1)
    rp = dotted_to_relpath(modpart)
    if rp is None:
        return None
    mod = load(rp)
    if name in mod.defs:
        return ("def", mod, mod.defs[name])
    if name in mod.imports:
        return resolve_dotted(mod.imports[name], depth + 1)
    if name in mod.assigns:
        return ("const", mod, mod.assigns[name])
    return None


class FuncRef:
    """A function or method of the repository, ready for symbolic execution."""

    def __init__(self, module, node, cls=None):
        self.module = module
        self.node = node
        self.cls = cls  # ast.ClassDef or None
        self.qualname = (cls.name + "." if cls is not None else "") + node.name

    @property
    def key(self):
        return self.module.relpath + "::" + self.qualname

    def info(self):
        seg = self.module.segment(self.node)
        return {
            "function": self.qualname,
            "file": self.module.relpath,
            "lines": [self.node.lineno, self.node.end_lineno],
            "sha256": hashlib.sha256(seg.encode()).hexdigest(),
        }

    def is_property(self):
        for d in self.node.decorator_list:
            if isinstance(d, ast.Name) and d.id == "property":
                return True
        return False

    def decorator_names(self):
        out = []
        for d in self.node.decorator_list:
            if isinstance(d, ast.Name):
                out.append(d.id)
            elif isinstance(d, ast.Attribute):
                out.append(d.attr)
        return out


def class_bases(module, clsnode):
    """Resolve base classes of clsnode to (Module, ClassDef) inside the repo (MRO, linearised
    depth-first left-to-right, which is what VOPy's single-inheritance chains need)."""
    out = []
    for b in clsnode.bases:
        if isinstance(b, ast.Name):
            name = b.id
            if name in module.defs and isinstance(module.defs[name], ast.ClassDef):
                out.append((module, module.defs[name]))
            elif name in module.imports:
                r = resolve_dotted(module.imports[name])
                if r and r[0] == "def" and isinstance(r[2], ast.ClassDef):
                    out.append((r[1], r[2]))
    return out


def find_method(module, clsnode, name):
    """Look a method up along the class's bases. Returns FuncRef or None."""
    seen = set()
    stack = [(module, clsnode)]
    while stack:
        mod, cn = stack.pop(0)
        if (mod.relpath, cn.name) in seen:
            continue
        seen.add((mod.relpath, cn.name))
        for item in cn.body:
            if isinstance(item, ast.FunctionDef) and item.name == name:
                # property setters share the name; prefer the getter / plain def
                decos = [
                    d.attr if isinstance(d, ast.Attribute) else getattr(d, "id", "")
                    for d in item.decorator_list
                ]
                if "setter" in decos:
                    continue
                return FuncRef(mod, item, cn)
        stack.extend(class_bases(mod, cn))
    return None


def find_class_attr(module, clsnode, name):
    """Class-level constant (e.g. BraninCurrin.out_dim)."""
    seen = set()
    stack = [(module, clsnode)]
    while stack:
        mod, cn = stack.pop(0)
        if (mod.relpath, cn.name) in seen:
            continue
        seen.add((mod.relpath, cn.name))
        for item in cn.body:
            if isinstance(item, ast.Assign) and len(item.targets) == 1 and isinstance(
                item.targets[0], ast.Name
            ) and item.targets[0].id == name:
                return (mod, item.value)
        stack.extend(class_bases(mod, cn))
    return None


def get_function(relpath, qualname):
    """'vopy/order.py', 'PolyhedralConeOrder.dominates' -> FuncRef."""
    mod = load(relpath)
    parts = qualname.split(".")
    if len(parts) == 1:
        node = mod.defs.get(parts[0])
        if not isinstance(node, ast.FunctionDef):
            raise ExtractError("no function %s in %s" % (qualname, relpath))
        return FuncRef(mod, node)
    cls = mod.defs.get(parts[0])
    if not isinstance(cls, ast.ClassDef):
        raise ExtractError("no class %s in %s" % (parts[0], relpath))
    for item in cls.body:
        if isinstance(item, ast.FunctionDef) and item.name == parts[1]:
            decos = [
                d.attr if isinstance(d, ast.Attribute) else getattr(d, "id", "")
                for d in item.decorator_list
            ]
            if "setter" in decos:
                continue
            return FuncRef(mod, item, cls)
    raise ExtractError("no method %s in %s" % (qualname, relpath))


def get_class(relpath, name):
    mod = load(relpath)
    cls = mod.defs.get(name)
    if not isinstance(cls, ast.ClassDef):
        raise ExtractError("no class %s in %s" % (name, relpath))
    return mod, cls


def strip_body(body):
    """Drop a leading docstring; logging.* statements are dropped by the executor."""
    if body and isinstance(body[0], ast.Expr) and isinstance(
        getattr(body[0], "value", None), ast.Constant
    ) and isinstance(body[0].value.value, str):
        return body[1:]
    return body
