"""cvxpy as a constraint DSL (DESIGN 2.2).

cp.Variable(n)            -> array of fresh real constants
affine expressions        -> ordinary symbolic arrays
>=, <=, cp.norm(e) <= t,
cp.SOC(t, x)              -> z3 predicates over those constants
cp.Problem(obj, cons).solve() -> ASSUMED solver contract (A-SOLVE):
    feas  <=>  exists vars. constraints
    feasible and bounded  =>  value is the attained minimum of the objective over the constraint set
    status == "optimal" <=> feas (for feasibility problems); "infeasible" in status <=> not feas
    Variable.value is None <=> not feas
The problems a function builds are recorded in ctx.cvx so that the contract script can prove that
the constructed (constraints, objective) are pointwise equal to the specification's program.
"""
import z3

from . import libcalls
from . import libmodel as L
from . import values as V
from .libmodel import SArr
from .values import Unsupported


class CvxVar(SArr):
    __slots__ = ("name", "problem")

    def __init__(self, a, name):
        SArr.__init__(self, a, "f")
        self.name = name
        self.problem = None

    def clone_as(self, na):
        return CvxVar(na, self.name)

    def clone_finish(self, r, memo):
        from .symexec import clone_val

        r.problem = clone_val(self.problem, memo)


class CvxConstraint:
    def __init__(self, formula, desc=""):
        self.formula = formula
        self.desc = desc


class CvxObjective:
    def __init__(self, expr):
        self.expr = expr


class CvxStatus:
    def __init__(self, feas):
        self.feas = feas

    def compare(self, ex, st, name, a, b):
        other = b if a is self else a
        if other is None:
            return name == "ne"
        dotted = getattr(other, "dotted", None)
        if isinstance(dotted, str) and dotted.startswith("cvxpy."):
            # cvxpy's status constants are these strings
            consts = {"OPTIMAL": "optimal", "INFEASIBLE": "infeasible", "UNBOUNDED": "unbounded", "OPTIMAL_INACCURATE": "optimal_inaccurate",
                      "INFEASIBLE_INACCURATE": "infeasible_inaccurate", "UNBOUNDED_INACCURATE": "unbounded_inaccurate"}
            key = dotted.split(".")[-1]
            if key in consts:
                other = consts[key]
        if not isinstance(other, str):
            raise Unsupported("status compared with %r" % (other,))
        if other == "optimal":
            r = self.feas
        elif other in ("infeasible",):
            r = z3.Not(self.feas)
        else:
            L.used("cvxpy: status is exactly 'optimal' or 'infeasible' (inaccurate/unbounded statuses assumed away)")
            r = z3.BoolVal(False)
        return r if name == "eq" else z3.Not(r)

    def contains(self, ex, st, item):
        if item == "infeasible":
            return z3.Not(self.feas)
        if item == "optimal":
            return self.feas
        raise Unsupported("substring test on status: %r" % (item,))

    def is_none(self):
        return False


class CvxValue:
    """Variable.value after solve(): None iff infeasible."""

    def __init__(self, feas):
        self.feas = feas

    def is_none(self):
        return z3.Not(self.feas)


class CvxProblem:
    def __init__(self, objective, constraints, variables):
        self.objective = objective
        self.constraints = constraints
        self.variables = variables
        self.solved = None  # dict after solve

    def getattr(self, ex, st, name):
        from .symexec import BoundLib

        if name == "solve":
            return BoundLib(self, "solve")
        if self.solved is None:
            if name == "status":
                return None
            raise Unsupported("problem attribute %s before solve" % name)
        if name == "status":
            return CvxStatus(self.solved["feas"])
        if name == "value":
            return self.solved["optval"]
        raise Unsupported("cvxpy problem attribute " + name)

    def clone(self, memo):
        from .symexec import clone_val

        p = CvxProblem(self.objective, list(self.constraints), [clone_val(v, memo) for v in self.variables])
        p.solved = dict(self.solved) if self.solved else None
        return p


def _collect_vars(ex, st):
    return [v for v in st.roots.get("__cvxvars__", [])]


def cp_Variable(ex, st, args, kwargs):
    n = args[0] if args else kwargs.get("shape")
    shape = libcalls._shape_arg(n) if n is not None else ()
    name = "cvx!%d" % V.fresh_id()
    arr = L.fresh_array(name, shape, "f")
    v = CvxVar(arr.a, name)
    st.roots.setdefault("__cvxvars__", []).append(v)
    L.used("cvxpy.Variable: fresh real vector variable")
    return v


def cp_norm(ex, st, args, kwargs):
    if len(args) > 1 or kwargs:
        raise Unsupported("cp.norm with p/axis")
    return CvxNorm(L.as_arr(args[0]))


class CvxNorm:
    """||e||_2 as a cvxpy expression; only `norm <= t` is supported."""

    def __init__(self, arr):
        self.arr = arr

    def sumsq(self):
        return L.np_sum(L.binop("mul", self.arr, self.arr))

    def compare(self, ex, st, name, a, b):
        if a is self and name == "le":
            t = b.flat()[0] if isinstance(b, SArr) else b
            # ||x|| <= t  <=>  t >= 0 and sum x_i^2 <= t^2
            L.used("cvxpy.norm(e) <= t denotes t >= 0 and sum(e_i^2) <= t^2")
            return CvxConstraint(z3.And(V.R(t) >= 0, V.R(self.sumsq()) <= V.R(t) * V.R(t)), "norm<=")
        raise Unsupported("cp.norm comparison " + name)

    def clone(self, memo):
        return self


def cp_SOC(ex, st, args, kwargs):
    t, x = args[0], L.as_arr(args[1])
    t = t.flat()[0] if isinstance(t, SArr) else t
    L.used("cvxpy.SOC(t, x) denotes ||x||_2 <= t")
    ss = L.np_sum(L.binop("mul", x, x))
    return CvxConstraint(z3.And(V.R(t) >= 0, V.R(ss) <= V.R(t) * V.R(t)), "SOC")


def cp_Minimize(ex, st, args, kwargs):
    e = args[0]
    if isinstance(e, SArr):
        if e.size != 1:
            raise Unsupported("vector objective")
        e = e.flat()[0]
    return CvxObjective(e)


def _as_formula(c):
    if isinstance(c, CvxConstraint):
        return c.formula
    if isinstance(c, SArr):
        fl = [V.Bz(x) for x in c.flat()]
        return z3.And(*fl) if fl else z3.BoolVal(True)
    if V.is_bool(c):
        return V.Bz(c)
    raise Unsupported("constraint %r" % (c,))


def cp_Problem(ex, st, args, kwargs):
    obj = args[0]
    cons = kwargs.get("constraints", args[1] if len(args) > 1 else [])
    if not isinstance(obj, CvxObjective):
        raise Unsupported("problem objective")
    forms = [_as_formula(c) for c in cons]
    vars_ = list(st.roots.get("__cvxvars__", []))
    return CvxProblem(obj, forms, vars_)


def problem_solve(ex, st, prob, args, kwargs):
    n = V.fresh_id()
    feas = z3.Bool("feas!%d" % n)
    optval = z3.Real("optval!%d" % n)
    L.used("cvxpy.Problem.solve: A-SOLVE (exact feasibility verdict / attained minimum of the program handed over)")
    prob.solved = {"feas": feas, "optval": optval, "id": n}
    marker = z3.Bool("solved!%d" % n)  # fresh, assumed true: only tags the path this solve call lies on
    st.pc.append(marker)
    rec = {"id": n, "feas": feas, "optval": optval, "constraints": z3.And(*prob.constraints) if prob.constraints else z3.BoolVal(True),
           "objective": V.R(prob.objective.expr), "vars": [v for var in prob.variables for v in var.flat()],
           "pc": list(st.pc), "where": ex.ctx.cur_where, "marker": marker}
    ex.ctx.cvx.append(rec)
    for var in prob.variables:
        var.problem = prob
    return optval


def install():
    libcalls.NP.update({
        "cvxpy.Variable": cp_Variable, "cvxpy.norm": cp_norm, "cvxpy.SOC": cp_SOC,
        "cvxpy.Minimize": cp_Minimize, "cvxpy.Problem": cp_Problem,
    })


install()
