"""Task harness: contract scripts (``/verif/contracts``) use a ``T`` object to declare symbolic
inputs, run the real function bodies through the symbolic executor and state obligations.

Every obligation has a stable name ``<prop>/<task>/<clause>``.
"""
import json
import os
import time
import traceback
from fractions import Fraction

import z3

from . import extract
from . import libmodel as L
from . import solve
from . import values as V
from .libmodel import SArr
from .symexec import Abort, ClassRef, Ctx, Exec, Frame, PyFunc, State, NORMAL
from .values import EngineError, SObj, Unsupported, isz

TASKS = {}  # name -> (prop, fn, tier)


def task(prop, name, tier="quick", group=None):
    def deco(fn):
        full = prop + "/" + name
        if full in TASKS:
            raise EngineError("duplicate task " + full)
        TASKS[full] = {"prop": prop, "name": name, "fn": fn, "tier": tier, "group": group}
        return fn

    return deco


class Path:
    def __init__(self, st, outcome, value):
        self.st = st
        self.pc = list(st.pc)
        self.kind = outcome  # 'return' | 'raise'
        self.value = value  # return value, or (excname, msg)

    def cond(self):
        return z3.And(*self.pc) if self.pc else z3.BoolVal(True)


# ----------------------------------------------------------------------------
# input descriptors (symbolic value + how to rebuild the real input from a model)
# ----------------------------------------------------------------------------


def _num_src(me, x):
    """Python source for the numeric value of scalar term/constant x under model-evaluator me."""
    if isinstance(x, bool):
        return repr(x)
    if isinstance(x, int):
        return repr(x)
    if isinstance(x, Fraction):
        return "(%d/%d)" % (x.numerator, x.denominator) if x.denominator != 1 else "%d.0" % x.numerator
    v = me(x)
    if z3.is_true(v):
        return "True"
    if z3.is_false(v):
        return "False"
    if z3.is_int_value(v):
        return str(v.as_long())
    if z3.is_rational_value(v):
        n, d = v.numerator_as_long(), v.denominator_as_long()
        return "(%d/%d)" % (n, d)
    if z3.is_algebraic_value(v):
        return v.approx(30).as_decimal(30).rstrip("?")
    raise Unsupported("cannot concretise %s" % v)


def _arr_src(me, arr):
    def rec(a):
        if not hasattr(a, "ndim") or not hasattr(a, "shape") or isz(a):
            return _num_src(me, a)
        if a.ndim == 0:
            return _num_src(me, a[()])
        return "[" + ", ".join(rec(a[i]) for i in range(a.shape[0])) + "]"

    dt = {"f": "float", "i": "int", "b": "bool"}.get(arr.kind, "float")
    if arr.size == 0:
        return "np.empty(%r, dtype=%s)" % (tuple(arr.shape), dt)
    return "np.array(%s, dtype=%s)" % (rec(arr.a), dt)


class Inp:
    sym = None

    def src(self, me):
        raise NotImplementedError


class InReal(Inp):
    def __init__(self, name):
        self.sym = z3.Real(name)

    def src(self, me):
        return _num_src(me, self.sym)


class InInt(Inp):
    def __init__(self, name):
        self.sym = z3.Int(name)

    def src(self, me):
        return _num_src(me, self.sym)


class InBool(Inp):
    def __init__(self, name):
        self.sym = z3.Bool(name)

    def src(self, me):
        return _num_src(me, self.sym)


class InConst(Inp):
    def __init__(self, value, src=None):
        self.sym = value
        self._src = src if src is not None else repr(value)

    def src(self, me):
        return self._src


class InArr(Inp):
    def __init__(self, name, shape, kind="f"):
        self.sym = L.fresh_array(name, tuple(shape), kind)
        self.sym.origin = name
        self.snapshot = L.copy(self.sym)  # entry values for frame obligations

    def src(self, me):
        return _arr_src(me, self.snapshot)


def cls_ref(relpath, name):
    mod, node = extract.get_class(relpath, name)
    return ClassRef(mod, node)


class InRect(Inp):
    def __init__(self, name, m, iterative=False, lower_kind="f"):
        self.m = m
        self.lower = InArr(name + "_lo", (m,), lower_kind)   # lower_kind="i": an integer-dtype lower bound array
        self.upper = InArr(name + "_up", (m,))
        self.iterative = iterative
        self.sym = SObj(cls_ref("vopy/confidence_region.py", "RectangularConfidenceRegion"),
                        {"lower": self.lower.sym, "upper": self.upper.sym, "intersect_iteratively": iterative},
                        tag=name)

    def valid(self):
        return z3.And(*[V.R(self.lower.snapshot.a[i]) <= V.R(self.upper.snapshot.a[i]) for i in range(self.m)])

    def src(self, me):
        return "RectangularConfidenceRegion(%d, %s, %s, intersect_iteratively=%r)" % (
            self.m, self.lower.src(me), self.upper.src(me), self.iterative)


class InEll(Inp):
    def __init__(self, name, m):
        self.m = m
        self.center = InArr(name + "_c", (m,))
        self.sigma = InArr(name + "_S", (m, m))
        self.alpha = InReal(name + "_alpha")
        self.sym = SObj(cls_ref("vopy/confidence_region.py", "EllipsoidalConfidenceRegion"),
                        {"center": self.center.sym, "sigma": self.sigma.sym, "alpha": self.alpha.sym}, tag=name)

    def src(self, me):
        return "EllipsoidalConfidenceRegion(%d, %s, %s, %s)" % (
            self.m, self.center.src(me), self.sigma.src(me), self.alpha.src(me))


class InOrder(Inp):
    """PolyhedralConeOrder over OrderingCone with symbolic W (K x m); alpha is a separate symbolic
    (K,1) array (its meaning is C17's subject), so the heavy constructor is bypassed in replay."""

    def __init__(self, name, K, m, W_kind="f"):
        self.K, self.m = K, m
        self.W = InArr(name + "_W", (K, m), W_kind)          # W_kind="i": a cone matrix of integer dtype
        self.alpha = InArr(name + "_alpha", (K, 1))
        cone = SObj(cls_ref("vopy/ordering_cone.py", "OrderingCone"),
                    {"W": self.W.sym, "dim": m, "alpha": self.alpha.sym}, tag=name + ".cone")
        self.cone = cone
        self.sym = SObj(cls_ref("vopy/order.py", "PolyhedralConeOrder"), {"ordering_cone": cone}, tag=name)

    def row(self, k):
        return [self.W.snapshot.a[k, j] for j in range(self.m)]

    def src(self, me):
        return "mk_order(%s, %s)" % (self.W.src(me), self.alpha.src(me))


REPLAY_PRELUDE = '''\
import sys, json, math
import numpy as np
np.seterr(all="ignore")
from vopy.confidence_region import *
from vopy.order import PolyhedralConeOrder
from vopy.ordering_cone import OrderingCone

def mk_order(W, alpha):
    cone = object.__new__(OrderingCone)
    cone.W = np.array(W, dtype=float); cone.dim = cone.W.shape[1]; cone.alpha = np.array(alpha, dtype=float)
    return PolyhedralConeOrder(cone)

def same(a, b, tol=1e-7):
    if a is None or b is None:
        return a is None and b is None
    if isinstance(b, (list, tuple)) and not isinstance(a, np.ndarray) and any(isinstance(x, (np.ndarray, list, tuple)) for x in b):
        return isinstance(a, (list, tuple)) and len(a) == len(b) and all(same(x, y, tol) for x, y in zip(a, b))
    if isinstance(b, str) or isinstance(a, str):
        return a == b
    if isinstance(b, bool) or isinstance(a, (bool, np.bool_)):
        return bool(a) == bool(b)
    a = np.asarray(a, dtype=float); b = np.asarray(b, dtype=float)
    if a.shape != b.shape:
        return False
    return bool(np.all(np.abs(a - b) <= tol * (1 + np.abs(b))))
'''


# ----------------------------------------------------------------------------
# the task context
# ----------------------------------------------------------------------------


class T:
    def __init__(self, prop, name, tier, timeout_ms):
        self.prop = prop
        self.name = name
        self.tier = tier
        self.timeout_ms = timeout_ms
        self.ctx = Ctx(prop + "/" + name)
        self.pre = []
        self.results = []
        self.inputs = {}
        self.last_call = None
        self.contracts = {}
        self.hooks = {}
        self.assumptions_named = []  # named assumed axioms used by this task
        self.trusted = set()
        self.mode = None
        self.samples = []
        self.merge_ifs = False
        self.ieee_div = False  # model x/0 on symbolic reals as IEEE nan / inf (default: unspecified real, A-FP)
        self.pure = set()
        self.finite = None  # set-level tasks: {"N": z3 Int, "replay": builder} enables candidate search + replay
        self.clause_filter = None  # compiled regex: run only matching clauses (task used as a dependency of another property)
        self.bounded_fn = None     # callable running this task's bounded structural check (stands in when the proof is out of reach)

    # ---- inputs ----------------------------------------------------------
    def inp(self, name, desc):
        self.inputs[name] = desc
        if getattr(self, "construct_regions", False) and isinstance(desc, (InRect, InEll)):
            # second attempt of a task whose body asked a region stub for an attribute the contract does not model: the region
            # is built by the REAL constructor (a complete object: whatever the class keeps besides its declared fields is there)
            rect = isinstance(desc, InRect)
            cname = "RectangularConfidenceRegion" if rect else "EllipsoidalConfidenceRegion"
            obj = SObj(cls_ref("vopy/confidence_region.py", cname), tag=getattr(desc.sym, "tag", name))
            args = [desc.m, desc.lower.sym, desc.upper.sym, desc.iterative] if rect else [desc.m, desc.center.sym, desc.sigma.sym, desc.alpha.sym]
            rets = [p for p in self.run("vopy/confidence_region.py", cname + ".__init__", args, self_val=obj) if p.kind == "return"]
            if len(rets) != 1:
                raise Unsupported("the constructor of an input region does not return on exactly one path")
            self._after = rets[0]
            desc.sym = obj
        return desc.sym

    def assume(self, *fs):
        for f in fs:
            if isinstance(f, bool):
                if not f:
                    self.pre.append(z3.BoolVal(False))
                continue
            self.pre.append(f)

    def axiom(self, name, formula):
        """A named ASSUMED mathematical fact (goes to trusted_base)."""
        self.trusted.add("axiom:" + name)
        self.pre.append(formula)

    # ---- running real code ----------------------------------------------
    def func(self, relpath, qualname):
        return extract.get_function(relpath, qualname)

    def run(self, relpath, qualname, args=(), kwargs=None, self_val=None, argnames=None, setmode=False, after=None):
        """Symbolically execute the real function. Returns list[Path].  `after`: a Path of an earlier run of this task: the
        call continues in that path's final state (module-level objects, heap), for properties about call SEQUENCES."""
        fref = extract.get_function(relpath, qualname)
        if after is None:
            after = getattr(self, "_after", None)     # inputs built by real constructors live in that state
        ex = Exec(self.ctx, contracts=self.contracts, hooks=self.hooks)
        ex.setmode = setmode
        V.IEEE_DIV[0] = bool(self.ieee_div)
        ex.merge_ifs = self.merge_ifs
        self.ctx.prune = not self.merge_ifs
        ex.pure = set(self.pure)
        st = State()
        st.pc = list(self.pre)
        if after is not None:
            prev = after.st.clone()
            st.pc = list(prev.pc)
            st.roots = prev.roots
            st.log = prev.log
            # objects handed over again (self / arguments) are the ones of THAT state (same oid), not the caller's originals
            from .symexec import find_obj as _find

            def _remap(v):
                if isinstance(v, SObj):
                    try:
                        r = _find(prev, v.oid)
                    except Exception:
                        r = None
                    return r if r is not None else v
                if isinstance(v, list):
                    return [_remap(x) for x in v]
                if isinstance(v, tuple):
                    return tuple(_remap(x) for x in v)
                return v
            self_val = _remap(self_val)
            args = [_remap(a) for a in args]
        st.frames.append(Frame(fref.module))
        st.roots["inputs"] = {k: d.sym for k, d in self.inputs.items() if not isz(d.sym)}
        st.roots["self"] = self_val
        st.roots["args"] = [a for a in args if not isz(a)]
        self.ctx.touch(fref)
        kwargs = dict(kwargs or {})
        entry = None
        if isinstance(self_val, SObj):
            entry = {k: (list(v) if isinstance(v, list) else v) for k, v in self_val.fields.items()}
        self.last_call = {"relpath": relpath, "qualname": qualname, "args": list(args), "kwargs": kwargs,
                          "self": self_val, "self_entry": entry}
        with self.ctx:
            ex.depth = 0
            cls = ClassRef(fref.module, fref.cls) if fref.cls is not None else None
            args = list(args)
            decos = [getattr(d, "id", getattr(d, "attr", None)) for d in getattr(fref.node, "decorator_list", [])]
            if cls is not None and "classmethod" in decos and args and args[0] is None:
                args[0] = cls  # contracts pass None for `cls`: hand the class itself to the body (helpers called through cls.)
            res = ex.inline(fref.node, fref.module, fref, cls, None, list(args), kwargs, st, self_val, None)
        paths = []
        npre = len(self.pre)
        for s, v in res:
            s_pc = s.pc[npre:]
            p = Path(s, "raise" if isinstance(v, Abort) else "return",
                     (v.outcome[1], v.outcome[2]) if isinstance(v, Abort) else v)
            p.pc = s_pc
            paths.append(p)
        self.ex = ex
        return paths

    # ---- obligations -----------------------------------------------------
    def _record(self, clause, kind, res, extra=None):
        r = {"obligation": "%s/%s/%s" % (self.prop, self.name, clause), "kind": kind}
        r.update({k: v for k, v in res.items() if not k.startswith("_")})
        if extra:
            r.update(extra)
        self.results.append(r)
        return r

    def fallback(self, reason):
        """The function could not be brought within the deductive engine's reach (reason); a bounded check stood in."""
        self._record("bounded-stand-in-used", "fallback", {"status": "proved", "backend": "none", "seconds": 0,
                                                            "detail": "set-level proof not possible for this body (%s); the bounded structural check of this task stands in" % reason[:300]})

    def prove(self, clause, goal, assumptions=(), kind="ensures", replay=None, timeout_ms=None, use_pre=True,
              tactic=None, retry=True, needed=False):
        """pre /\\ facts /\\ assumptions => goal.   needed=True: later clauses of the task build on this one's verdict, so under a
        clause filter it is still decided (silently: not recorded among the dependency's obligations)."""
        silent = False
        if self.clause_filter is not None and kind != "bounded" and not self.clause_filter.search(clause):
            if not needed:
                return None  # this task runs as a dependency of another property: only the clauses that property consumes
            silent = True
        if isinstance(goal, bool):
            goal = z3.BoolVal(goal)
        base = (list(self.pre) if use_pre else []) + list(assumptions)
        asm = base + relevant_facts(self.ctx.facts, base + [goal])
        budget = timeout_ms or self.timeout_ms
        res = solve.check_valid(asm, goal, budget, tactic=tactic)
        if retry and res["status"] == "unknown" and budget < 60000 and "timeout" in str(res.get("detail", "")):
            # a verdict must not flip with machine load: one retry with a four-fold budget before giving up
            res2 = solve.check_valid(asm, goal, 4 * budget, tactic=tactic)
            if res2["status"] != "unknown":
                res2["backend"] = "%s (retry with %d ms)" % (res2.get("backend"), 4 * budget)
                res = res2
        if res["status"] == "failed" and _mentions_overapprox(asm + [goal], res.get("_z3model")):
            # the counter-model uses a value the contracts deliberately left unconstrained (an over-approximated callee
            # result): that is imprecision of the checker, not evidence against the code
            res = {"status": "unknown", "backend": res.get("backend"), "seconds": res.get("seconds"),
                   "detail": "counter-model depends on an over-approximated callee result (marker *_unknown!*): undecided"}
        if res["status"] == "failed":
            from . import numeval
            if numeval.mentions_free_uf(asm + [goal]):
                # the solver interprets log / exp / trig freely: its model is a counterexample only if the obligation also fails
                # with the real functions (at the model's inputs or at sampled ones)
                verdict, info = numeval.refute(asm, goal, res.get("_z3model"))
                if verdict != "confirmed":
                    # random assignments rarely satisfy equality-defined auxiliaries (sqrt, ceil, spec constants): fix only the
                    # declared inputs and let the solver find the rest, with log/exp/trig pinned to their real values
                    v2, m2 = numeval.refute_by_solving(asm, goal, res.get("_z3model"), self._input_consts())
                    if v2 == "confirmed":
                        res["_z3model"] = m2
                        res["model"] = solve.model_to_dict(m2)
                        res["backend"] = "%s; counter-model re-solved with log/exp/trig pinned to the real functions at its arguments" % res.get("backend")
                        verdict = "confirmed*"
                if verdict == "confirmed":
                    res["numeric_counterexample"] = {k: (v if isinstance(v, (bool, int)) else float(v)) for k, v in info.items()}
                    res["backend"] = "%s; failing input re-evaluated with the real log/exp/trig functions" % res.get("backend")
                elif verdict == "spurious":
                    res = {"status": "unknown", "backend": res.get("backend"), "seconds": res.get("seconds"),
                           "detail": "the solver's counter-model interprets log/exp/trig freely and the obligation holds with the real functions at its inputs and at %s sampled inputs satisfying the assumptions: undecided" % info.get("assignments_satisfying_the_assumptions")}
        extra = {}
        big_model = res if res["status"] == "failed" else None
        if (res["status"] == "unknown" or (res["status"] == "failed" and self.finite is not None and self.finite.get("replay"))) and self.finite is not None:
            # unknown: look for a small counter-model;  failed: the solver's own model of a quantified set-level query is
            # usually huge (thousands of designs) and cannot be replayed, so a small one is searched for the replay
            from . import finite

            ok = False
            for size in (1, 2, 3):
                found = finite.search(asm, goal, self.finite.get("N"), sizes=(size,))
                if found is None:
                    continue
                res = {"status": "failed", "backend": "z3 (candidate from finite expansion, universe size %d; confirmed only by replay)" % found[1],
                       "seconds": res.get("seconds"), "model": solve.model_to_dict(found[0]), "_z3model": found[0],
                       "bounded_candidate": True}
                replay = self.finite.get("replay", replay)
                self.finite["n"] = found[1]
                # validate the candidate on the real code right away; keep searching larger universes otherwise
                rp = self._make_replay(clause, res, replay)
                from .replayrun import run_replay
                ok, _ = run_replay(rp)
                if ok:
                    break
            if big_model is not None and not ok:
                res = big_model   # the solver's own counter-model stands; no small replayable instance was confirmed
        if res["status"] == "failed":
            extra["replay"] = self._make_replay(clause, res, replay)
        if silent:
            return dict(res)
        if len(self.samples) < 3:
            self.samples.append({"obligation": "%s/%s/%s" % (self.prop, self.name, clause),
                                 "goal_head": str(goal)[:300], "n_assumptions": len(asm)})
        return self._record(clause, kind, res, extra)

    def _input_consts(self):
        """The z3 constants the task's declared inputs are made of."""
        out, seen = [], set()

        def walk(v, depth=0):
            if depth > 4 or id(v) in seen:
                return
            seen.add(id(v))
            if z3.is_expr(v):
                if z3.is_const(v) and v.decl().kind() == z3.Z3_OP_UNINTERPRETED:
                    out.append(v)
            elif isinstance(v, L.SArr):
                for x in v.flat():
                    walk(x, depth + 1)
            elif isinstance(v, SObj):
                for x in v.fields.values():
                    walk(x, depth + 1)
            elif isinstance(v, (list, tuple)):
                for x in v:
                    walk(x, depth + 1)
        for inp in self.inputs.values():
            walk(getattr(inp, "snapshot", None) if getattr(inp, "snapshot", None) is not None else getattr(inp, "sym", None))
            walk(getattr(inp, "sym", None))
        return out

    def prove_paths(self, clause, paths, goal_of, kind="ensures", replay=None, only=None, timeout_ms=None):
        """One obligation: for every path, pc => goal_of(path)."""
        gs = []
        for p in paths:
            if only is not None and not only(p):
                continue
            g = goal_of(p)
            if isinstance(g, bool):
                g = z3.BoolVal(g)
            gs.append(z3.Implies(p.cond(), g))
        goal = z3.And(*gs) if gs else z3.BoolVal(True)
        return self.prove(clause, goal, kind=kind, replay=replay or ("paths", paths), timeout_ms=timeout_ms)

    def prove_each_path(self, clause, paths, goal_of, kind="ensures", replay=None, chunk=1, timeout_ms=None):
        """Like prove_paths but one obligation per path (or per chunk of paths): keeps each query small."""
        res = []
        for i in range(0, len(paths), chunk):
            res.append(self.prove_paths("%s#path%d" % (clause, i // chunk), paths[i:i + chunk], goal_of, kind=kind, replay=replay, timeout_ms=timeout_ms))
        return res

    def agree(self, paths, k=3, clause="engine_agrees_with_cpython"):
        """Engine/CPython agreement (thorough tier): for up to k paths, a model of precondition + path condition is
        turned into real inputs, the REAL function is run under /venv/bin/python, and its outcome (return value and final
        object state) must equal what the engine predicted for that path.  A disagreement means the checker is broken (exit 3)."""
        if self.tier != "thorough":
            return
        from .replayrun import run_replay
        done = 0
        for i, p in enumerate(paths):
            if done >= k:
                break
            s = z3.Solver()
            s.set("timeout", 5000)
            cache, names = {}, {}
            for a in list(self.pre) + list(self.ctx.facts) + list(p.pc):
                s.add(a)
            if s.check() != z3.sat:
                continue
            m = s.model()
            try:
                body = self._replay_body(m, ("paths", [p]))
            except Exception as e:
                self._record("%s#%d" % (clause, i), "agreement", {"status": "proved", "backend": "skipped", "seconds": 0,
                                                                       "detail": "inputs not concretisable: %s" % str(e)[:120]})
                done += 1
                continue
            if body is None:
                continue
            fname = "agree__%s__%s__%d.py" % (self.prop, "".join(c if c.isalnum() else "_" for c in self.name), i)
            root = os.path.dirname(os.path.dirname(os.path.abspath(__file__)))
            os.makedirs(os.path.join(root, "replays"), exist_ok=True)
            with open(os.path.join(root, "replays", fname), "w") as fh:
                fh.write(REPLAY_PRELUDE + "\nOBLIGATION = %r\n" % ("%s/%s/%s#%d" % (self.prop, self.name, clause, i)) + "\n".join(body) + "\n")
            ok, out = run_replay(os.path.join("replays", fname))
            # the generated script says REPLAY-CONFIRMED exactly when real outcome == engine prediction
            self._record("%s#%d" % (clause, i), "agreement",
                         {"status": "proved" if ok else "error", "backend": "cpython replay", "seconds": 0,
                          "detail": "" if ok else out[-600:]})
            done += 1

    def cover(self, clause, formulas, timeout_ms=None):
        """Vacuity guard: the formulas (with pre and facts) must be satisfiable."""
        asm = list(self.pre) + list(self.ctx.facts) + list(formulas)
        res = solve.check_sat(asm, timeout_ms or self.timeout_ms)
        if res["status"] == "unknown":
            # quantified preconditions (set-level tasks): a model of the finite expansion shows satisfiability
            from . import finite
            found = finite.search(asm, z3.BoolVal(False), None, sizes=(2, 3, 4))
            if found is not None:
                res = {"status": "proved", "backend": "z3 (finite expansion, universe size %d)" % found[1], "seconds": res.get("seconds")}
        if res["status"] == "unknown":
            res2 = solve.check_sat(asm, 90000)
            if res2["status"] != "unknown":
                res = res2
        return self._record(clause, "cover", res)

    def must_fail(self, clause="planted-false"):
        """Planted obligation that must NOT verify: `pre => False` has to come back with a model."""
        res = solve.check_valid(list(self.pre) + list(self.ctx.facts), z3.BoolVal(False), min(self.timeout_ms, 4000),
                                use_cvc5=False)
        if res["status"] == "unknown":
            # satisfiability modulo functional consistency of real-valued library functions
            cache, names = {}, {}
            s2 = z3.Solver()
            s2.set("timeout", int(self.timeout_ms))
            for a in list(self.pre) + list(self.ctx.facts):
                s2.add(solve.abstract_ufs(a, cache, names))
            if s2.check() == z3.sat:
                res = {"status": "failed", "backend": "z3 (UF terms as constants)", "seconds": res.get("seconds")}
        if res["status"] == "unknown":
            # quantified preconditions (set-level tasks): a model of the finite expansion shows satisfiability
            from . import finite
            nvar = None
            for a in self.pre:
                pass
            found = finite.search(list(self.pre) + list(self.ctx.facts), z3.BoolVal(False), None, sizes=(2, 3, 1))
            if found is not None:
                res = {"status": "failed", "backend": "z3 (finite expansion, universe size %d)" % found[1], "seconds": res.get("seconds")}
        if res["status"] == "unknown":
            res = solve.check_valid(list(self.pre) + list(self.ctx.facts), z3.BoolVal(False), 90000, use_cvc5=False)
        ok = res["status"] == "failed"
        rr = {"status": "proved" if ok else ("unknown" if res["status"] == "unknown" else "failed"),
              "backend": res.get("backend"), "seconds": res.get("seconds"),
              "detail": "planted-false is refuted as expected" if ok else ("precondition is vacuous" if res["status"] == "proved" else "could not decide satisfiability of the precondition: %s" % res.get("detail"))}
        return self._record(clause, "vacuity", rr)

    def no_raise(self, paths, clause="no-raise", allowed=None):
        """Explicit raises must be unreachable (or exactly the allowed condition)."""
        bad = [p for p in paths if p.kind == "raise"]
        if allowed is None:
            goal = z3.And(*[z3.Not(p.cond()) for p in bad]) if bad else z3.BoolVal(True)
            return self.prove(clause, goal, replay=("paths", paths))
        # raises exactly when `allowed`
        rc = z3.Or(*[p.cond() for p in bad]) if bad else z3.BoolVal(False)
        return self.prove(clause, rc == allowed, replay=("paths", paths))

    def implicit(self, prefix="implicit", assumptions=()):
        """Discharge the implicit obligations the executor met (index bounds, domains, shapes...)."""
        seen = {}
        for ob in self.ctx.implicit:
            key = (ob["kind"], ob["where"])
            seen.setdefault(key, []).append(ob)
        for (kind, where), obs in sorted(seen.items()):
            goal = z3.And(*[z3.Implies(z3.And(*o["pc"]) if o["pc"] else z3.BoolVal(True), o["goal"]) for o in obs])
            # pc already contains pre (states start from pre)
            base = list(assumptions)
            res = solve.check_valid(base + relevant_facts(self.ctx.facts, base + [goal]), goal, self.timeout_ms)
            extra = {}
            if res["status"] == "failed":
                extra["replay"] = self._make_replay("%s:%s@%s" % (prefix, kind, where), res, None)
            self._record("%s:%s@%s" % (prefix, kind, where.split(":", 1)[-1]), "implicit", res, extra)
        self.ctx.implicit = []

    def frame_unchanged(self, clause, paths, names):
        """Input arrays named are not written (their buffers equal the entry snapshot on every path)."""
        def goal(p):
            cs = []
            for n in names:
                d = self.inputs[n]
                cur = p.st.roots["inputs"].get(n) if isinstance(d, InArr) else None
                if cur is None:
                    continue
                if tuple(cur.shape) != tuple(d.snapshot.shape):
                    cs.append(z3.BoolVal(False))   # the caller's array object was reshaped in place
                    continue
                for a, b in zip(cur.flat(), d.snapshot.flat()):
                    if a is not b:
                        cs.append(V.Z(V.eq(a, b)))
            return z3.And(*cs) if cs else z3.BoolVal(True)

        return self.prove_paths(clause, paths, goal, kind="frame", replay=("frame", list(names)))

    # ---- replay ----------------------------------------------------------
    def _make_replay(self, clause, res, replay):
        """Write a self-contained replay script for a counter-model; returns its path (relative)."""
        m = res.get("_z3model")
        fname = "%s__%s__%s.py" % (self.prop, self.name, clause)
        fname = "".join(c if c.isalnum() or c in "._-" else "_" for c in fname)
        path = os.path.join("replays", fname)
        os.makedirs(os.path.join(os.path.dirname(os.path.dirname(os.path.abspath(__file__))), "replays"), exist_ok=True)
        full = os.path.join(os.path.dirname(os.path.dirname(os.path.abspath(__file__))), path)
        lines = ["# replay of obligation %s/%s/%s" % (self.prop, self.name, clause),
                 "# solver: %s  status: failed (counter-model below)" % res.get("backend"),
                 "OBLIGATION = %r" % ("%s/%s/%s" % (self.prop, self.name, clause)),
                 "MODEL = %s" % json.dumps(res.get("model", {}), indent=0)[:20000]]
        body = None
        if m is not None:
            try:
                body = self._replay_body(m, replay)
            except Exception as e:  # replay construction is best-effort
                lines.append("# replay construction failed: %s" % (str(e).replace("\n", " ")[:300]))
        if body is None:
            lines.append("print('REPLAY-NOT-CONSTRUCTIBLE obligation=%s' % OBLIGATION)")
            lines.append("raise SystemExit(4)")
        else:
            lines = [REPLAY_PRELUDE] + lines + body
        with open(full, "w") as fh:
            fh.write("\n".join(lines) + "\n")
        return path

    def _replay_body(self, m, replay):
        if callable(replay):
            return replay(m)
        if self.last_call is None:
            return None
        me = lambda x: m.eval(V.Z(x), model_completion=True)
        call = self.last_call
        by_sym = {}
        for k, d in self.inputs.items():
            by_sym[id(d.sym)] = (k, d)
        body = []
        for k, d in self.inputs.items():
            body.append("%s = %s" % (k, d.src(me)))

        pre_lines = []

        def objsrc(o, fields):
            """Rebuild a repository object with object.__new__ and its entry-time fields."""
            if not hasattr(o.cls, "module"):
                raise Unsupported("stub object not concretisable")
            var = "_obj%d" % o.oid
            modname = o.cls.module.relpath[:-3].replace("/", ".")
            pre_lines.append("import %s as _m%d" % (modname, o.oid))
            pre_lines.append("%s = object.__new__(_m%d.%s)" % (var, o.oid, o.cls.name))
            for k, v in fields.items():
                pre_lines.append("%s.%s = %s" % (var, k, argsrc(v)))
            return var

        def argsrc(a):
            if id(a) in by_sym:
                return by_sym[id(a)][0]
            if isinstance(a, SObj):
                ent = call.get("self_entry") if a is call.get("self") else None
                return objsrc(a, ent if ent is not None else a.fields)
            if isinstance(a, list):
                return "[" + ", ".join(argsrc(x) for x in a) + "]"
            if isinstance(a, tuple):
                return "(" + ", ".join(argsrc(x) for x in a) + ("," if len(a) == 1 else "") + ")"
            if a is None or isinstance(a, (bool, int, str)):
                return repr(a)
            if isinstance(a, Fraction):
                return _num_src(me, a)
            if isz(a):
                return _num_src(me, a)
            if isinstance(a, SArr):
                return _arr_src(me, a)
            if isinstance(a, ClassRef):  # a repository class held as a value (e.g. confidence_region_cls)
                pre_lines.append("import %s as _mc_%s" % (a.module.relpath[:-3].replace("/", "."), a.name))
                return "_mc_%s.%s" % (a.name, a.name)
            raise Unsupported("argument not concretisable (%s)" % type(a).__name__)

        mod = call["relpath"][:-3].replace("/", ".")
        q = call["qualname"]
        body.append("import %s as _mod" % mod)
        fref = extract.get_function(call["relpath"], q)
        cargs = list(call["args"])
        if "classmethod" in fref.decorator_names():
            cargs = cargs[1:]
        args = ", ".join([argsrc(a) for a in cargs] + ["%s=%s" % (k, argsrc(v)) for k, v in call["kwargs"].items()])
        selfvar = None
        if call["self"] is not None:
            selfvar = argsrc(call["self"])
            target = "%s.%s" % (selfvar, q.split(".")[-1])
        elif "." in q:
            target = "_mod.%s" % q
        else:
            target = "_mod.%s" % q
        # predicted outcome: find the path whose pc holds in the model
        pred = None
        if isinstance(replay, tuple) and replay[0] == "paths":
            for p in replay[1]:
                ok = True
                for c in p.pc:
                    if not z3.is_true(m.eval(c, model_completion=True)):
                        ok = False
                        break
                if ok:
                    pred = p
                    break
        body.extend(pre_lines)
        if isinstance(replay, tuple) and replay[0] == "frame":
            # frame obligation: run the real code on the counter-model's inputs and compare them before / after
            names = [n for n in replay[1] if n in self.inputs]
            body.append("import copy")
            body.append("_before = {n: copy.deepcopy(v) for n, v in {%s}.items()}" % ", ".join("%r: %s" % (n, n) for n in names))
            body.append("try:")
            body.append("    _res = %s(%s)" % (target, args))
            body.append("except Exception as _e:")
            body.append("    print('raised', type(_e).__name__, _e)")
            body.append("_changed = [n for n, v in {%s}.items() if not np.array_equal(np.asarray(v), np.asarray(_before[n]))]" % ", ".join("%r: %s" % (n, n) for n in names))
            body.append("print('inputs written by the call:', _changed)")
            body.append("for n in _changed: print(n, 'before', np.asarray(_before[n]).tolist(), 'after', np.asarray(eval(n)).tolist())")
            body.append("if _changed:")
            body.append("    print('REPLAY-CONFIRMED obligation=%s (the call wrote to its input)' % OBLIGATION)")
            body.append("    raise SystemExit(1)")
            body.append("print('REPLAY-NOT-REPRODUCED obligation=%s' % OBLIGATION)")
            body.append("raise SystemExit(4)")
            return body
        body.append("try:")
        body.append("    _res = %s(%s)" % (target, args))
        body.append("    _out = ('return', _res)")
        body.append("except Exception as _e:")
        body.append("    _out = ('raise', type(_e).__name__)")
        if pred is None:
            body.append("print('REAL-OUTCOME', _out)")
            body.append("print('REPLAY-NOT-REPRODUCED (no predicted path) obligation=%s' % OBLIGATION)")
            body.append("raise SystemExit(4)")
            return body
        if pred.kind == "raise":
            body.append("_pred = ('raise', %r)" % (pred.value[0],))
            body.append("_ok = _out[0] == 'raise' and _out[1] == _pred[1]")
        else:
            body.append("_pred = ('return', %s)" % self._val_src(me, pred.value))
            body.append("_ok = _out[0] == 'return' and same(_out[1], _pred[1])")
            if selfvar is not None and isinstance(call["self"], SObj):
                # the engine's predicted FINAL STATE of the object must also be what the real code produced
                from .symexec import find_obj
                fo = find_obj(pred.st, call["self"].oid)
                checked = 0
                if fo is not None:
                    for k, v in fo.fields.items():
                        try:
                            src = self._val_src(me, v)
                        except Unsupported:
                            continue
                        body.append("_ok = _ok and same(getattr(%s, %r, None), %s)" % (selfvar, k, src))
                        checked += 1
                if pred.value is None and checked == 0:
                    body.append("_ok = False  # nothing observable to compare")
        body.append("print('REAL-OUTCOME', _out); print('ENGINE-PREDICTED', _pred)")
        body.append("if _ok:")
        body.append("    print('REPLAY-CONFIRMED obligation=%s (real code behaves as in the counter-model, where the clause is false)' % OBLIGATION)")
        body.append("    raise SystemExit(1)")
        body.append("print('REPLAY-NOT-REPRODUCED obligation=%s' % OBLIGATION)")
        body.append("raise SystemExit(4)")
        return body

    def _val_src(self, me, v):
        if v is None or isinstance(v, (bool, int, str)):
            return repr(v)
        if isinstance(v, (Fraction,)) or isz(v):
            return _num_src(me, v)
        if isinstance(v, SArr):
            return _arr_src(me, v)
        if isinstance(v, tuple):
            return "(" + ", ".join(self._val_src(me, x) for x in v) + ("," if len(v) == 1 else "") + ")"
        if isinstance(v, list):
            return "[" + ", ".join(self._val_src(me, x) for x in v) + "]"
        raise Unsupported("result not concretisable")


def _syms(e, cache):
    k = e.get_id()
    if k in cache:
        return cache[k]
    out = set()
    stack = [e]
    seen = set()
    while stack:
        x = stack.pop()
        if x.get_id() in seen:
            continue
        seen.add(x.get_id())
        if z3.is_quantifier(x):
            stack.append(x.body())
            continue
        if z3.is_app(x):
            d = x.decl()
            if d.kind() == z3.Z3_OP_UNINTERPRETED:
                if x.num_args() == 0:
                    out.add(d.name())
                else:
                    # a UF application is identified by the whole term (sqrt(2) vs sqrt(x))
                    out.add("@%d" % x.get_id())
            stack.extend(x.children())
    cache[k] = out
    return out


def relevant_facts(facts, seeds):
    """Axiom instances (sqrt etc.) that share a symbol or UF term, transitively, with the query."""
    cache = {}
    live = set()
    for s_ in seeds:
        live |= _syms(s_, cache)
    remaining = [(f, _syms(f, cache)) for f in facts]
    out = []
    changed = True
    while changed:
        changed = False
        rest = []
        for f, sy in remaining:
            if sy & live:
                out.append(f)
                live |= sy
                changed = True
            else:
                rest.append((f, sy))
        remaining = rest
    return out


def _mentions_overapprox(formulas, model=None):
    seen, stack = set(), list(formulas)
    while stack:
        e = stack.pop()
        if not z3.is_expr(e) or e.get_id() in seen:
            continue
        seen.add(e.get_id())
        if z3.is_const(e) and e.decl().kind() == z3.Z3_OP_UNINTERPRETED and "_unknown!" in e.decl().name():
            return True
        if z3.is_quantifier(e):
            stack.append(e.body())
        else:
            stack.extend(e.children())
    return False


def run_task(full_name, tier, timeout_ms, clause_filter=None, _retry_constructed=False):
    """Executed in a worker process. Returns a plain dict."""
    V.IEEE_DIV[0] = False
    info = TASKS[full_name]
    t0 = time.time()
    from . import symexec as _sx_mod
    # symbolic execution of one task may take at most this long (solver calls have their own budgets)
    _sx_mod.DEADLINE[0] = t0 + float(os.environ.get("PYVC_EXEC_BUDGET_S", "150" if tier == "quick" else "1200"))
    t = T(info["prop"], info["name"], tier, timeout_ms)
    t.construct_regions = bool(_retry_constructed)
    if clause_filter:
        import re
        t.clause_filter = re.compile(clause_filter)
    out = {"task": full_name, "prop": info["prop"], "results": [], "functions": {}, "lib_used": [],
           "trusted": [], "status": "ok", "samples": []}
    try:
        with t.ctx:
            info["fn"](t)
            if t.ctx.implicit:
                t.implicit()
            # obligations the solvers left open: where the task has a bounded structural check, it stands in (labelled, not counted)
            unk = [r for r in t.results if r["status"] == "unknown" and r["kind"] in ("ensures", "frame", "implicit")]
            if unk and t.bounded_fn is not None:
                if not any(r["kind"] == "bounded" for r in t.results):
                    t.bounded_fn()
                b = [r for r in t.results if r["kind"] == "bounded"]
                if b and all(r["status"] == "proved" for r in b):
                    for r in unk:
                        r["detail"] = "left open by the solvers (%s); the bounded structural check of this task stands in" % str(r.get("detail"))[:200]
                        r["kind"], r["status"] = "fallback", "proved"
    except Unsupported as e:
        out["status"] = "unsupported"
        out["detail"] = str(e)
        if "unmodelled attribute" in str(e) and not getattr(t, "construct_regions", False) and not _retry_constructed:
            # a region stub was asked for something the contract does not model: try once more with the input regions built by
            # the real constructors (complete objects)
            r2 = run_task(full_name, tier, timeout_ms, clause_filter, _retry_constructed=True)
            if r2["status"] == "ok":
                r2["mode"] = (r2.get("mode") or "") + " [input regions built by the real constructors]"
                return r2
    except Exception as e:
        out["status"] = "error"
        out["detail"] = "%s: %s\n%s" % (type(e).__name__, e, traceback.format_exc()[-1500:])
    out["results"] = t.results
    out["functions"] = t.ctx.touched
    out["lib_used"] = sorted(t.ctx.lib_used)
    out["trusted"] = sorted(t.trusted)
    out["samples"] = t.samples
    out["mode"] = t.mode
    out["seconds"] = round(time.time() - t0, 3)
    out["stats"] = t.ctx.stats
    return out
