"""Symbolic executor for the Python subset VOPy is written in (DESIGN.md section 2).

exec_* functions return lists of (State, outcome); ev returns lists of
(State, value).  A value of class Abort means the path ended (raise / return
propagated through an expression).  Implicit raises (index out of range, ...)
are recorded as obligations through Ctx.obligation and then assumed.
"""
import ast
import itertools
from fractions import Fraction

import numpy as _np
import time

DEADLINE = [None]   # wall-clock deadline of the running task's symbolic execution (set by the harness)
import z3

from . import extract
from . import libmodel as L
from . import values as V
from .libmodel import SArr
from .values import Abort, EngineError, Opaque, PlaceholderStr, SObj, Unsupported, isz

NORMAL = ("normal",)
BREAK = ("break",)
CONTINUE = ("continue",)


# ----------------------------------------------------------------------------
# context
# ----------------------------------------------------------------------------


class Ctx:
    """Per-task verification context."""

    def __init__(self, name="task", prune_timeout_ms=300):
        self.name = name
        self.facts = []  # unconditional axiom instances (sqrt etc.)
        self.implicit = []  # implicit obligations found during execution
        self.lib_used = set()
        self.touched = {}
        self.cur_state = None
        self.cur_where = ""
        self.prune_timeout_ms = prune_timeout_ms
        self.assume_implicit = True
        self._solver = None
        self.stats = {"forks": 0, "prune_checks": 0}
        self.declared_raises = None
        self.cvx = []  # cvxpy problems solved during execution (see cvxmodel)
        self.fresh_log = []  # z3 constants created during execution (loop witnesses etc.)
        self.nlp = []  # scipy.optimize.minimize programs (see libcalls.sp_minimize)
        self.pybool_ids = set()  # ids of z3 Booleans known to be Python bool objects (contracts of functions returning True/False literals)
        self._abs_cache = {}
        self.prune = True  # drop infeasible branches eagerly (optional: infeasible paths only yield vacuous obligations)

    def __enter__(self):
        self._prev = L.CUR
        L.CUR = self
        return self

    def __exit__(self, *a):
        L.CUR = self._prev

    def fact(self, f):
        self.facts.append(f)

    def obligation(self, kind, goal):
        """An implicit no-raise / domain obligation at the current program point."""
        g = goal
        if isinstance(g, bool):
            if g:
                return
            g = z3.BoolVal(False)
        st = self.cur_state
        pc = list(st.pc) if st is not None else []
        self.implicit.append({"kind": kind, "pc": pc, "goal": g, "where": self.cur_where,
                              "nfacts": len(self.facts)})
        if st is not None and self.assume_implicit:
            st.pc.append(g)

    def feasible(self, pc):
        if not self.prune:
            return True
        self.stats["prune_checks"] += 1
        from .solve import abstract_mul

        s = z3.Solver()
        s.set("timeout", self.prune_timeout_ms)
        cache = self._abs_cache
        for f in self.facts:
            s.add(abstract_mul(f, cache))
        for p in pc:
            s.add(abstract_mul(p, cache))
        # products abstracted: unsat here implies truly infeasible; anything else is kept
        return s.check() != z3.unsat

    def feasible_strict(self, pc):
        """Feasibility that is always decided by the solver (used to enumerate the values of a symbolic index)."""
        from .solve import abstract_mul

        s = z3.Solver()
        s.set("timeout", 2000)
        cache = self._abs_cache
        for f in self.facts:
            s.add(abstract_mul(f, cache))
        for p in pc:
            s.add(abstract_mul(p, cache))
        return s.check() != z3.unsat

    def touch(self, fref):
        self.touched[fref.key] = fref.info()


# ----------------------------------------------------------------------------
# state
# ----------------------------------------------------------------------------


class Frame:
    def __init__(self, module, func=None, cls=None, parent=None):
        self.locals = {}
        self.module = module
        self.func = func
        self.cls = cls  # ClassRef for super()
        self.parent = parent  # enclosing frame (closures)


class State:
    def __init__(self):
        self.pc = []
        self.frames = []
        self.log = []  # write log (used by loop summarisation)
        self.roots = {}  # name -> value: extra GC roots the harness wants cloned along (inputs, self)
        self.tmp = []  # values held across possibly-forking sub-evaluations (cloned with the state)

    @property
    def frame(self):
        return self.frames[-1]

    def clone(self):
        memo = {}
        st = State()
        st.pc = list(self.pc)
        st.frames = [clone_val(f, memo) for f in self.frames]
        st.log = list(self.log)
        st.roots = {k: clone_val(v, memo) for k, v in self.roots.items()}
        st.tmp = [clone_val(v, memo) for v in self.tmp]
        return st


def _root_of(a):
    while isinstance(a.base, _np.ndarray):
        a = a.base
    return a


def clone_val(v, memo):
    """Deep clone preserving sharing (and numpy view relationships)."""
    if v is None or isinstance(v, (bool, int, Fraction, float, str, bytes)) or isz(v):
        return v
    k = id(v)
    if k in memo:
        return memo[k][0]
    if isinstance(v, SArr):
        root = _root_of(v.a)
        rk = ("npbuf", id(root))
        if rk not in memo:
            memo[rk] = (root.copy(), root)
        nroot = memo[rk][0]
        if root is v.a:
            na = nroot
        else:
            off = v.a.__array_interface__["data"][0] - root.__array_interface__["data"][0]
            if not root.flags["C_CONTIGUOUS"] and not root.flags["F_CONTIGUOUS"]:
                raise EngineError("non-contiguous root buffer")
            if not nroot.flags["C_CONTIGUOUS"]:
                nroot2 = _np.ascontiguousarray(nroot)
                memo[rk] = (nroot2, root)
                nroot = nroot2
            if root.flags["C_CONTIGUOUS"]:
                na = _np.ndarray(shape=v.a.shape, dtype=object, buffer=nroot, offset=off, strides=v.a.strides)
            else:
                raise EngineError("fortran-ordered root buffer")
        if type(v) is not SArr and hasattr(v, "clone_as"):
            r = v.clone_as(na)
            memo[k] = (r, v)
            v.clone_finish(r, memo)
            return r
        r = SArr(na, v.kind, v.origin)
        memo[k] = (r, v)
        return r
    if isinstance(v, list):
        r = []
        memo[k] = (r, v)
        r.extend(clone_val(x, memo) for x in v)
        return r
    if isinstance(v, tuple):
        r = tuple(clone_val(x, memo) for x in v)
        memo[k] = (r, v)
        return r
    if isinstance(v, dict):
        r = {}
        memo[k] = (r, v)
        for kk, vv in v.items():
            r[kk] = clone_val(vv, memo)
        return r
    if isinstance(v, Frame):
        r = Frame(v.module, v.func, v.cls, None)
        memo[k] = (r, v)
        r.parent = clone_val(v.parent, memo)
        r.locals = clone_val(v.locals, memo)
        return r
    if isinstance(v, SObj):
        r = SObj(v.cls, None, v.tag)
        r.oid = v.oid
        r.partial = getattr(v, "partial", False)
        memo[k] = (r, v)
        r.fields = clone_val(v.fields, memo)
        return r
    if isinstance(v, Opaque):
        r = Opaque(v.kind, v.term, None)
        memo[k] = (r, v)
        r.attrs = clone_val(v.attrs, memo)
        return r
    if hasattr(v, "clone"):
        r = v.clone(memo)
        memo[k] = (r, v)
        return r
    # immutable helper values (function refs etc.)
    return v


# ----------------------------------------------------------------------------
# callables
# ----------------------------------------------------------------------------


class ClassRef:
    def __init__(self, module, node):
        self.module = module
        self.node = node
        self.name = node.name

    def key(self):
        return self.module.relpath + "::" + self.name

    def mro_names(self):
        out, stack, seen = [], [(self.module, self.node)], set()
        while stack:
            m, n = stack.pop(0)
            if (m.relpath, n.name) in seen:
                continue
            seen.add((m.relpath, n.name))
            out.append(n.name)
            stack.extend(extract.class_bases(m, n))
            for b in n.bases:  # external bases by name (ABC, gpytorch...)
                if isinstance(b, ast.Name) and b.id not in out:
                    out.append(b.id)
                elif isinstance(b, ast.Attribute):
                    out.append(b.attr)
        return out

    def __repr__(self):
        return "ClassRef(%s)" % self.name


class PyFunc:
    def __init__(self, fref, bound=None, defframe=None):
        self.fref = fref
        self.bound = bound
        self.defframe = defframe  # for nested defs (closure)

    def clone(self, memo):
        return PyFunc(self.fref, clone_val(self.bound, memo), clone_val(self.defframe, memo))


class NestedFunc:
    """def / lambda defined inside a function body (inlined at call)."""

    def __init__(self, node, defframe):
        self.node = node
        self.defframe = defframe

    def clone(self, memo):
        return NestedFunc(self.node, clone_val(self.defframe, memo))


class LibRef:
    """A name inside an external library (numpy, cvxpy, ...): 'numpy.linalg.norm'."""

    def __init__(self, dotted):
        self.dotted = dotted

    def __repr__(self):
        return "LibRef(%s)" % self.dotted


class BoundLib:
    """Method of a library-modelled value: (value, method name)."""

    def __init__(self, obj, name):
        self.obj = obj
        self.name = name

    def clone(self, memo):
        return BoundLib(clone_val(self.obj, memo), self.name)


class Builtin:
    def __init__(self, name):
        self.name = name


class SuperProxy:
    def __init__(self, cls, obj):
        self.cls = cls
        self.obj = obj

    def clone(self, memo):
        return SuperProxy(self.cls, clone_val(self.obj, memo))


LIB_ALIASES = {
    "numpy": "numpy", "np": "numpy", "cvxpy": "cvxpy", "scipy": "scipy", "itertools": "itertools",
    "torch": "torch", "gpytorch": "gpytorch", "logging": "logging", "random": "random",
    "sklearn": "sklearn", "botorch": "botorch", "matplotlib": "matplotlib", "typing": "typing",
    "abc": "abc", "os": "os", "importlib": "importlib",
}

BUILTIN_NAMES = {
    "len", "range", "zip", "enumerate", "list", "set", "tuple", "max", "min", "sum", "abs", "int",
    "float", "bool", "isinstance", "hasattr", "map", "str", "print", "super", "any", "all",
    "sorted", "getattr", "dict", "reversed", "globals", "round",
}

EXC_NAMES = {"ValueError", "AssertionError", "NotImplementedError", "AttributeError", "IndexError",
             "KeyError", "TypeError", "RuntimeError", "Exception"}


class ExcClass:
    def __init__(self, name):
        self.name = name


class ExcValue:
    def __init__(self, name, msg=None):
        self.name = name
        self.msg = msg


# ----------------------------------------------------------------------------
# the executor
# ----------------------------------------------------------------------------


class Exec:
    def __init__(self, ctx, contracts=None, hooks=None, max_paths=20000):
        self.ctx = ctx
        self.contracts = contracts or {}  # fref.key -> callable(exec, st, self_val, args, kwargs) -> [(st, value)]
        self.hooks = hooks or {}
        self.max_paths = max_paths
        self.depth = 0
        self.setmode = False  # set-level mode: [] and set() are symbolic collections
        self.merge_ifs = False  # if-conversion: merge the two arms of a symbolic `if` when they only differ in values
        self.pure = set()  # keys of functions whose return paths may be merged (no effect on the caller's state)
        from . import libcalls
        from . import cvxmodel  # noqa: F401 (registers the cvxpy DSL)

        self.lib = libcalls

    # ---- helpers ---------------------------------------------------------

    def where(self, node, st):
        fn = st.frame.func.qualname if st.frames and st.frame.func else "<top>"
        f = st.frame.module.relpath if st.frames and st.frame.module else "?"
        return "%s:%s:%s" % (f, fn, getattr(node, "lineno", "?"))

    def at(self, node, st):
        self.ctx.cur_state = st
        self.ctx.cur_where = self.where(node, st)

    def truth(self, v):
        """Python truthiness -> bool or z3 Bool."""
        if isinstance(v, bool):
            return v
        if type(v).__name__ == "UnknownAttr":
            raise Unsupported("truth value of %r" % (v,))
        if v is None:
            return False
        if isz(v):
            return V.Bz(v)
        if isinstance(v, (int, Fraction)):
            return v != 0
        if isinstance(v, SArr):
            if v.size == 1:
                return self.truth(v.flat()[0])
            if v.size == 0:
                return False
            raise Unsupported("truth value of an array with more than one element")
        if isinstance(v, (list, tuple, dict, str)):
            return len(v) > 0
        if hasattr(v, "truth"):
            return v.truth()
        if isinstance(v, (SObj, Opaque, PyFunc, NestedFunc, ClassRef, PlaceholderStr)):
            return True
        raise Unsupported("truth of %r" % (v,))

    def branch(self, st, cond):
        """Split a state on a condition. Returns [(state, bool)]."""
        c = self.truth(cond)
        if not isinstance(c, bool):
            cc = V.conc(c)
            if isinstance(cc, bool):
                c = cc
        if isinstance(c, bool):
            return [(st, c)]
        ft = self.ctx.feasible(st.pc + [c])
        ff = self.ctx.feasible(st.pc + [z3.Not(c)])
        if ft and ff:
            self.ctx.stats["forks"] += 1
            st2 = st.clone()
            st.pc.append(c)
            st2.pc.append(z3.Not(c))
            return [(st, True), (st2, False)]
        if ft:
            st.pc.append(c)
            return [(st, True)]
        if ff:
            st.pc.append(z3.Not(c))
            return [(st, False)]
        return []  # infeasible path

    # ---- expression evaluation ------------------------------------------

    def ev(self, node, st):
        self.at(node, st)
        m = getattr(self, "ev_" + type(node).__name__, None)
        if m is None:
            raise Unsupported("expression %s at %s" % (type(node).__name__, self.where(node, st)))
        return m(node, st)

    def ev_multi(self, thunks, st):
        """Run thunks (state -> [(state, value)]) left to right, keeping the values produced so
        far on the state's own tmp stack so that a fork inside a later thunk clones them with the
        state.  Returns [(st, [values]) or (st, Abort)]."""
        base = len(st.tmp)
        paths = [st]
        done = []
        for th in thunks:
            new = []
            for s in paths:
                for s2, v in th(s):
                    if isinstance(v, Abort):
                        del s2.tmp[base:]
                        done.append((s2, v))
                    elif isinstance(v, _Spread):
                        s2.tmp.extend(v.items)
                        new.append(s2)
                    else:
                        s2.tmp.append(v)
                        new.append(s2)
            paths = new
        out = []
        for s in paths:
            vals = s.tmp[base:]
            del s.tmp[base:]
            out.append((s, vals))
        return out + done

    def ev_seq(self, nodes, st):
        """Evaluate nodes left to right. Returns [(st, [values]) or (st, Abort)]."""
        def mk(n):
            if isinstance(n, ast.Starred):
                def th(s, n=n):
                    return [(s2, v if isinstance(v, Abort) else _Spread(list(self.iter_concrete(v))))
                            for s2, v in self.ev(n.value, s)]
                return th
            return lambda s, n=n: self.ev(n, s)
        return self.ev_multi([mk(n) for n in nodes], st)

    def ev_Constant(self, node, st):
        v = node.value
        if isinstance(v, float):
            v = V.frac_of_float(v)
        return [(st, v)]

    def ev_JoinedStr(self, node, st):
        return [(st, PlaceholderStr())]

    def ev_Name(self, node, st):
        return [(st, self.lookup(node.id, st, node))]

    def name_is_bound(self, name, st):
        """True when `name` is shadowed by a local / module-level definition (so it is not the builtin)."""
        fr = st.frame
        while fr is not None:
            if name in fr.locals:
                return True
            fr = fr.parent
        m = st.frame.module
        return name in m.defs or name in m.imports or name in m.assigns

    def lookup(self, name, st, node=None):
        fr = st.frame
        while fr is not None:
            if name in fr.locals:
                v = fr.locals[name]
                if type(v).__name__ == "Undefined":
                    raise Unsupported("variable %s has no single value after a merged branch (%s)" % (name, self.where(node, st) if node is not None else "?"))
                if type(v).__name__ == "Poison":
                    raise Unsupported("loop-local temporary %s is read outside the iteration that assigned it (%s)" % (name, self.where(node, st) if node is not None else "?"))
                return v
            fr = fr.parent
        return self.lookup_global(name, st.frame.module, st, node)

    def lookup_global(self, name, module, st=None, node=None):
        if name in module.defs:
            d = module.defs[name]
            if isinstance(d, ast.ClassDef):
                return ClassRef(module, d)
            return PyFunc(extract.FuncRef(module, d))
        if name in module.imports:
            dotted = module.imports[name]
            root = dotted.split(".")[0]
            if root == "vopy":
                r = extract.resolve_dotted(dotted)
                if r is None:
                    raise Unsupported("cannot resolve import " + dotted)
                if r[0] == "module":
                    return ("module", r[1])
                if r[0] == "def":
                    if isinstance(r[2], ast.ClassDef):
                        return ClassRef(r[1], r[2])
                    return PyFunc(extract.FuncRef(r[1], r[2]))
                raise Unsupported("import of module constant " + dotted)
            return LibRef(dotted)
        if name in module.assigns:
            # module-level constant: its expression is evaluated once per path, at first use, in the module's own scope; the
            # resulting OBJECT is then shared by every later use on that path (so in-place writes to it persist, as in Python)
            if st is None:
                raise Unsupported("module-level constant " + name)
            store = st.roots.setdefault("modglobals", {})
            key = module.relpath + "::" + name
            if key not in store:
                if key in getattr(self, "_modglobal_busy", set()):
                    raise Unsupported("recursive module-level constant " + name)
                self._modglobal_busy = getattr(self, "_modglobal_busy", set()) | {key}
                try:
                    fr = Frame(module)
                    st.frames.append(fr)
                    try:
                        res = self.ev(module.assigns[name], st)
                    finally:
                        st.frames.pop()
                finally:
                    self._modglobal_busy = self._modglobal_busy - {key}
                if len(res) != 1 or isinstance(res[0][1], Abort) or res[0][0] is not st:
                    raise Unsupported("module-level constant %s does not evaluate on a single path" % name)
                store[key] = res[0][1]
            return store[key]
        if name in BUILTIN_NAMES:
            return Builtin(name)
        if name in EXC_NAMES:
            return ExcClass(name)
        if name == "True":
            return True
        if name == "False":
            return False
        if name == "None":
            return None
        raise Unsupported("unknown name %s at %s" % (name, self.where(node, st) if node is not None and st else "?"))

    def ev_Tuple(self, node, st):
        return [(s, v if isinstance(v, Abort) else tuple(v)) for s, v in self.ev_seq(node.elts, st)]

    def ev_List(self, node, st):
        if self.setmode and not node.elts:
            from . import setmode

            return [(st, setmode.SSeq(self.ctx, "lst"))]
        return [(s, v if isinstance(v, Abort) else list(v)) for s, v in self.ev_seq(node.elts, st)]

    def ev_Set(self, node, st):
        out = []
        for s2, vals in self.ev_seq(list(node.elts), st):
            if isinstance(vals, Abort):
                out.append((s2, vals))
            else:
                out.append((s2, self.lib.call_builtin(self, s2, "set", [list(vals)], {}, node)))
        return out

    def ev_Dict(self, node, st):
        out = []
        n = len(node.keys)
        for s, vals in self.ev_seq(list(node.keys) + list(node.values), st):
            if isinstance(vals, Abort):
                out.append((s, vals))
            else:
                out.append((s, dict(zip(vals[:n], vals[n:]))))
        return out

    def ev_UnaryOp(self, node, st):
        out = []
        for s, v in self.ev(node.operand, st):
            if isinstance(v, Abort):
                out.append((s, v))
                continue
            self.at(node, s)
            if isinstance(node.op, ast.Not):
                t = self.truth(v) if not isinstance(v, SArr) or v.size <= 1 else None
                if t is None:
                    raise Unsupported("not on array")
                out.append((s, V.lnot(t)))
            elif isinstance(node.op, ast.USub):
                out.append((s, L.unary("neg", v)))
            elif isinstance(node.op, ast.UAdd):
                out.append((s, v))
            elif isinstance(node.op, ast.Invert):
                if isinstance(v, SArr) and v.kind == "b" or V.is_bool(v):
                    out.append((s, L.unary("not", v)))
                else:
                    raise Unsupported("bitwise invert")
            else:
                raise Unsupported("unary op")
        return out

    BINOPS = {ast.Add: "add", ast.Sub: "sub", ast.Mult: "mul", ast.Div: "div", ast.FloorDiv: "floordiv",
              ast.Mod: "mod"}

    def apply_binop(self, op, a, b, node, st):
        self.at(node, st)
        if type(a).__name__ == "UnknownAttr" or type(b).__name__ == "UnknownAttr":
            raise Unsupported("arithmetic with %r" % (a if type(a).__name__ == "UnknownAttr" else b,))
        hk = self.hooks.get("binop")
        if hk is not None:
            r = hk(self, st, op, a, b)
            if r is not NotImplemented:
                return r
        for x in (a, b):
            if hasattr(x, "binop"):
                return x.binop(self, st, op, a, b)
        if isinstance(op, ast.MatMult):
            try:
                return L.matmul(a, b)
            except L.ShapeError as e:
                self.ctx.obligation("no-raise:shape", False)
                raise PathDead(str(e))
        if isinstance(op, ast.Pow):
            return L.power(a, b)
        if isinstance(op, (ast.BitAnd, ast.BitOr, ast.BitXor, ast.RShift, ast.LShift)):
            # integer bit operations: only on CONCRETE integers / integer arrays (index bookkeeping), by the checker's numpy
            def conc_int(x):
                if isinstance(x, bool):
                    return None
                if isinstance(x, int):
                    return x
                if isinstance(x, SArr) and x.kind == "i":
                    vals = [v if isinstance(v, int) and not isinstance(v, bool) else V.conc(v) for v in x.flat()]
                    if all(isinstance(v, int) and not isinstance(v, bool) for v in vals):
                        return _np.array(vals, dtype=_np.int64).reshape(x.shape)
                return None
            ca, cb = conc_int(a), conc_int(b)
            if ca is not None and cb is not None:
                f = {ast.BitAnd: lambda x, y: x & y, ast.BitOr: lambda x, y: x | y, ast.BitXor: lambda x, y: x ^ y,
                     ast.RShift: lambda x, y: x >> y, ast.LShift: lambda x, y: x << y}[type(op)]
                r = f(ca, cb)
                if isinstance(r, _np.ndarray):
                    return L.mk([int(v) for v in r.reshape(-1)], r.shape, "i")
                return int(r)
        if isinstance(op, ast.BitAnd):
            return L.binop("and", a, b)
        if isinstance(op, ast.BitOr):
            return L.binop("or", a, b)
        name = self.BINOPS.get(type(op))
        if name is None:
            raise Unsupported("binary operator %s" % type(op).__name__)
        if name == "add" and isinstance(a, (list, tuple)) and isinstance(b, (list, tuple)):
            return a + b
        if name == "mul" and isinstance(a, list) and isinstance(b, int):
            return [x for _ in range(b) for x in a]
        if name == "mul" and isinstance(b, list) and isinstance(a, int):
            return [x for _ in range(a) for x in b]
        if isinstance(a, (list, tuple)) and isinstance(b, SArr):
            a = L.as_arr(a)
        if isinstance(b, (list, tuple)) and isinstance(a, SArr):
            b = L.as_arr(b)
        if name in ("div", "floordiv", "mod") and not isinstance(a, SArr) and not isinstance(b, SArr):
            # Python / numpy-scalar division: ZeroDivisionError is an obligation only for
            # pure-Python numbers; numpy scalars give inf/nan (A-FP: unspecified value).
            if isinstance(b, int) or isinstance(b, Fraction):
                if b == 0:
                    self.ctx.obligation("no-raise:ZeroDivisionError", False)
        try:
            return L.binop(name, a, b)
        except L.ShapeError as e:
            self.ctx.obligation("no-raise:shape", False)
            raise PathDead(str(e))

    def ev_BinOp(self, node, st):
        out = []
        for s, vals in self.ev_seq([node.left, node.right], st):
            if isinstance(vals, Abort):
                out.append((s, vals))
                continue
            try:
                out.append((s, self.apply_binop(node.op, vals[0], vals[1], node, s)))
            except PathDead:
                pass
        return out

    def ev_BoolOp(self, node, st):
        # short-circuit; values are booleans in VOPy's uses
        is_and = isinstance(node.op, ast.And)
        if self.merge_ifs:
            r = self.try_eager_boolop(node, st, is_and)
            if r is not None:
                return r
        paths = [(st, None)]
        results = []
        for i, vnode in enumerate(node.values):
            new = []
            for s, acc in paths:
                for s2, v in self.ev(vnode, s):
                    if isinstance(v, Abort):
                        results.append((s2, v))
                        continue
                    last = i == len(node.values) - 1
                    if last:
                        results.append((s2, v))
                        continue
                    for s3, b in self.branch(s2, v):
                        if is_and:
                            if b:
                                new.append((s3, v))
                            else:
                                results.append((s3, v if not isz(self.truth(v)) else False))
                        else:
                            if b:
                                results.append((s3, v if not isz(self.truth(v)) else True))
                            else:
                                new.append((s3, v))
            paths = new
        return results

    def try_eager_boolop(self, node, st, is_and):
        """`a and b` / `a or b` without forking: when every operand evaluates on a single path to a scalar
        boolean without writing anything and without meeting an implicit obligation, the result is And/Or of
        the operands (evaluation order is then unobservable).  Tried on a clone; None = fall back to forking."""
        for n in node.values:
            for sub in ast.walk(n):
                if isinstance(sub, (ast.Call,)) and not (isinstance(sub.func, ast.Attribute) and sub.func.attr in ("all", "any")):
                    return None
                if isinstance(sub, (ast.Is, ast.IsNot)):
                    return None
        trial = st.clone()
        nimp = len(self.ctx.implicit)
        nlog = len(trial.log)
        vals = []
        try:
            for n in node.values:
                r = self.ev(n, trial)
                if len(r) != 1 or isinstance(r[0][1], Abort) or r[0][0] is not trial:
                    raise Unsupported("fork")
                v = self.truth(r[0][1])
                vals.append(v)
        except (Unsupported, PathDead, AttrMissing, L.ShapeError, L.IndexOOB):
            del self.ctx.implicit[nimp:]
            return None
        if len(self.ctx.implicit) != nimp or len(trial.log) != nlog or len(trial.pc) != len(st.pc):
            del self.ctx.implicit[nimp:]
            return None
        acc = vals[0]
        for v in vals[1:]:
            acc = V.land(acc, v) if is_and else V.lor(acc, v)
        return [(st, acc)]

    CMPOPS = {ast.Lt: "lt", ast.LtE: "le", ast.Gt: "gt", ast.GtE: "ge", ast.Eq: "eq", ast.NotEq: "ne"}

    def compare(self, op, a, b, node, st):
        self.at(node, st)
        hk = self.hooks.get("compare")
        if hk is not None:
            r = hk(self, st, op, a, b)
            if r is not NotImplemented:
                return r
        if type(a).__name__ == "UnknownAttr" or type(b).__name__ == "UnknownAttr":
            # the VALUE of an attribute the contract's stub does not model: nothing can be said about it (not even "is None")
            raise Unsupported("comparison with %r" % (a if type(a).__name__ == "UnknownAttr" else b,))
        if isinstance(op, (ast.Is, ast.IsNot)):
            for x, y in ((a, b), (b, a)):
                if hasattr(x, "is_none") and y is None:
                    r = x.is_none()
                    return r if isinstance(op, ast.Is) else V.lnot(r)
            for x, y in ((a, b), (b, a)):
                if isz(x) and z3.is_bool(x) and isinstance(y, bool):
                    if x.get_id() in self.ctx.pybool_ids:
                        r = x if y else z3.Not(x)   # a Python bool `is True/False` iff it has that value
                        return r if isinstance(op, ast.Is) else V.lnot(r)
                    raise Unsupported("identity test of a symbolic (numpy) boolean against a Python bool literal")
            if a is None or b is None or isinstance(a, bool) or isinstance(b, bool):
                r = a is b
            elif isinstance(a, SObj) and isinstance(b, SObj):
                r = a is b
            else:
                raise Unsupported("'is' on %r / %r" % (a, b))
            return r if isinstance(op, ast.Is) else (not r)
        if isinstance(op, (ast.In, ast.NotIn)):
            r = self.contains(b, a, st)
            return r if isinstance(op, ast.In) else V.lnot(r)
        name = self.CMPOPS[type(op)]
        for x in (a, b):
            if hasattr(x, "compare"):
                return x.compare(self, st, name, a, b)
        if isinstance(a, (tuple, list)) and isinstance(b, (tuple, list)) and name in ("eq", "ne"):
            if len(a) != len(b):
                return name == "ne"
            r = True
            for x, y in zip(a, b):
                r = V.land(r, V.eq(x, y))
            return r if name == "eq" else V.lnot(r)
        if isinstance(a, str) or isinstance(b, str):
            if isinstance(a, PlaceholderStr) or isinstance(b, PlaceholderStr):
                raise Unsupported("comparison with untracked string")
            return (a == b) if name == "eq" else (a != b)
        if isinstance(a, (list, tuple)) and isinstance(b, SArr):
            a = L.as_arr(a)
        if isinstance(b, (list, tuple)) and isinstance(a, SArr):
            b = L.as_arr(b)
        if (isinstance(a, (SObj, ClassRef)) or isinstance(b, (SObj, ClassRef))) and name in ("eq", "ne"):
            r = a is b
            return r if name == "eq" else not r
        try:
            return L.binop(name, a, b)
        except L.ShapeError as e:
            self.ctx.obligation("no-raise:shape", False)
            raise PathDead(str(e))

    def contains(self, container, item, st):
        if hasattr(container, "contains"):
            return container.contains(self, st, item)
        if isinstance(container, (list, tuple)):
            r = False
            for x in container:
                if hasattr(x, "compare") or hasattr(item, "compare") or hasattr(x, "is_none") or hasattr(item, "is_none"):
                    # engine objects (solver status, ...) decide equality themselves: Python's == on them means nothing here
                    if x is None or item is None:
                        other = item if x is None else x
                        e = other.is_none() if hasattr(other, "is_none") else False
                    else:
                        e = self.compare(ast.Eq(), x, item, None, st)
                elif isinstance(x, (str, type(None))) or isinstance(item, (str, type(None))):
                    if isinstance(x, (SObj, LibRef)) or isinstance(item, (SObj, LibRef)):
                        raise Unsupported("'in' with %r / %r" % (x, item))
                    e = x == item
                else:
                    e = V.eq(x, item)
                r = V.lor(r, e)
            return r
        if isinstance(container, dict):
            return item in container
        if isinstance(container, str) and isinstance(item, str):
            return item in container
        if isinstance(container, SArr) and container.ndim == 1:
            r = False
            for x in container.flat():
                r = V.lor(r, V.eq(x, item))
            return r
        raise Unsupported("'in' on %r" % (container,))

    def ev_Compare(self, node, st):
        out = []
        for s, vals in self.ev_seq([node.left] + list(node.comparators), st):
            if isinstance(vals, Abort):
                out.append((s, vals))
                continue
            try:
                r = True
                for i, op in enumerate(node.ops):
                    c = self.compare(op, vals[i], vals[i + 1], node, s)
                    if len(node.ops) == 1:
                        r = c
                    else:
                        r = V.land(r, c) if not isinstance(c, SArr) else L.binop("and", r, c)
                out.append((s, r))
            except PathDead:
                pass
        return out

    def ev_IfExp(self, node, st):
        out = []
        for s, c in self.ev(node.test, st):
            if isinstance(c, Abort):
                out.append((s, c))
                continue
            for s2, b in self.branch(s, c):
                out.extend(self.ev(node.body if b else node.orelse, s2))
        return out

    def ev_Lambda(self, node, st):
        return [(st, NestedFunc(node, st.frame))]

    def ev_Attribute(self, node, st):
        out = []
        for s, v in self.ev(node.value, st):
            if isinstance(v, Abort):
                out.append((s, v))
                continue
            self.at(node, s)
            out.extend(self.getattr(v, node.attr, s, node))
        return out

    def getattr(self, v, name, st, node=None):
        """Returns [(st, value)] (property getters may fork)."""
        hk = self.hooks.get("getattr")
        if hk is not None:
            r = hk(self, st, v, name)
            if r is not NotImplemented:
                return r
        if isinstance(v, tuple) and len(v) == 2 and v[0] == "module":
            return [(st, self.lookup_global(name, v[1], st, node))]
        if isinstance(v, LibRef):
            return [(st, self.lib.lib_attr(self, v, name))]
        if isinstance(v, SObj):
            if name in v.fields:
                return [(st, v.fields[name])]
            if isinstance(v.cls, ClassRef):
                fr = extract.find_method(v.cls.module, v.cls.node, name)
                if fr is not None:
                    if fr.is_property():
                        return self.call_pyfunc(PyFunc(fr, bound=v), [], {}, st, node)
                    if "classmethod" in fr.decorator_names():
                        return [(st, PyFunc(fr, bound=v.cls))]
                    if "staticmethod" in fr.decorator_names():
                        return [(st, PyFunc(fr))]
                    return [(st, PyFunc(fr, bound=v))]
                ca = extract.find_class_attr(v.cls.module, v.cls.node, name)
                if ca is not None:
                    return self.eval_class_attr(ca, st)
            if name == "__class__":
                return [(st, v.cls)]
            if getattr(v, "partial", False):
                from .values import UnknownAttr
                return [(st, UnknownAttr("%s.%s" % (getattr(v.cls, "name", v.cls), name)))]
            raise AttrMissing(v, name)
        if isinstance(v, ClassRef):
            fr = extract.find_method(v.module, v.node, name)
            if fr is not None:
                if "classmethod" in fr.decorator_names():
                    return [(st, PyFunc(fr, bound=v))]
                return [(st, PyFunc(fr))]
            ca = extract.find_class_attr(v.module, v.node, name)
            if ca is not None:
                return self.eval_class_attr(ca, st)
            if name == "__name__":
                return [(st, v.name)]
            raise AttrMissing(v, name)
        if isinstance(v, SuperProxy):
            for bm, bn in extract.class_bases(v.cls.module, v.cls.node):
                fr = extract.find_method(bm, bn, name)
                if fr is not None:
                    return [(st, PyFunc(fr, bound=v.obj))]
            return [(st, Builtin("noop"))]
        if isinstance(v, SArr):
            return [(st, self.lib.arr_attr(self, st, v, name))]
        if isinstance(v, str) and v in _DTYPE_ATTRS and name in _DTYPE_ATTRS[v]:
            return [(st, _DTYPE_ATTRS[v][name])]          # arr.dtype is modelled by its name
        if isinstance(v, (list, dict, tuple, str)):
            return [(st, BoundLib(v, name))]
        if hasattr(v, "getattr"):
            r = v.getattr(self, st, name)
            if isinstance(r, Paths):
                return r
            return [(st, r)]
        if isinstance(v, Opaque):
            if name in v.attrs:
                return [(st, v.attrs[name])]
            raise AttrMissing(v, name)
        if V.is_num(v) or V.is_bool(v):
            return [(st, self.lib.scalar_attr(self, st, v, name))]
        raise Unsupported("attribute %s of %r at %s" % (name, v, self.where(node, st) if node else "?"))

    def eval_class_attr(self, ca, st):
        mod, expr = ca
        fr = Frame(mod)
        st.frames.append(fr)
        res = self.ev(expr, st)
        for s, _ in res:
            s.frames.pop()
        return res

    def ev_Subscript(self, node, st):
        out = []
        for s, vals in self.ev_multi([lambda x: self.ev(node.value, x), lambda x: self.ev_index(node.slice, x)], st):
            if isinstance(vals, Abort):
                out.append((s, vals))
                continue
            self.at(node, s)
            try:
                out.append((s, self.getitem(vals[0], vals[1], s)))
            except PathDead:
                pass
            except NeedConcreteInt as e:
                s.tmp.append((vals[0], vals[1]))
                for s2 in self.concretize_int(s, e.term):
                    v0, v1 = s2.tmp.pop()
                    # re-evaluate with the constant substituted in the index
                    v1 = subst_index(v1, e.term, s2.tmp.pop())
                    try:
                        out.append((s2, self.getitem(v0, v1, s2)))
                    except PathDead:
                        pass
            except self.lib.NeedConcreteMask as e:
                # fork on every symbolic entry of the mask; on each path the entries are written back as the
                # constants they equal there, then the selection has a concrete shape
                s.tmp.append((vals[0], vals[1]))
                for s2 in self.concretize_mask(s, e.mask):
                    v0, v1 = s2.tmp.pop()
                    try:
                        out.append((s2, self.getitem(v0, v1, s2)))
                    except PathDead:
                        pass
        return out

    def concretize_int(self, st, term, lo=-8, hi=64):
        """Fork over the values of a symbolic integer (bounded search window; values outside are an obligation)."""
        out = []
        cur = st
        vals = []
        # candidate values: those the path condition allows
        for v in range(lo, hi):
            if not self.ctx.feasible_strict(cur.pc + [term == v]):
                continue
            vals.append(v)
        self.ctx.cur_state = st
        self.ctx.obligation("symbolic-index-within-search-window", z3.Or(*[term == v for v in vals]) if vals else False)
        for i, v in enumerate(vals):
            s2 = st if i == len(vals) - 1 else st.clone()
            s2.pc.append(term == v)
            s2.tmp.append(v)
            # order: value below the held (obj, idx) pair
            s2.tmp[-1], s2.tmp[-2] = s2.tmp[-2], s2.tmp[-1]
            out.append(s2)
        return out

    def concretize_mask(self, st, mask):
        nsym = sum(1 for v in mask.a.reshape(-1) if not isinstance(v, bool))
        if nsym > 8:
            raise Unsupported("a boolean mask with %d symbolic entries would have to be enumerated (more than 2^8 paths)" % nsym)
        st.tmp.append(mask)
        paths = [st]
        n = mask.size
        for k in range(n):
            new = []
            for s in paths:
                mk = s.tmp[-1]
                flat = mk.a.reshape(-1)
                v = flat[k]
                if isinstance(v, bool):
                    new.append(s)
                    continue
                for s2, b in self.branch(s, v):
                    mk2 = s2.tmp[-1]
                    pos = _np.unravel_index(k, mk2.a.shape)
                    mk2.a[pos] = bool(b)
                    new.append(s2)
            paths = new
        for s in paths:
            s.tmp.pop()
        return paths

    def ev_index(self, node, st):
        if isinstance(node, ast.Slice):
            parts = [node.lower, node.upper, node.step]
            present = [p for p in parts if p is not None]
            out = []
            for s, vals in self.ev_seq(present, st):
                if isinstance(vals, Abort):
                    out.append((s, vals))
                    continue
                it = iter(vals)
                args = [next(it) if p is not None else None for p in parts]
                out.append((s, SliceVal(*args)))
            return out
        if isinstance(node, ast.Tuple):
            res = self.ev_multi([(lambda x, e=e: self.ev_index(e, x)) for e in node.elts], st)
            return [(s, v if isinstance(v, Abort) else tuple(v)) for s, v in res]
        return self.ev(node, st)

    def getitem(self, v, idx, st):
        if hasattr(v, "getitem"):
            return v.getitem(self, st, idx)
        if isinstance(v, SArr):
            return self.lib.arr_getitem(self, st, v, idx)
        if isinstance(v, (list, tuple)):
            if isinstance(idx, SliceVal):
                return v[idx.to_slice()]
            ci = V.conc(idx) if not isinstance(idx, int) else idx
            if isinstance(ci, int) and not isinstance(ci, bool):
                if not (-len(v) <= ci < len(v)):
                    self.ctx.obligation("no-raise:IndexError", False)
                    raise PathDead("list index")
                return v[ci]
            if isz(idx) and z3.is_int(idx):
                # symbolic index into a concrete list: ITE chain + bounds obligation
                n = len(v)
                self.ctx.obligation("no-raise:IndexError", z3.And(idx >= -n, idx < n))
                try:
                    return self.select_chain(v, idx)
                except Unsupported:
                    raise NeedConcreteInt(idx)
            raise Unsupported("list index %r" % (idx,))
        if isinstance(v, dict):
            if idx not in v:
                self.ctx.obligation("no-raise:KeyError", False)
                raise PathDead("dict key")
            return v[idx]
        raise Unsupported("subscript on %r" % (v,))

    def select_chain(self, lst, idx):
        n = len(lst)
        if n == 0:
            raise PathDead("empty")
        res = lst[n - 1]
        for i in range(n - 2, -1, -1):
            c = z3.Or(idx == i, idx == i - n)
            res = self.merge_values(c, lst[i], res)
        return res

    def merge_values(self, c, a, b):
        if a is b:
            return a
        if (V.is_num(a) or V.is_bool(a)) and (V.is_num(b) or V.is_bool(b)):
            return V.ite(c, a, b)
        if isinstance(a, SArr) and isinstance(b, SArr) and a.shape == b.shape:
            return L.elementwise(lambda x, y: V.ite(c, x, y), a, b)
        if hasattr(a, "merge"):
            return a.merge(c, b)
        if isinstance(a, tuple) and isinstance(b, tuple) and len(a) == len(b):
            return tuple(self.merge_values(c, x, y) for x, y in zip(a, b))
        raise Unsupported("cannot merge %r / %r under a symbolic index" % (a, b))

    def ev_ListComp(self, node, st):
        return self.comprehension(node, st, list)

    def ev_GeneratorExp(self, node, st):
        return self.comprehension(node, st, list)

    def ev_DictComp(self, node, st):
        """{k: v for ... in <concretely sized iterable>}: evaluated as the list of (k, v) pairs."""
        pair = ast.Tuple(elts=[node.key, node.value], ctx=ast.Load())
        lc = ast.ListComp(elt=pair, generators=node.generators)
        ast.copy_location(lc, node)
        ast.fix_missing_locations(lc)
        out = []
        for s2, v in self.comprehension(lc, st, list):
            if isinstance(v, list):
                d = {}
                for kv in v:
                    k = kv[0]
                    if not isinstance(k, (str, int, bool, tuple)):
                        raise Unsupported("dict comprehension with a symbolic key")
                    d[k] = kv[1]
                v = d
            out.append((s2, v))
        return out

    def ev_SetComp(self, node, st):
        out = []
        # symbolic collections: desugared with a SET accumulator (set-level summary of `acc.add(x)`); concretely sized ones:
        # the items are collected in a list and turned into a concrete set of known small integers
        for s2, v in self.comprehension(node, st, set):
            if isinstance(v, (set, frozenset)):
                v = self.lib.call_builtin(self, s2, "set", [list(v)], {}, node)
            elif isinstance(v, list):
                v = self.lib.call_builtin(self, s2, "set", [v], {}, node)
            out.append((s2, v))
        return out

    # ---- comprehensions / any / all over SYMBOLICALLY-SIZED collections: desugared to the equivalent loop ----------
    _desugar_id = [0]

    def desugar_comprehension(self, node, s, itv, ctor, mode="collect"):
        """[E for x in IT if C] / {E ...} / any(E ...) / all(E ...) with IT a symbolic collection is executed as the
        loop it abbreviates (own scope, like Python's), so the derived loop summaries of set-level mode apply:
            collect:  acc = [] | set();  for x in IT: if C: acc.append(E) | acc.add(E)
            any:      r = False;         for x in IT: if C: if E: r = True; break
            all:      r = True;          for x in IT: if C: if not E: r = False; break"""
        gen = node.generators[0]
        self._desugar_id[0] += 1
        k = self._desugar_id[0]
        acc, itn = "__comp_acc_%d" % k, "__comp_it_%d" % k
        ld = lambda n: ast.Name(id=n, ctx=ast.Load())
        if mode == "collect":
            if ctor is set:
                init = ast.Call(func=ast.Name(id="set", ctx=ast.Load()), args=[], keywords=[])
                inner = [ast.Expr(value=ast.Call(func=ast.Attribute(value=ld(acc), attr="add", ctx=ast.Load()), args=[node.elt], keywords=[]))]
            else:
                init = ast.List(elts=[], ctx=ast.Load())
                inner = [ast.Expr(value=ast.Call(func=ast.Attribute(value=ld(acc), attr="append", ctx=ast.Load()), args=[node.elt], keywords=[]))]
        else:
            init = ast.Constant(value=(mode == "all"))
            test = node.elt if mode == "any" else ast.UnaryOp(op=ast.Not(), operand=node.elt)
            inner = [ast.If(test=test, body=[ast.Assign(targets=[ast.Name(id=acc, ctx=ast.Store())], value=ast.Constant(value=(mode == "any"))), ast.Break()], orelse=[])]
        body = inner
        for cnd in reversed(gen.ifs):
            body = [ast.If(test=cnd, body=body, orelse=[])]
        loop = ast.For(target=gen.target, iter=ld(itn), body=body, orelse=[])
        prog = [ast.Assign(targets=[ast.Name(id=acc, ctx=ast.Store())], value=init), loop]
        for n_ in prog:
            ast.copy_location(n_, node)
            ast.fix_missing_locations(n_)
        fr = Frame(s.frame.module, s.frame.func, s.frame.cls, parent=s.frame)
        fr.locals[itn] = itv
        s.frames.append(fr)
        out = []
        for s2, o in self.exec_block(prog, s):
            val = s2.frame.locals.get(acc)
            s2.frames.pop()
            if o is not NORMAL:
                out.append((s2, Abort(o) if not isinstance(o, Abort) else o))
            else:
                out.append((s2, val))
        return out

    def ev_next(self, node, st):
        """next(<generator>[, default]): the first item, as the search loop it abbreviates:
               r = <default>; found = False
               for x in IT:
                   if C: r = E; found = True; break
           (without a default, exhaustion raises StopIteration: an obligation that an item exists)."""
        comp = node.args[0]
        gen = comp.generators[0]
        self._desugar_id[0] += 1
        k = self._desugar_id[0]
        acc, fnd, itn, dfl = "__next_val_%d" % k, "__next_found_%d" % k, "__next_it_%d" % k, "__next_default_%d" % k
        ld = lambda n: ast.Name(id=n, ctx=ast.Load())
        stv = lambda n: ast.Name(id=n, ctx=ast.Store())
        out = []
        for s, itv in self.ev(gen.iter, st):
            if isinstance(itv, Abort):
                out.append((s, itv))
                continue
            defaults = [(s, None)]
            if len(node.args) == 2:
                defaults = self.ev(node.args[1], s)
            for s1, dv in defaults:
                if isinstance(dv, Abort):
                    out.append((s1, dv))
                    continue
                inner = [ast.Assign(targets=[stv(acc)], value=comp.elt), ast.Assign(targets=[stv(fnd)], value=ast.Constant(value=True)), ast.Break()]
                body = inner
                for cnd in reversed(gen.ifs):
                    body = [ast.If(test=cnd, body=body, orelse=[])]
                prog = [ast.Assign(targets=[stv(acc)], value=ld(dfl)), ast.Assign(targets=[stv(fnd)], value=ast.Constant(value=False)),
                        ast.For(target=gen.target, iter=ld(itn), body=body, orelse=[])]
                for n_ in prog:
                    ast.copy_location(n_, node)
                    ast.fix_missing_locations(n_)
                fr = Frame(s1.frame.module, s1.frame.func, s1.frame.cls, parent=s1.frame)
                fr.locals[itn] = itv
                fr.locals[dfl] = dv
                s1.frames.append(fr)
                for s2, o in self.exec_block(prog, s1):
                    val, found = s2.frame.locals.get(acc), s2.frame.locals.get(fnd)
                    s2.frames.pop()
                    if o is not NORMAL:
                        out.append((s2, Abort(o) if not isinstance(o, Abort) else o))
                        continue
                    if len(node.args) == 1:
                        self.ctx.cur_state = s2
                        self.ctx.obligation("no-raise:StopIteration(next of an exhausted generator)", V.Bz(found) if not isinstance(found, bool) else found)
                    out.append((s2, val))
        return out

    def ev_any_all(self, node, st):
        """any(<comprehension>) / all(<comprehension>): lazily, so that a symbolic collection is handled by a loop summary."""
        comp = node.args[0]
        gen = comp.generators[0]
        mode = node.func.id
        out = []
        for s, itv in self.ev(gen.iter, st):
            if isinstance(itv, Abort):
                out.append((s, itv))
                continue
            if hasattr(itv, "symbolic_for") or hasattr(itv, "comprehension"):
                out.extend(self.desugar_comprehension(comp, s, itv, list, mode=mode))
                continue
            for s2, items in self.comprehension_items(comp, s, itv, list):
                if isinstance(items, Abort):
                    out.append((s2, items))
                    continue
                r = self.lib.call_builtin(self, s2, mode, [items], {}, node)
                out.extend(r if isinstance(r, Paths) else [(s2, r)])
        return out

    def comprehension(self, node, st, ctor):
        if len(node.generators) != 1:
            raise Unsupported("nested comprehension generators")
        gen = node.generators[0]
        out = []
        for s, itv in self.ev(gen.iter, st):
            if isinstance(itv, Abort):
                out.append((s, itv))
                continue
            if hasattr(itv, "symbolic_for") or hasattr(itv, "comprehension"):
                out.extend(self.desugar_comprehension(node, s, itv, ctor))
                continue
            out.extend(self.comprehension_items(node, s, itv, ctor))
        return out

    def comprehension_items(self, node, s, itv, ctor):
        gen = node.generators[0]
        out = []
        if True:
            items = self.iter_concrete(itv)
            fr = Frame(s.frame.module, s.frame.func, s.frame.cls, parent=s.frame)
            s.frames.append(fr)
            s.tmp.append(list(items))
            s.tmp.append([])
            paths = [s]
            aborted = []
            for k in range(len(items)):
                new = []
                for s2 in paths:
                    self.assign_target(gen.target, s2.tmp[-2][k], s2)
                    conds = [(s2, True)]
                    for cnd in gen.ifs:
                        nc = []
                        for s3, ok in conds:
                            if not ok:
                                nc.append((s3, False))
                                continue
                            for s4, cv in self.ev(cnd, s3):
                                if isinstance(cv, Abort):
                                    raise Unsupported("raise in comprehension condition")
                                for s5, b in self.branch(s4, cv):
                                    nc.append((s5, b))
                        conds = nc
                    for s3, ok in conds:
                        if not ok:
                            new.append(s3)
                            continue
                        for s4, v in self.ev(node.elt, s3):
                            if isinstance(v, Abort):
                                s4.tmp.pop()
                                s4.tmp.pop()
                                s4.frames.pop()
                                aborted.append((s4, v))
                            else:
                                s4.tmp[-1].append(v)
                                new.append(s4)
                paths = new
            for s2 in paths:
                acc = s2.tmp.pop()
                s2.tmp.pop()
                s2.frames.pop()
                out.append((s2, ctor(acc)))
            out.extend(aborted)
        return out

    def iter_concrete(self, v):
        """Items of a concretely-sized iterable."""
        if isinstance(v, (list, tuple)):
            return list(v)
        if isinstance(v, SArr):
            if v.ndim == 0:
                self.ctx.obligation("no-raise:TypeError(iteration over 0-d array)", False)
                raise PathDead("0-d iteration")
            return [L.idx_apply(v, i) for i in range(v.shape[0])]
        if isinstance(v, RangeVal):
            return v.items()
        if isinstance(v, dict):
            return list(v.keys())
        if hasattr(v, "iter_concrete"):
            return v.iter_concrete()
        raise Unsupported("iteration over %r" % (v,))

    def ev_Call(self, node, st):
        out = []
        # logging.* calls are dropped (DESIGN 2.1)
        if self.is_logging_call(node):
            return [(st, None)]
        if (isinstance(node.func, ast.Name) and node.func.id == "next" and len(node.args) in (1, 2) and not node.keywords
                and isinstance(node.args[0], ast.GeneratorExp) and len(node.args[0].generators) == 1 and not self.name_is_bound("next", st)):
            return self.ev_next(node, st)
        if (isinstance(node.func, ast.Name) and node.func.id in ("any", "all") and len(node.args) == 1 and not node.keywords
                and isinstance(node.args[0], (ast.GeneratorExp, ast.ListComp)) and len(node.args[0].generators) == 1
                and not self.name_is_bound(node.func.id, st)):
            return self.ev_any_all(node, st)
        kn = [k for k in node.keywords if k.arg is not None]
        star = [k for k in node.keywords if k.arg is None]
        nodes = [node.func] + list(node.args)
        npos = None
        thunks = [lambda x: self.ev(node.func, x), lambda x: [(s2, v if isinstance(v, Abort) else tuple(v)) for s2, v in self.ev_seq(list(node.args), x)],
                  lambda x: [(s2, v if isinstance(v, Abort) else tuple(v)) for s2, v in self.ev_seq([k.value for k in kn] + [k.value for k in star], x)]]
        for s, vals in self.ev_multi(thunks, st):
            if isinstance(vals, Abort):
                out.append((s, vals))
                continue
            fn, args, kv = vals[0], list(vals[1]), list(vals[2])
            kwargs = dict(zip([k.arg for k in kn], kv[: len(kn)]))
            for d in kv[len(kn):]:
                if not isinstance(d, dict):
                    raise Unsupported("**kwargs of non-dict")
                kwargs.update(d)
            out.extend(self.call(fn, args, kwargs, s, node))
        return out

    def is_logging_call(self, node):
        f = node.func
        return (isinstance(f, ast.Attribute) and isinstance(f.value, ast.Name) and f.value.id == "logging")

    def call(self, fn, args, kwargs, st, node=None):
        """Returns [(st, value|Abort)]."""
        if node is not None:
            self.at(node, st)
        try:
            hk = self.hooks.get("call")
            if hk is not None:
                r = hk(self, st, fn, args, kwargs, node)
                if r is not NotImplemented:
                    return r
            if isinstance(fn, PyFunc):
                return self.call_pyfunc(fn, args, kwargs, st, node)
            if isinstance(fn, NestedFunc):
                return self.call_nested(fn, args, kwargs, st, node)
            if isinstance(fn, ClassRef):
                return self.instantiate(fn, args, kwargs, st, node)
            if isinstance(fn, LibRef):
                r = self.lib.call_lib(self, st, fn.dotted, args, kwargs, node)
                return r if isinstance(r, Paths) else [(st, r)]
            if isinstance(fn, BoundLib):
                r = self.lib.call_method(self, st, fn.obj, fn.name, args, kwargs, node)
                return r if isinstance(r, Paths) else [(st, r)]
            if isinstance(fn, Builtin):
                r = self.lib.call_builtin(self, st, fn.name, args, kwargs, node)
                return r if isinstance(r, Paths) else [(st, r)]
            if isinstance(fn, ExcClass):
                return [(st, ExcValue(fn.name, args[0] if args else None))]
            if hasattr(fn, "call"):
                r = fn.call(self, st, args, kwargs, node)
                return r if isinstance(r, Paths) else [(st, r)]
            if isinstance(fn, SObj):
                # instance __call__
                got = self.getattr(fn, "__call__", st, node)
                res = []
                for s, f2 in got:
                    res.extend(self.call(f2, args, kwargs, s, node))
                return res
        except PathDead:
            return []
        except L.ShapeError:
            self.ctx.obligation("no-raise:shape", False)
            return []
        except L.IndexOOB:
            self.ctx.obligation("no-raise:IndexError", False)
            return []
        except self.lib.NeedConcreteMask as e:
            if isinstance(fn, (PyFunc, NestedFunc, ClassRef)):
                raise
            # a library model needs the truth values of a symbolic boolean array (result shape depends on them): fork on every
            # entry; on each path the entries are the constants they equal there
            out = []
            st.tmp.append((fn, list(args), dict(kwargs)))
            for s2 in self.concretize_mask(st, e.mask):
                f2, a2, k2 = s2.tmp.pop()
                out.extend(self.call(f2, a2, k2, s2, node))
            return out
        except NeedConcreteInt as e:
            if isinstance(fn, (PyFunc, NestedFunc, ClassRef)):
                raise
            # a library model needs a concrete value for a symbolic integer argument: fork over its values
            out = []
            st.tmp.append((fn, list(args), dict(kwargs)))
            vals = [v for v in range(-4, 33) if self.ctx.feasible_strict(st.pc + [e.term == v])]
            self.ctx.cur_state = st
            self.ctx.obligation("symbolic-index-within-search-window", z3.Or(*[e.term == v for v in vals]) if vals else False)
            for i, v in enumerate(vals):
                s2 = st if i == len(vals) - 1 else st.clone()
                f2, a2, k2 = s2.tmp.pop()
                s2.pc.append(e.term == v)
                a2 = [subst_value(x, e.term, v) for x in a2]
                k2 = {kk: subst_value(x, e.term, v) for kk, x in k2.items()}
                out.extend(self.call(f2, a2, k2, s2, node))
            return out
        raise Unsupported("call of %r at %s" % (fn, self.where(node, st) if node else "?"))

    def bind_params(self, fnode, args, kwargs, st, self_val=None, defmodule=None):
        """Bind call arguments to parameter names; defaults are evaluated in the defining module."""
        a = fnode.args
        params = [p.arg for p in a.posonlyargs + a.args]
        bound = {}
        args = list(args)
        if self_val is not None:
            args = [self_val] + args
        if len(args) > len(params) and a.vararg is None:
            raise Unsupported("too many positional arguments for %s" % getattr(fnode, "name", "<lambda>"))
        for p, v in zip(params, args):
            bound[p] = v
        if a.vararg is not None:
            bound[a.vararg.arg] = tuple(args[len(params):])
        kw = dict(kwargs)
        for p in params + [k.arg for k in a.kwonlyargs]:
            if p in kw:
                if p in bound:
                    raise Unsupported("duplicate argument " + p)
                bound[p] = kw.pop(p)
        if a.kwarg is not None:
            bound[a.kwarg.arg] = kw
            kw = {}
        if kw:
            raise Unsupported("unexpected keyword arguments %s for %s" % (list(kw), getattr(fnode, "name", "?")))
        # defaults
        ndef = len(a.defaults)
        for i, p in enumerate(params):
            if p not in bound:
                di = i - (len(params) - ndef)
                if di < 0:
                    raise Unsupported("missing argument %s for %s" % (p, getattr(fnode, "name", "?")))
                bound[p] = ("__default__", a.defaults[di])
        for p, d in zip(a.kwonlyargs, a.kw_defaults):
            if p.arg not in bound:
                if d is None:
                    raise Unsupported("missing kw-only argument " + p.arg)
                bound[p.arg] = ("__default__", d)
        return bound

    def call_pyfunc(self, fn, args, kwargs, st, node=None):
        fref = fn.fref
        self_val = fn.bound
        key = fref.key
        if key in self.contracts and self.depth > 0:
            return self.contracts[key](self, st, self_val, args, kwargs, node)
        if fref.node.name == "__init__" and self.is_trivial_init(fref):
            return [(st, None)]
        self.ctx.touch(fref)
        cls = ClassRef(fref.module, fref.cls) if fref.cls is not None else None
        return self.inline(fref.node, fref.module, fref, cls, None, args, kwargs, st, self_val, node)

    def is_trivial_init(self, fref):
        body = extract.strip_body(fref.node.body)
        for s in body:
            if isinstance(s, ast.Pass):
                continue
            if isinstance(s, ast.Expr) and isinstance(s.value, ast.Call):
                f = s.value.func
                if isinstance(f, ast.Attribute) and f.attr == "__init__":
                    continue
            return False
        return True

    def call_nested(self, fn, args, kwargs, st, node=None):
        n = fn.node
        defframe = fn.defframe
        # the defining frame may have been cloned: find the live clone through the stack
        return self.inline(n, defframe.module, defframe.func, defframe.cls, defframe, args, kwargs, st, None, node)

    def inline(self, fnode, module, fref, cls, parent, args, kwargs, st, self_val, node):
        if self.depth > 60:
            raise Unsupported("call depth")
        bound = self.bind_params(fnode, args, kwargs, st, self_val)
        pure_entry = None
        npc = len(st.pc)
        if isinstance(fref, extract.FuncRef) and fref.key in self.pure and self.depth > 0:
            pure_entry = st.clone()
        fr = Frame(module, fref if isinstance(fref, extract.FuncRef) else (parent.func if parent else None), cls, parent)
        st.frames.append(fr)
        # evaluate defaults in the new frame's module scope
        for p, v in list(bound.items()):
            if isinstance(v, tuple) and len(v) == 2 and v[0] == "__default__":
                res = self.ev(v[1], st)
                if len(res) != 1 or isinstance(res[0][1], Abort):
                    raise Unsupported("forking default value")
                bound[p] = res[0][1]
        fr.locals.update(bound)
        self.depth += 1
        try:
            if isinstance(fnode, ast.Lambda):
                res = self.ev(fnode.body, st)
                out = []
                for s, v in res:
                    s.frames.pop()
                    out.append((s, v))
                return out
            paths = self.exec_block(extract.strip_body(fnode.body), st)
        finally:
            self.depth -= 1
        out = []
        for s, o in paths:
            s.frames.pop()
            if o is NORMAL:
                out.append((s, None))
            elif o[0] == "return":
                out.append((s, o[1]))
            elif o[0] == "raise":
                out.append((s, Abort(o)))
            else:
                raise EngineError("break/continue escaped a function")
        if pure_entry is not None and len(out) > 1:
            out = self.merge_pure_returns(pure_entry, out, npc)
        return out

    def merge_pure_returns(self, entry, out, npc):
        """A function declared pure (its frame obligation is proved in its own task) that returns only
        None / True / False: paths with the same value are merged into one (disjunction of their conditions)."""
        groups = {}
        for s, v in out:
            if isinstance(v, Abort) or not (v is None or isinstance(v, bool)):
                return out
            groups.setdefault(v, []).append(s)
        merged = []
        for v, sts in groups.items():
            if len(sts) == 1:
                merged.append((sts[0], v))
                continue
            st = entry.clone()
            st.pc = list(entry.pc[:npc]) + [z3.Or(*[z3.And(*x.pc[npc:]) if len(x.pc) > npc else z3.BoolVal(True) for x in sts])]
            merged.append((st, v))
        return merged

    def instantiate(self, cls, args, kwargs, st, node):
        key = cls.key() + ".__new__"
        if key in self.contracts:
            return self.contracts[key](self, st, cls, args, kwargs, node)
        obj = SObj(cls)
        init = extract.find_method(cls.module, cls.node, "__init__")
        if init is None:
            return [(st, obj)]
        res = self.call_pyfunc(PyFunc(init, bound=obj), args, kwargs, st, node)
        return [(s, v if isinstance(v, Abort) else obj_in(s, obj)) for s, v in res]

    # ---- statements ------------------------------------------------------

    def exec_block(self, stmts, st):
        paths = [(st, NORMAL)]
        for stmt in stmts:
            new = []
            for s, o in paths:
                if o is NORMAL:
                    new.extend(self.exec_stmt(stmt, s))
                else:
                    new.append((s, o))
            paths = new
            if len(paths) > self.max_paths:
                raise Unsupported("path explosion (%d paths)" % len(paths))
        return paths

    def exec_stmt(self, stmt, st):
        self.at(stmt, st)
        dl = DEADLINE[0]
        if dl is not None and time.time() > dl:
            raise Unsupported("symbolic execution exceeded the task's time budget (path explosion) at %s" % self.where(stmt, st))
        m = getattr(self, "exec_" + type(stmt).__name__, None)
        if m is None:
            raise Unsupported("statement %s at %s" % (type(stmt).__name__, self.where(stmt, st)))
        try:
            return m(stmt, st)
        except PathDead:
            return []
        except AttrMissing as e:
            self.ctx.cur_state = st
            self.ctx.obligation("no-raise:AttributeError(%s)" % e.name, False)
            return []
        except L.ShapeError:
            self.ctx.cur_state = st
            self.ctx.obligation("no-raise:shape", False)
            return []
        except L.IndexOOB:
            self.ctx.cur_state = st
            self.ctx.obligation("no-raise:IndexError", False)
            return []

    def exec_Pass(self, stmt, st):
        return [(st, NORMAL)]

    def exec_Expr(self, stmt, st):
        if isinstance(stmt.value, ast.Constant):
            return [(st, NORMAL)]
        out = []
        for s, v in self.ev(stmt.value, st):
            out.append((s, v.outcome if isinstance(v, Abort) else NORMAL))
        return out

    def exec_Assign(self, stmt, st):
        out = []
        for s, v in self.ev(stmt.value, st):
            if isinstance(v, Abort):
                out.append((s, v.outcome))
                continue
            s.tmp.append(v)
            paths = [s]
            for tgt in stmt.targets:
                new = []
                for s2 in paths:
                    new.extend(self.assign_target_paths(tgt, s2.tmp[-1], s2))
                paths = new
            for s2 in paths:
                s2.tmp.pop()
                out.append((s2, NORMAL))
        return out

    def exec_AnnAssign(self, stmt, st):
        if stmt.value is None:
            return [(st, NORMAL)]
        out = []
        for s, v in self.ev(stmt.value, st):
            if isinstance(v, Abort):
                out.append((s, v.outcome))
                continue
            out.extend((s2, NORMAL) for s2 in self.assign_target_paths(stmt.target, v, s))
        return out

    def assign_target(self, tgt, v, st):
        r = self.assign_target_paths(tgt, v, st)
        if len(r) != 1 or r[0] is not st:
            raise Unsupported("forking assignment target")

    def assign_target_paths(self, tgt, v, st):
        """Returns list of states."""
        if isinstance(tgt, ast.Name):
            st.frame.locals[tgt.id] = v
            st.log.append(("local", tgt.id))
            return [st]
        if isinstance(tgt, (ast.Tuple, ast.List)):
            items = self.iter_concrete(v) if not isinstance(v, tuple) else list(v)
            if len(items) != len(tgt.elts):
                self.at(tgt, st)
                self.ctx.obligation("no-raise:ValueError(unpack)", False)
                return []
            st.tmp.append(list(items))
            paths = [st]
            for i, t in enumerate(tgt.elts):
                new = []
                for s in paths:
                    new.extend(self.assign_target_paths(t, s.tmp[-1][i], s))
                paths = new
            for s in paths:
                s.tmp.pop()
            return paths
        if isinstance(tgt, ast.Attribute):
            out = []
            st.tmp.append(v)
            for s, obj in self.ev(tgt.value, st):
                v2 = s.tmp.pop()
                if isinstance(obj, Abort):
                    raise Unsupported("raise in assignment target")
                self.setattr(obj, tgt.attr, v2, s)
                out.append(s)
            return out
        if isinstance(tgt, ast.Subscript):
            out = []
            st.tmp.append(v)
            for s, vals in self.ev_multi([lambda x: self.ev(tgt.value, x), lambda x: self.ev_index(tgt.slice, x)], st):
                v2 = s.tmp.pop()
                if isinstance(vals, Abort):
                    raise Unsupported("raise in assignment target")
                self.at(tgt, s)
                try:
                    self.setitem(vals[0], vals[1], v2, s)
                    out.append(s)
                except PathDead:
                    pass
            return out
        raise Unsupported("assignment target %s" % type(tgt).__name__)

    def setattr(self, obj, name, v, st):
        hk = self.hooks.get("setattr")
        if hk is not None:
            r = hk(self, st, obj, name, v)
            if r is not NotImplemented:
                return
        if isinstance(obj, SObj):
            # property setter?
            if isinstance(obj.cls, ClassRef) and name not in obj.fields:
                setter = find_setter(obj.cls, name)
                if setter is not None:
                    res = self.call_pyfunc(PyFunc(setter, bound=obj), [v], {}, st)
                    if len(res) != 1:
                        raise Unsupported("forking property setter")
                    return
            obj.fields[name] = v
            st.log.append(("field", obj.oid, name))
            return
        if hasattr(obj, "setattr"):
            obj.setattr(self, st, name, v)
            return
        if isinstance(obj, SArr) and name == "shape":
            # in-place reshape of the array OBJECT (every alias of the object sees the new shape)
            shp = tuple(v) if isinstance(v, (tuple, list)) else (v,)
            if not all(isinstance(x, int) for x in shp):
                raise Unsupported("symbolic shape assignment")
            try:
                obj.a.shape = shp
            except (AttributeError, ValueError):
                self.ctx.obligation("no-raise:shape", False)
                raise PathDead("shape assignment")
            st.log.append(("arr", id(_root_of(obj.a))))
            return
        raise Unsupported("attribute store on %r" % (obj,))

    def setitem(self, obj, idx, v, st):
        if hasattr(obj, "setitem"):
            obj.setitem(self, st, idx, v)
            return
        if isinstance(obj, SArr):
            self.lib.arr_setitem(self, st, obj, idx, v)
            st.log.append(("arr", id(_root_of(obj.a))))
            return
        if isinstance(obj, list):
            ci = V.conc(idx) if not isinstance(idx, int) else idx
            if isinstance(ci, int):
                if not (-len(obj) <= ci < len(obj)):
                    self.ctx.obligation("no-raise:IndexError", False)
                    raise PathDead("list store index")
                obj[ci] = v
                st.log.append(("list", id(obj)))
                return
            if isz(idx) and z3.is_int(idx):
                n = len(obj)
                self.ctx.obligation("no-raise:IndexError", z3.And(idx >= -n, idx < n))
                for i in range(n):
                    c = z3.Or(idx == i, idx == i - n)
                    obj[i] = self.merge_values(c, v, obj[i])
                st.log.append(("list", id(obj)))
                return
            raise Unsupported("list store index %r" % (idx,))
        if isinstance(obj, dict):
            obj[idx] = v
            return
        raise Unsupported("subscript store on %r" % (obj,))

    def exec_AugAssign(self, stmt, st):
        # target op= value  ==  target = target op value (in place for arrays)
        tgt = stmt.target
        out = []
        if isinstance(tgt, ast.Name):
            for s, v in self.ev(stmt.value, st):
                if isinstance(v, Abort):
                    out.append((s, v.outcome))
                    continue
                cur = self.lookup(tgt.id, s, tgt)
                try:
                    if isinstance(cur, SArr):
                        nv = self.apply_binop(stmt.op, cur, v, stmt, s)
                        nv = L.as_arr(nv)
                        if nv.shape != cur.shape:
                            self.ctx.obligation("no-raise:shape", False)
                            continue
                        cur.a[...] = L.coerce_kind(nv, cur.kind).a if cur.kind == "f" else nv.a
                        s.log.append(("arr", id(_root_of(cur.a))))
                    elif hasattr(cur, "iop"):
                        cur.iop(self, s, stmt.op, v)
                    else:
                        nv = self.apply_binop(stmt.op, cur, v, stmt, s)
                        self.assign_target(tgt, nv, s)
                    out.append((s, NORMAL))
                except PathDead:
                    pass
            return out
        if isinstance(tgt, ast.Attribute):
            for s, vals in self.ev_multi([lambda x: self.ev(tgt.value, x), lambda x: self.ev(stmt.value, x)], st):
                if isinstance(vals, Abort):
                    out.append((s, vals.outcome))
                    continue
                obj, v = vals
                s.tmp.append((obj, v))
                for s3, cur in self.getattr(obj, tgt.attr, s, tgt):
                    obj3, v3 = s3.tmp.pop()
                    try:
                        nv = self.apply_binop(stmt.op, cur, v3, stmt, s3)
                        self.setattr(obj3, tgt.attr, nv, s3)
                        out.append((s3, NORMAL))
                    except PathDead:
                        pass
            return out
        if isinstance(tgt, ast.Subscript):
            for s3, vals in self.ev_multi([lambda x: self.ev(tgt.value, x), lambda x: self.ev_index(tgt.slice, x),
                                           lambda x: self.ev(stmt.value, x)], st):
                if isinstance(vals, Abort):
                    out.append((s3, vals.outcome))
                    continue
                obj, idx, v = vals
                try:
                    self.at(stmt, s3)
                    if isinstance(obj, SArr) and isinstance(idx, SArr) and idx.kind == "b" and idx.shape == obj.shape:
                        # x[mask] op= v  with a (possibly symbolic) mask: elementwise
                        full = L.as_arr(self.apply_binop(stmt.op, obj, v, stmt, s3))
                        it = list(itertools.product(*[range(k) for k in obj.shape]))
                        for pos in it:
                            obj.a[pos] = L.to_kind(V.ite(idx.a[pos], full.a[pos], obj.a[pos]), obj.kind)
                        s3.log.append(("arr", id(_root_of(obj.a))))
                        out.append((s3, NORMAL))
                        continue
                    cur = self.getitem(obj, idx, s3)
                    nv = self.apply_binop(stmt.op, cur, v, stmt, s3)
                    self.setitem(obj, idx, nv, s3)
                    out.append((s3, NORMAL))
                except PathDead:
                    pass
            return out
        raise Unsupported("augmented assignment target")

    def exec_If(self, stmt, st):
        out = []
        for s, c in self.ev(stmt.test, st):
            if isinstance(c, Abort):
                out.append((s, c.outcome))
                continue
            if self.merge_ifs:
                m = self.try_merged_if(stmt, s, c)
                if m is not None:
                    out.extend(m)
                    continue
            for s2, b in self.branch(s, c):
                out.extend(self.exec_block(stmt.body if b else stmt.orelse, s2))
        return out

    def try_merged_if(self, stmt, st, c):
        """If both arms run to completion on a single path each, merge the two resulting states."""
        cc = self.truth(c)
        if isinstance(cc, bool) or isinstance(V.conc(cc), bool):
            return None
        for blk in (stmt.body, stmt.orelse):
            for n in blk:
                for sub in ast.walk(n):
                    if isinstance(sub, (ast.Return, ast.Break, ast.Continue, ast.Raise, ast.For, ast.While)):
                        return None
        ft = self.ctx.feasible(st.pc + [cc])
        ff = self.ctx.feasible(st.pc + [z3.Not(cc)])
        if not (ft and ff):
            return None
        base = len(st.pc)
        s_then = st.clone()
        s_else = st.clone()
        s_then.pc.append(cc)
        s_else.pc.append(z3.Not(cc))
        pa = self.exec_block(stmt.body, s_then)
        pb = self.exec_block(stmt.orelse, s_else) if stmt.orelse else [(s_else, NORMAL)]
        if len(pa) != 1 or len(pb) != 1 or pa[0][1] is not NORMAL or pb[0][1] is not NORMAL:
            return None
        a, b = pa[0][0], pb[0][0]
        try:
            merged = merge_states(self, cc, a, b, base)
        except Unsupported:
            return None
        self.ctx.stats["merges"] = self.ctx.stats.get("merges", 0) + 1
        return [(merged, NORMAL)]

    def exec_Return(self, stmt, st):
        if stmt.value is None:
            return [(st, ("return", None))]
        return [(s, v.outcome if isinstance(v, Abort) else ("return", v)) for s, v in self.ev(stmt.value, st)]

    def exec_Break(self, stmt, st):
        return [(st, BREAK)]

    def exec_Continue(self, stmt, st):
        return [(st, CONTINUE)]

    def exec_Raise(self, stmt, st):
        if stmt.exc is None:
            raise Unsupported("bare raise")
        out = []
        for s, v in self.ev(stmt.exc, st):
            if isinstance(v, Abort):
                out.append((s, v.outcome))
            elif isinstance(v, ExcClass):
                out.append((s, ("raise", v.name, None)))
            elif isinstance(v, ExcValue):
                out.append((s, ("raise", v.name, v.msg)))
            else:
                raise Unsupported("raise of %r" % (v,))
        return out

    def exec_Assert(self, stmt, st):
        out = []
        for s, c in self.ev(stmt.test, st):
            if isinstance(c, Abort):
                out.append((s, c.outcome))
                continue
            for s2, b in self.branch(s, c):
                out.append((s2, NORMAL if b else ("raise", "AssertionError", None)))
        return out

    def exec_FunctionDef(self, stmt, st):
        st.frame.locals[stmt.name] = NestedFunc(stmt, st.frame)
        return [(st, NORMAL)]

    def exec_With(self, stmt, st):
        # only `with torch.no_grad(), ...:` style contexts: evaluated for effect-freedom, body executed
        for it in stmt.items:
            if it.optional_vars is not None:
                raise Unsupported("with ... as")
        return self.exec_block(stmt.body, st)

    def exec_Try(self, stmt, st):
        """try: A except cp.error.SolverError: B  -- modelled as a nondeterministic choice between
        A and B (both are solver calls under the same assumed solver contract)."""
        if stmt.finalbody:
            raise Unsupported("try ... finally")
        names = [ast.unparse(h.type) if h.type is not None else "" for h in stmt.handlers]
        if len(stmt.handlers) == 1 and names[0].endswith("SolverError") and not stmt.orelse:
            h = stmt.handlers[0]
            st2 = st.clone()
            out = self.exec_block(stmt.body, st)
            out.extend(self.exec_block(h.body, st2))
            return out
        if any(n.endswith("SolverError") for n in names):
            raise Unsupported("except SolverError combined with other handlers")
        # general form: EXPLICIT raises of the body (raise statements, failed asserts) are routed to the first matching handler;
        # implicit errors (index, shape, domain) stay proof obligations of the body - a handler that exists only to catch those
        # is unreachable whenever the obligations hold
        def matches(h, exc_name):
            if h.type is None:
                return True
            tys = h.type.elts if isinstance(h.type, ast.Tuple) else [h.type]
            for ty in tys:
                tn = ast.unparse(ty).split(".")[-1]
                if tn in ("Exception", "BaseException") or tn == exc_name:
                    return True
                if tn == "ArithmeticError" and exc_name in ("ZeroDivisionError", "OverflowError", "FloatingPointError"):
                    return True
                if tn == "LookupError" and exc_name in ("IndexError", "KeyError"):
                    return True
            return False
        out = []
        for s, o in self.exec_block(stmt.body, st):
            if isinstance(o, tuple) and o and o[0] == "raise":
                hit = next((h for h in stmt.handlers if matches(h, o[1])), None)
                if hit is None:
                    out.append((s, o))
                    continue
                if hit.name:
                    s.frame.locals[hit.name] = ExcValue(o[1], o[2] if len(o) > 2 else None)
                out.extend(self.exec_block(hit.body, s))
            elif o is NORMAL and stmt.orelse:
                out.extend(self.exec_block(stmt.orelse, s))
            else:
                out.append((s, o))
        return out

    def exec_While(self, stmt, st):
        hk = self.hooks.get("while")
        if hk is not None:
            r = hk(self, st, stmt)
            if r is not NotImplemented:
                return r
        out = []
        work = [(st, 0)]
        limit = 200
        while work:
            s, it = work.pop()
            if it > limit:
                raise Unsupported("while loop does not terminate concretely (needs an invariant)")
            for s1, c in self.ev(stmt.test, s):
                if isinstance(c, Abort):
                    out.append((s1, c.outcome))
                    continue
                cc = self.truth(c)
                if not isinstance(cc, bool) and not isinstance(V.conc(cc), bool):
                    # symbolic condition: accepted when the path condition already decides it (e.g. a counter computed from
                    # mask entries that this path has fixed); the loop is then unrolled exactly as with a concrete condition
                    czz = V.Bz(cc)
                    can_t = self.ctx.feasible_strict(s1.pc + [czz])
                    can_f = self.ctx.feasible_strict(s1.pc + [z3.Not(czz)])
                    if can_t and can_f:
                        raise Unsupported("while loop with symbolic condition (needs an invariant) at %s" % self.where(stmt, s1))
                    c = bool(can_t)
                for s2, b in self.branch(s1, c):
                    if not b:
                        if stmt.orelse:
                            out.extend(self.exec_block(stmt.orelse, s2))
                        else:
                            out.append((s2, NORMAL))
                        continue
                    for s3, o in self.exec_block(stmt.body, s2):
                        if o is NORMAL or o is CONTINUE:
                            work.append((s3, it + 1))
                        elif o is BREAK:
                            out.append((s3, NORMAL))
                        else:
                            out.append((s3, o))
        return out

    def for_guarded(self, stmt, st, garr):
        """for row in <guarded array>: each candidate row is visited iff its guard holds; after every
        candidate the 'visited and fell through' state and the 'not present' state are merged again."""
        out = []
        st.tmp.append(garr)
        cur = [st]
        n = len(garr.rows)
        for k in range(n):
            nxt = []
            for s in cur:
                g, row = s.tmp[-1].rows[k]
                gg = self.truth(g)
                if isinstance(gg, bool) or isinstance(V.conc(gg), bool):
                    present = gg if isinstance(gg, bool) else V.conc(gg)
                    if not present:
                        nxt.append(s)
                        continue
                    branches = [(s, True)]
                else:
                    branches = self.branch(s, gg)
                cont = {}
                for s2, b in branches:
                    if not b:
                        cont[False] = s2
                        continue
                    row2 = s2.tmp[-1].rows[k][1]
                    for s3 in self.assign_target_paths(stmt.target, row2, s2):
                        for s4, o in self.exec_block(stmt.body, s3):
                            if o is NORMAL or o is CONTINUE:
                                if True in cont:
                                    cont[True] = merge_states_general(self, cont[True], s4)
                                else:
                                    cont[True] = s4
                            elif o is BREAK:
                                s4.tmp.pop()
                                out.append((s4, NORMAL))
                            else:
                                s4.tmp.pop()
                                out.append((s4, o))
                if True in cont and False in cont:
                    try:
                        nxt.append(merge_states_general(self, cont[True], cont[False]))
                    except Unsupported:
                        nxt.extend([cont[True], cont[False]])
                else:
                    nxt.extend(cont.values())
            cur = nxt
            if len(cur) > 64:
                raise Unsupported("path explosion over a guarded array")
        for s in cur:
            s.tmp.pop()
            if stmt.orelse:
                out.extend(self.exec_block(stmt.orelse, s))
            else:
                out.append((s, NORMAL))
        return out

    def exec_For(self, stmt, st):
        out = []
        for s, itv in self.ev(stmt.iter, st):
            if isinstance(itv, Abort):
                out.append((s, itv.outcome))
                continue
            if hasattr(itv, "symbolic_for"):
                out.extend(itv.symbolic_for(self, s, stmt))
                continue
            if isinstance(itv, L.GArr):
                out.extend(self.for_guarded(stmt, s, itv))
                continue
            if isinstance(itv, L.GList):
                out.extend(self.for_guarded(stmt, s, L.GArr(itv.items, None, "o")))
                continue
            items = self.iter_concrete(itv)
            paths = [(s, NORMAL)]
            for item in items:
                new = []
                for s2, o in paths:
                    if o is not NORMAL:
                        new.append((s2, o))
                        continue
                    item2 = item
                    for s3 in self.assign_target_paths(stmt.target, item2, s2):
                        for s4, o2 in self.exec_block(stmt.body, s3):
                            if o2 is NORMAL or o2 is CONTINUE:
                                new.append((s4, NORMAL))
                            elif o2 is BREAK:
                                new.append((s4, ("broke",)))
                            else:
                                new.append((s4, o2))
                paths = new
                if len(paths) > self.max_paths:
                    raise Unsupported("path explosion in for loop")
            for s2, o in paths:
                if o is NORMAL:
                    if stmt.orelse:
                        out.extend(self.exec_block(stmt.orelse, s2))
                    else:
                        out.append((s2, NORMAL))
                elif o == ("broke",):
                    out.append((s2, NORMAL))
                else:
                    out.append((s2, o))
        return out


class Paths(list):
    """A list of (state, value) pairs returned by a library model that forks."""


class _Spread:
    def __init__(self, items):
        self.items = items


def _merge_val(ex, c, a, b, memo):
    """Merge two values of the then/else states.  Raises Unsupported when they cannot be merged."""
    if a is b:
        return a
    if a is None and b is None:
        return None
    if isz(a) or isz(b) or isinstance(a, (bool, int, Fraction)) or isinstance(b, (bool, int, Fraction)):
        if (V.is_num(a) or V.is_bool(a)) and (V.is_num(b) or V.is_bool(b)):
            if isz(a) and isz(b) and a.eq(b):
                return a
            if not isz(a) and not isz(b) and type(a) == type(b) and a == b:
                return a
            return V.ite(c, a, b)
        raise Unsupported("merge of %r / %r" % (a, b))
    k = (id(a), id(b))
    if k in memo:
        return memo[k]
    if isinstance(a, (SArr, L.GArr)) and isinstance(b, (SArr, L.GArr)):
        if isinstance(a, SArr) and isinstance(b, SArr) and a.shape == b.shape:
            if L.same_elems(a, b):
                r = a
            else:
                r = L.elementwise(lambda x, y: V.ite(c, x, y), a, b, kind=L.join_kind(a.kind, b.kind))
            memo[k] = r
            return r
        ga, gb = L.GArr.of(a), L.GArr.of(b)
        if ga.row_shape != gb.row_shape:
            raise Unsupported("merge of arrays of different row shapes")
        longer, shorter, cond = (ga, gb, c) if len(ga.rows) >= len(gb.rows) else (gb, ga, z3.Not(c))
        for (g1, r1), (g2, r2) in zip(longer.rows, shorter.rows):
            same_g = (g1 is g2) or (isz(g1) and isz(g2) and g1.eq(g2)) or (not isz(g1) and not isz(g2) and g1 == g2)
            if not same_g or not L.same_elems(r1, r2):
                raise Unsupported("merge of arrays that differ in a common row")
        rows = list(shorter.rows) + [(V.land(cond, g), r) for g, r in longer.rows[len(shorter.rows):]]
        r = L.GArr(rows, ga.row_shape, ga.kind)
        memo[k] = r
        return r
    if isinstance(a, list) and isinstance(b, list) and len(a) == len(b):
        r = [_merge_val(ex, c, x, y, memo) for x, y in zip(a, b)]
        memo[k] = r
        return r
    if isinstance(a, (list, L.GList)) and isinstance(b, (list, L.GList)):
        # lists that differ by appended items: the common prefix is merged item-wise, the extra tail is guarded
        ga, gb = L.GList.of(a), L.GList.of(b)
        longer, shorter, cond = (ga, gb, c) if len(ga.items) >= len(gb.items) else (gb, ga, z3.Not(c))
        items = []
        for (g1, v1), (g2, v2) in zip(ga.items, gb.items):
            same_g = (g1 is g2) or (isz(g1) and isz(g2) and g1.eq(g2)) or (not isz(g1) and not isz(g2) and g1 == g2)
            if not same_g:
                raise Unsupported("merge of guarded lists whose common items have different guards")
            items.append((g1, _merge_val(ex, c, v1, v2, memo)))
        items += [(V.land(cond, g), v) for g, v in longer.items[len(shorter.items):]]
        r = L.GList(items)
        memo[k] = r
        return r
    if isinstance(a, tuple) and isinstance(b, tuple) and len(a) == len(b):
        return tuple(_merge_val(ex, c, x, y, memo) for x, y in zip(a, b))
    if isinstance(a, dict) and isinstance(b, dict) and a.keys() == b.keys():
        return {kk: _merge_val(ex, c, a[kk], b[kk], memo) for kk in a}
    if isinstance(a, SObj) and isinstance(b, SObj) and a.oid == b.oid:
        r = SObj(a.cls, None, a.tag)
        r.oid = a.oid
        r.partial = getattr(a, "partial", False) or getattr(b, "partial", False)
        memo[k] = r
        if a.fields.keys() != b.fields.keys():
            raise Unsupported("merge of objects with different fields")
        r.fields = {kk: _merge_val(ex, c, a.fields[kk], b.fields[kk], memo) for kk in a.fields}
        return r
    if type(a) is type(b) and isinstance(a, (PyFunc, NestedFunc, ClassRef, LibRef, Builtin, str, PlaceholderStr, RangeVal)):
        return a
    if hasattr(a, "merge_with"):
        return a.merge_with(ex, c, b, memo)
    raise Unsupported("merge of %r / %r" % (a, b))


class Undefined:
    """A local whose value differs irreconcilably between two merged branches; reading it is unsupported."""

    def __repr__(self):
        return "<undefined after merge>"


def merge_states(ex, c, a, b, base):
    """State after `if c: A else: B` when both arms completed: values are if-then-else'd, arrays that
    differ only by appended rows become guarded arrays, path conditions added by an arm are guarded by it."""
    if len(a.frames) != len(b.frames):
        raise Unsupported("merge across different call depths")
    memo = {}
    st = State()
    st.pc = list(a.pc[:base])
    extra_a = a.pc[base + 1:]
    extra_b = b.pc[base + 1:]
    if extra_a:
        st.pc.append(z3.Implies(c, z3.And(*extra_a)))
    if extra_b:
        st.pc.append(z3.Implies(z3.Not(c), z3.And(*extra_b)))
    fmemo = {}

    def merge_frame(fa, fb):
        if fa is None and fb is None:
            return None
        if fa is None or fb is None:
            raise Unsupported("frame structure")
        k = (id(fa), id(fb))
        if k in fmemo:
            return fmemo[k]
        fr = Frame(fa.module, fa.func, fa.cls, None)
        fmemo[k] = fr
        fr.parent = merge_frame(fa.parent, fb.parent)
        for name in set(fa.locals) | set(fb.locals):
            if name in fa.locals and name in fb.locals:
                try:
                    fr.locals[name] = _merge_val(ex, c, fa.locals[name], fb.locals[name], memo)
                except Unsupported:
                    fr.locals[name] = Undefined()
            else:
                fr.locals[name] = Undefined()
        return fr
    st.frames = [merge_frame(x, y) for x, y in zip(a.frames, b.frames)]
    st.roots = _merge_val(ex, c, a.roots, b.roots, memo) if a.roots.keys() == b.roots.keys() else a.roots
    st.tmp = [_merge_val(ex, c, x, y, memo) for x, y in zip(a.tmp, b.tmp)]
    st.log = list(a.log) + [e for e in b.log[len(a.log):]]
    return st


def subst_value(x, term, val):
    """Replace a symbolic integer by a constant inside a value (arrays are rebuilt, not mutated)."""
    if isz(x):
        r = z3.substitute(x, (term, z3.IntVal(val)))
        c = V.conc(r)
        return c if c is not None else r
    if isinstance(x, SArr):
        fl = [subst_value(e, term, val) for e in x.flat()]
        return SArr(L.mk(fl, x.shape, x.kind).a, x.kind, x.origin)
    if isinstance(x, list):
        return [subst_value(e, term, val) for e in x]
    if isinstance(x, tuple):
        return tuple(subst_value(e, term, val) for e in x)
    return x


def subst_index(idx, term, val):
    if isinstance(idx, tuple):
        return tuple(subst_index(i, term, val) for i in idx)
    if isinstance(idx, SliceVal):
        def f(x):
            if x is None or not isz(x):
                return x
            c = V.conc(z3.substitute(x, (term, z3.IntVal(val))))
            return c if c is not None else z3.substitute(x, (term, z3.IntVal(val)))
        return SliceVal(f(idx.lo), f(idx.hi), f(idx.step))
    if isz(idx):
        c = V.conc(z3.substitute(idx, (term, z3.IntVal(val))))
        return c if c is not None else idx
    return idx


def merge_states_general(ex, a, b):
    """Union of two states that share a path-condition prefix: the suffixes ca / cb become one disjunction,
    values are ite(ca, value in a, value in b)."""
    n = min(len(a.pc), len(b.pc))
    i = 0
    while i < n and a.pc[i].eq(b.pc[i]):
        i += 1
    ca = z3.And(*a.pc[i:]) if len(a.pc) > i else z3.BoolVal(True)
    cb = z3.And(*b.pc[i:]) if len(b.pc) > i else z3.BoolVal(True)
    a2, b2 = State(), State()
    for src, dst, cnd in ((a, a2, ca), (b, b2, z3.Not(ca))):
        dst.pc = list(src.pc[:i]) + [cnd]
        dst.frames, dst.roots, dst.tmp, dst.log = src.frames, src.roots, src.tmp, src.log
    st = merge_states(ex, ca, a2, b2, i)
    st.pc = list(a.pc[:i]) + [z3.Or(ca, cb)]
    return st


class PathDead(Exception):
    """The current path cannot continue (an implicit raise was recorded as an obligation)."""


_DTYPE_ATTRS = {"float64": {"kind": "f", "str": "<f8", "name": "float64", "itemsize": 8},
                "int64": {"kind": "i", "str": "<i8", "name": "int64", "itemsize": 8},
                "bool": {"kind": "b", "str": "|b1", "name": "bool", "itemsize": 1},
                "object": {"kind": "O", "str": "|O", "name": "object", "itemsize": 8}}


class AttrMissing(Exception):
    def __init__(self, obj, name):
        self.obj = obj
        self.name = name
        Exception.__init__(self, "no attribute %s on %r" % (name, obj))


class NeedConcreteInt(Exception):
    """A symbolic integer is needed as a concrete value (slice bound): the executor forks over its range."""

    def __init__(self, term):
        self.term = term


class SliceVal:
    def __init__(self, lo, hi, step):
        self.lo, self.hi, self.step = lo, hi, step

    def clone(self, memo):
        return SliceVal(self.lo, self.hi, self.step)

    def to_slice(self):
        def c(x):
            if x is None:
                return None
            cx = V.conc(x)
            if not isinstance(cx, int):
                if isz(x) and z3.is_int(x):
                    raise NeedConcreteInt(x)
                raise Unsupported("symbolic slice bound")
            return cx

        return slice(c(self.lo), c(self.hi), c(self.step))


class RangeVal:
    def __init__(self, lo, hi, step=1):
        self.lo, self.hi, self.step = lo, hi, step

    def concrete(self):
        return all(isinstance(x, int) for x in (self.lo, self.hi, self.step))

    def items(self):
        if not self.concrete():
            raise Unsupported("symbolic range needs a loop summary/invariant")
        return list(range(self.lo, self.hi, self.step))

    def iter_concrete(self):
        return self.items()

    def __len__(self):
        return len(self.items())


def find_setter(cls, name):
    stack = [(cls.module, cls.node)]
    seen = set()
    while stack:
        m, n = stack.pop(0)
        if (m.relpath, n.name) in seen:
            continue
        seen.add((m.relpath, n.name))
        for item in n.body:
            if isinstance(item, ast.FunctionDef) and item.name == name:
                for d in item.decorator_list:
                    if isinstance(d, ast.Attribute) and d.attr == "setter":
                        return extract.FuncRef(m, item, n)
        stack.extend(extract.class_bases(m, n))
    return None


def obj_in(st, obj):
    """Identity of heap objects is preserved along a single path; after a fork the caller holds the
    pre-fork object. Objects are looked up by oid among the state's reachable SObj's."""
    if not isinstance(obj, SObj):
        return obj
    found = find_obj(st, obj.oid)
    return found if found is not None else obj


def find_obj(st, oid):
    seen = set()

    def walk(v):
        if isinstance(v, SObj):
            if id(v) in seen:
                return None
            seen.add(id(v))
            if v.oid == oid:
                return v
            for x in v.fields.values():
                r = walk(x)
                if r is not None:
                    return r
        elif isinstance(v, (list, tuple)):
            if id(v) in seen:
                return None
            seen.add(id(v))
            for x in v:
                r = walk(x)
                if r is not None:
                    return r
        elif isinstance(v, dict):
            for x in v.values():
                r = walk(x)
                if r is not None:
                    return r
        elif isinstance(v, (PyFunc, BoundLib, SuperProxy)):
            return walk(getattr(v, "bound", None) or getattr(v, "obj", None))
        return None

    for fr in st.frames:
        f = fr
        while f is not None:
            r = walk(f.locals)
            if r is not None:
                return r
            f = f.parent
    r = walk(st.roots)
    return r
