"""Discharging obligations: z3 (python API) first, /usr/bin/cvc5 on the SMT-LIB dump for `unknown`.

Verdicts: 'proved' | 'failed' (counter-model attached) | 'unknown' | 'error'.
For expect='sat' obligations (covers / planted must-fail checks) 'proved' means satisfiable.
"""
import os
import subprocess
import tempfile
import time

import z3

CVC5 = "/usr/bin/cvc5"


def model_to_dict(m):
    out = {}
    for d in m.decls():
        try:
            v = m[d]
            if d.arity() == 0:
                out[d.name()] = str(v)
            else:
                out[d.name()] = str(v)[:2000]
        except Exception as e:  # pragma: no cover
            out[d.name()] = "<%s>" % e
    return out


_MUL = z3.Function("mul!", z3.RealSort(), z3.RealSort(), z3.RealSort())
_IMUL = z3.Function("imul!", z3.IntSort(), z3.IntSort(), z3.IntSort())


def abstract_mul(e, cache=None):
    """Replace every nonlinear product by an uninterpreted (commutative-normalised) function.
    Validity of the abstracted formula implies validity of the original (sound abstraction)."""
    if cache is None:
        cache = {}
    k = e.get_id()
    if k in cache:
        return cache[k]
    if z3.is_quantifier(e):
        body = abstract_mul(e.body(), cache)
        n = e.num_vars()
        names = [e.var_name(i) for i in range(n)]
        sorts = [e.var_sort(i) for i in range(n)]
        # rebuild with fresh constants substituted for de Bruijn vars
        cs = [z3.Const(names[i], sorts[i]) for i in range(n)]
        inst = z3.substitute_vars(body, *reversed(cs))
        r = z3.ForAll(cs, inst) if e.is_forall() else z3.Exists(cs, inst)
        cache[k] = r
        return r
    if not z3.is_app(e) or e.num_args() == 0:
        cache[k] = e
        return e
    args = [abstract_mul(a, cache) for a in e.children()]
    if e.decl().kind() == z3.Z3_OP_MUL:
        nums = [a for a in args if z3.is_rational_value(a) or z3.is_int_value(a)]
        rest = [a for a in args if not (z3.is_rational_value(a) or z3.is_int_value(a))]
        if len(rest) <= 1:
            r = e.decl()(*args)
        else:
            rest.sort(key=lambda a: a.get_id())
            f = _MUL if z3.is_real(rest[0]) or any(z3.is_real(a) for a in rest) else _IMUL
            acc = rest[0]
            for a in rest[1:]:
                if f is _MUL:
                    x, y = (z3.ToReal(acc) if z3.is_int(acc) else acc), (z3.ToReal(a) if z3.is_int(a) else a)
                else:
                    x, y = acc, a
                acc = f(x, y)
            r = acc
            for nmb in nums:
                r = nmb * r
    elif e.decl().kind() == z3.Z3_OP_DIV and not (z3.is_rational_value(args[1])):
        r = z3.Function("div!", z3.RealSort(), z3.RealSort(), z3.RealSort())(args[0], args[1])
    else:
        try:
            r = e.decl()(*args)
        except Exception:
            r = e
    cache[k] = r
    return r


def _consts_in(e, acc, seen):
    k = e.get_id()
    if k in seen:
        return
    seen.add(k)
    if z3.is_const(e) and e.decl().kind() == z3.Z3_OP_UNINTERPRETED:
        if z3.is_arith(e):
            acc.add(e)
        return
    for c in e.children():
        _consts_in(c, acc, seen)


def _nonlinear_groups(exprs):
    """For every product / division with >= 2 symbolic factors: list of the constant-sets of its factors."""
    groups = []
    seen = set()

    def walk(e):
        k = e.get_id()
        if k in seen:
            return
        seen.add(k)
        if z3.is_quantifier(e):
            walk(e.body())
            return
        if z3.is_app(e):
            kind = e.decl().kind()
            if kind in (z3.Z3_OP_MUL, z3.Z3_OP_DIV, z3.Z3_OP_IDIV, z3.Z3_OP_MOD, z3.Z3_OP_POWER):
                facs = []
                for c in e.children():
                    acc = set()
                    _consts_in(c, acc, set())
                    if acc:
                        facs.append(acc)
                if kind != z3.Z3_OP_MUL and len(e.children()) == 2:
                    acc = set()
                    _consts_in(e.children()[1], acc, set())
                    if acc:
                        groups.append([acc, acc])
                elif len(facs) >= 2:
                    groups.append(facs)
            for c in e.children():
                walk(c)

    for e in exprs:
        walk(e)
    return groups


def find_model_by_fixing(assumptions, goal, seed=0, trials=24, timeout_ms=3000):
    """Counter-model search for nonlinear queries the solvers left open: fix enough variables (chosen
    greedily among the factors of nonlinear products) to random small rationals so that the query
    becomes linear, and ask z3 again.  Only ever used to FIND models (a model is checked by z3 itself)."""
    import random

    exprs = list(assumptions) + [goal]
    groups = _nonlinear_groups(exprs)
    if not groups:
        return None
    fixed = []
    fixed_ids = set()

    def open_groups():
        out = []
        for g in groups:
            live = [f for f in g if any(c.get_id() not in fixed_ids for c in f)]
            if len(live) >= 2:
                out.append(live)
        return out

    while True:
        og = open_groups()
        if not og:
            break
        cnt = {}
        for g in og:
            for f in g:
                for c in f:
                    if c.get_id() not in fixed_ids:
                        cnt[c.get_id()] = (cnt.get(c.get_id(), (0, c))[0] + 1, c)
        best = max(cnt.values(), key=lambda t: (t[0], -t[1].get_id()))[1]
        fixed.append(best)
        fixed_ids.add(best.get_id())
        if len(fixed) > 400:
            return None
    # first candidate: values of the fixed variables in a model of the product-abstracted query
    cand = None
    try:
        cache = {}
        sa = z3.Solver()
        sa.set("timeout", 2000)
        for a in assumptions:
            sa.add(abstract_mul(a, cache))
        sa.add(z3.Not(abstract_mul(goal, cache)))
        if sa.check() == z3.sat:
            cand = sa.model()
    except z3.Z3Exception:
        cand = None
    if cand is not None:
        s = z3.Solver()
        s.set("timeout", timeout_ms)
        for a in assumptions:
            s.add(a)
        s.add(z3.Not(goal))
        for c in fixed:
            v = cand.eval(c, model_completion=True)
            if z3.is_rational_value(v) or z3.is_int_value(v):
                s.add(c == v)
        if s.check() == z3.sat:
            return s.model()
    rng = random.Random(seed)
    pool = ["0", "1", "-1", "2", "-2", "1/2", "-1/2", "3", "1/3", "-3", "1/4", "3/2", "-3/2", "5", "1/10"]
    for trial in range(trials):
        s = z3.Solver()
        s.set("timeout", timeout_ms)
        for a in assumptions:
            s.add(a)
        s.add(z3.Not(goal))
        for c in fixed:
            v = rng.choice(pool if trial else pool[:3])
            s.add(c == (z3.RealVal(v) if z3.is_real(c) else z3.IntVal(int(eval(v)) if "/" not in v else 1)))
        if s.check() == z3.sat:
            return s.model()
    return None


def abstract_ufs(e, cache, names):
    """Replace every application of a real-valued uninterpreted function by a fresh constant (same term ->
    same constant).  This only forgets functional consistency, so validity of the result implies validity
    of the original; it turns UF+NRA queries into pure polynomial arithmetic, which nlsat decides quickly."""
    k = e.get_id()
    if k in cache:
        return cache[k]
    if z3.is_quantifier(e) or not z3.is_app(e) or e.num_args() == 0:
        cache[k] = e
        return e
    args = [abstract_ufs(a, cache, names) for a in e.children()]
    d = e.decl()
    if d.kind() == z3.Z3_OP_UNINTERPRETED and z3.is_real(e):
        key = d.name() + "(" + ",".join(str(a.get_id()) for a in args) + ")"
        if key not in names:
            names[key] = z3.Real("uf!%d" % len(names))
        r = names[key]
    else:
        try:
            r = d(*args)
        except Exception:
            r = e
    cache[k] = r
    return r


def check_valid(assumptions, goal, timeout_ms=10000, use_cvc5=True, want_model=True, tactic=None, abstract_first=True):
    """Is (/\\ assumptions) => goal valid?  Returns dict(status, backend, seconds, model?)."""
    t0 = time.time()
    if abstract_first and tactic is None:
        try:
            cache = {}
            sa = z3.Solver()
            sa.set("timeout", int(min(timeout_ms, 5000)))
            for a in assumptions:
                sa.add(abstract_mul(a, cache))
            sa.add(z3.Not(abstract_mul(goal, cache)))
            if sa.check() == z3.unsat:
                return {"status": "proved", "backend": "z3-%s(products abstracted)" % z3.get_version_string(),
                        "seconds": round(time.time() - t0, 3)}
        except z3.Z3Exception:
            pass
    if abstract_first and tactic is None:
        try:
            cache, names = {}, {}
            su = z3.Solver()
            su.set("timeout", int(min(timeout_ms, 8000)))
            has_q = False
            for a in assumptions:
                su.add(abstract_ufs(a, cache, names))
            su.add(z3.Not(abstract_ufs(goal, cache, names)))
            if names and su.check() == z3.unsat:
                return {"status": "proved", "backend": "z3-%s(real UF terms as constants)" % z3.get_version_string(),
                        "seconds": round(time.time() - t0, 3)}
        except z3.Z3Exception:
            pass
    if tactic is None:
        m = find_model_by_fixing(assumptions, goal, seed=int(os.environ.get("VERIF_SEED", "0") or 0), trials=8, timeout_ms=1500)
        if m is not None:
            return {"status": "failed", "backend": "z3-%s(after fixing nonlinear factors)" % z3.get_version_string(),
                    "seconds": round(time.time() - t0, 3), "model": model_to_dict(m), "_z3model": m}
    s = z3.Solver() if tactic is None else z3.Then(*tactic).solver() if isinstance(tactic, (list, tuple)) else z3.Tactic(tactic).solver()
    s.set("timeout", int(timeout_ms))
    for a in assumptions:
        s.add(a)
    s.add(z3.Not(goal))
    r = s.check()
    dt = time.time() - t0
    if r == z3.unsat:
        return {"status": "proved", "backend": "z3-%s" % z3.get_version_string(), "seconds": round(dt, 3)}
    if r == z3.sat:
        m = s.model()
        return {"status": "failed", "backend": "z3-%s" % z3.get_version_string(), "seconds": round(dt, 3),
                "model": model_to_dict(m), "_z3model": m}
    reason = s.reason_unknown()
    m = find_model_by_fixing(assumptions, goal, seed=int(os.environ.get("VERIF_SEED", "0") or 0))
    if m is not None:
        return {"status": "failed", "backend": "z3-%s(after fixing nonlinear factors)" % z3.get_version_string(),
                "seconds": round(time.time() - t0, 3), "model": model_to_dict(m), "_z3model": m}
    if use_cvc5 and os.path.exists(CVC5):
        r2 = run_cvc5(s.to_smt2(), max(5, int(timeout_ms / 1000)))
        r2["seconds"] = round(time.time() - t0, 3)
        if r2["status"] in ("proved", "failed"):
            return r2
        return {"status": "unknown", "backend": "z3+cvc5", "seconds": round(time.time() - t0, 3),
                "detail": "z3: %s; cvc5: %s" % (reason, r2.get("detail"))}
    return {"status": "unknown", "backend": "z3", "seconds": round(dt, 3), "detail": reason}


def check_sat(assumptions, timeout_ms=10000):
    t0 = time.time()
    s = z3.Solver()
    s.set("timeout", int(timeout_ms))
    for a in assumptions:
        s.add(a)
    r = s.check()
    dt = round(time.time() - t0, 3)
    if r == z3.sat:
        return {"status": "proved", "backend": "z3", "seconds": dt, "model": model_to_dict(s.model()),
                "_z3model": s.model()}
    if r == z3.unsat:
        return {"status": "failed", "backend": "z3", "seconds": dt, "detail": "unsatisfiable (vacuous)"}
    return {"status": "unknown", "backend": "z3", "seconds": dt, "detail": s.reason_unknown()}


def run_cvc5(smt2, timeout_s):
    with tempfile.NamedTemporaryFile("w", suffix=".smt2", delete=False, dir="/var/tmp") as fh:
        fh.write("(set-logic ALL)\n" + smt2)
        path = fh.name
    try:
        p = subprocess.run([CVC5, "--tlimit=%d" % (timeout_s * 1000), "--nl-ext-tplanes", path],
                           capture_output=True, text=True, timeout=timeout_s + 10)
        out = (p.stdout or "").strip().splitlines()
        first = out[0] if out else ""
        if first == "unsat":
            return {"status": "proved", "backend": "cvc5-1.0.3"}
        if first == "sat":
            return {"status": "failed", "backend": "cvc5-1.0.3", "model": {}, "detail": "cvc5 sat (no model extracted)"}
        return {"status": "unknown", "backend": "cvc5-1.0.3", "detail": (first or p.stderr.strip())[:200]}
    except subprocess.TimeoutExpired:
        return {"status": "unknown", "backend": "cvc5-1.0.3", "detail": "timeout"}
    finally:
        try:
            os.unlink(path)
        except OSError:
            pass
