"""Counter-model SEARCH for quantified set-level obligations the solvers leave `unknown`.

Quantifiers over design indices are expanded over a small universe {-1, 0, .., n} (the two outer values
stand for "not a design").  A model of the expansion is only a CANDIDATE: it is never reported as a
violation by itself -- it is turned into concrete inputs and replayed against the real code, and only a
confirmed replay is reported without the words no-failing-input-found.
"""
import z3


def expand(e, dom, cache=None):
    if cache is None:
        cache = {}
    k = e.get_id()
    if k in cache:
        return cache[k]
    if z3.is_quantifier(e):
        n = e.num_vars()
        sorts = [e.var_sort(i) for i in range(n)]
        if not all(s == z3.IntSort() for s in sorts):
            cache[k] = e
            return e
        body = e.body()
        insts = []

        def rec(i, chosen):
            if i == n:
                # de Bruijn: var 0 is the LAST bound variable
                inst = z3.substitute_vars(body, *reversed(chosen))
                insts.append(expand(inst, dom, {}))
                return
            for v in dom:
                rec(i + 1, chosen + [z3.IntVal(v)])

        rec(0, [])
        r = z3.And(*insts) if e.is_forall() else z3.Or(*insts)
        cache[k] = r
        return r
    if not z3.is_app(e) or e.num_args() == 0:
        cache[k] = e
        return e
    args = [expand(a, dom, cache) for a in e.children()]
    try:
        r = e.decl()(*args)
    except Exception:
        r = e
    cache[k] = r
    return r


def search(assumptions, goal, nvar, sizes=(1, 2, 3), timeout_ms=8000):
    """Try N = 1, 2, 3: returns (model, n) of the finite expansion of  assumptions /\\ not goal, or None."""
    for n in sizes:
        dom = list(range(-1, n + 1))
        s = z3.Solver()
        s.set("timeout", timeout_ms)
        if nvar is not None:
            s.add(nvar == n)
        try:
            exps = [expand(a, dom) for a in assumptions] + [z3.Not(expand(goal, dom))]
            for e in exps:
                s.add(e)
            # cardinalities of the set terms that occur: exact count over the universe [0, n)
            for arr in _card_args(exps):
                s.add(z3.Function("card", arr.sort(), z3.IntSort())(arr) ==
                      z3.Sum([z3.If(z3.Select(arr, z3.IntVal(k)), 1, 0) for k in range(n)]))
                s.add(z3.And(*[z3.Not(z3.Select(arr, z3.IntVal(k))) for k in (-1, n)]))
        except z3.Z3Exception:
            return None
        if s.check() == z3.sat:
            return s.model(), n
    return None


def _card_args(exprs):
    out = {}
    seen = set()
    stack = list(exprs)
    while stack:
        e = stack.pop()
        if e.get_id() in seen:
            continue
        seen.add(e.get_id())
        if z3.is_app(e):
            if e.decl().name() == "card" and e.num_args() == 1:
                out[e.arg(0).get_id()] = e.arg(0)
            stack.extend(e.children())
        elif z3.is_quantifier(e):
            stack.append(e.body())
    return list(out.values())
