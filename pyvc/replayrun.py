"""Run a replay script against the real code under /venv/bin/python."""
import os
import subprocess

ROOT = os.path.dirname(os.path.dirname(os.path.abspath(__file__)))
VENV_PY = "/venv/bin/python"


def run_replay(path):
    """Returns (confirmed, output)."""
    full = path if os.path.isabs(path) else os.path.join(ROOT, path)
    env = dict(os.environ)
    env["PYTHONPATH"] = os.environ.get("PYVC_REPO", "/repo")
    env["PYTHONWARNINGS"] = "ignore"
    env.setdefault("OMP_NUM_THREADS", "2")
    try:
        p = subprocess.run([VENV_PY, full], capture_output=True, text=True, timeout=900, env=env, cwd=ROOT)
    except subprocess.TimeoutExpired:
        return False, "replay timed out"
    out = (p.stdout or "") + (p.stderr or "")[-2000:]
    return ("REPLAY-CONFIRMED" in (p.stdout or "") and p.returncode == 1), out
