"""./check <Cxx> [--tier quick|thorough]   |   ./check --replay <path>

Exit codes: 0 all obligations discharged (or only listed known findings remain); 1 an obligation has a
counter-model that is not a listed known finding (VIOLATION line printed); 2 undecided; 3 checker broke.
"""
import argparse
import importlib
import json
import multiprocessing as mp
import os
import pkgutil
import subprocess
import sys
import time

ROOT = os.path.dirname(os.path.dirname(os.path.abspath(__file__)))
REPO = os.environ.get("PYVC_REPO", "/repo")
VENV_PY = "/venv/bin/python"


def load_contracts():
    import contracts

    for m in pkgutil.iter_modules(contracts.__path__):
        importlib.import_module("contracts." + m.name)


def _worker(arg):
    full, tier, timeout_ms, cfilter = arg
    crash = os.environ.get("PYVC_TEST_CRASH")      # self-test of the crash handling: "<task substring>[:once:<marker file>]"
    if crash:
        sub, _, rest = crash.partition(":once:")
        if sub in full and (not rest or not os.path.exists(rest)):
            if rest:
                open(rest, "w").close()
            os.kill(os.getpid(), 11)
    from pyvc import harness
    import signal

    budget = int(os.environ.get("PYVC_TASK_BUDGET_S", "900" if tier == "quick" else "3600"))

    def _over(signum, frame):
        from pyvc.values import Unsupported
        raise Unsupported("task exceeded its time budget of %d s (path explosion or a solver call that does not return)" % budget)
    try:
        signal.signal(signal.SIGALRM, _over)
        signal.alarm(budget)
    except (ValueError, AttributeError):
        pass
    try:
        return harness.run_task(full, tier, timeout_ms, cfilter)
    except BaseException as e:  # noqa
        from pyvc.values import Unsupported
        return {"task": full, "status": "unsupported" if isinstance(e, Unsupported) else "error", "detail": repr(e), "results": [], "functions": {},
                "lib_used": [], "trusted": [], "samples": [], "seconds": 0, "prop": full.split("/")[0]}
    finally:
        try:
            signal.alarm(0)
        except (ValueError, AttributeError):
            pass


from pyvc.replayrun import run_replay  # noqa: E402


def load_known():
    p = os.path.join(ROOT, "known_findings.json")
    if not os.path.exists(p):
        return []
    with open(p) as fh:
        return json.load(fh)


def _run_resilient(work, jobs):
    """Run the tasks in worker processes.  A worker that dies (a solver segfault has been observed once in libz3) must neither
    hang the check nor be mistaken for a verdict: the pool is rebuilt, unfinished tasks are re-run one per fresh process, and a
    task whose process dies again is reported as a checker error for that task."""
    from concurrent.futures import ProcessPoolExecutor, as_completed
    from concurrent.futures.process import BrokenProcessPool
    outs, pending = [], list(work)
    for _round in range(2):                 # a second pooled round before isolating tasks one per process
      if not pending:
          break
      try:
        with ProcessPoolExecutor(max_workers=jobs, mp_context=mp.get_context("fork")) as ex:
            futs = {ex.submit(_worker, w): w for w in pending}
            for f in as_completed(futs):
                try:
                    outs.append(f.result())
                    pending.remove(futs[f])
                except BrokenProcessPool:
                    raise
                except Exception as e:      # a Python exception in the worker wrapper itself
                    outs.append({"task": futs[f][0], "prop": futs[f][0].split("/")[0], "results": [], "functions": {}, "lib_used": [], "trusted": [],
                                 "status": "error", "samples": [], "detail": "%s: %s" % (type(e).__name__, e)})
                    pending.remove(futs[f])
      except BrokenProcessPool:
        pass
    for w in list(pending):
        out = None
        for attempt in range(2):
            try:
                with ProcessPoolExecutor(max_workers=1, mp_context=mp.get_context("fork")) as ex1:
                    out = ex1.submit(_worker, w).result()
                break
            except BrokenProcessPool:
                out = None
        if out is None:
            out = {"task": w[0], "prop": w[0].split("/")[0], "results": [], "functions": {}, "lib_used": [], "trusted": [], "status": "error",
                   "samples": [], "detail": "the worker process died three times while running this task (solver crash); nothing is known about it"}
        outs.append(out)
    return outs


def main(argv=None):
    ap = argparse.ArgumentParser()
    ap.add_argument("prop", nargs="?")
    ap.add_argument("--tier", default=os.environ.get("VERIF_TIER", "quick"))
    ap.add_argument("--replay")
    ap.add_argument("--jobs", type=int, default=int(os.environ.get("PYVC_JOBS", "16")))
    ap.add_argument("--only", default=None, help="substring filter on task names (debugging)")
    ap.add_argument("--no-evidence", action="store_true")
    a = ap.parse_args(argv)
    os.chdir(ROOT)
    if a.replay:
        ok, out = run_replay(a.replay)
        print(out)
        return 1 if ok else 0
    if not a.prop:
        ap.error("property id required")
    seed = int(os.environ.get("VERIF_SEED", "0") or 0)
    t0 = time.time()
    try:
        load_contracts()
        from pyvc import harness
        from pyvc import standins
    except Exception as e:
        import traceback

        traceback.print_exc()
        print("CHECKER-ERROR could not load contracts: %r" % (e,))
        return 3
    tier = a.tier
    timeout_ms = int(os.environ.get("PYVC_TIMEOUT_MS", "15000" if tier == "quick" else "90000"))
    names = [n for n, i in harness.TASKS.items() if i["prop"] == a.prop and ((tier == "thorough" and i["tier"] in ("quick", "thorough")) or i["tier"] == "quick")]
    # dependencies: obligations of OTHER properties' tasks that this property's lemmas / contracts consume (meta.depends:
    # (task-name regex, clause regex) pairs).  They are discharged as part of this check, under their own names.
    import re
    from contracts import meta
    dep_filter = {}
    for tre, cre in meta.PROPS.get(a.prop, {}).get("depends", []):
        for n, i in harness.TASKS.items():
            if i["prop"] != a.prop and re.match(tre, n) and ((tier == "thorough" and i["tier"] in ("quick", "thorough")) or i["tier"] == "quick"):
                dep_filter.setdefault(n, []).append(cre)
    dead_deps = [tre for tre, cre in meta.PROPS.get(a.prop, {}).get("depends", []) if not any(re.match(tre, n) for n in harness.TASKS)]
    dep_filter = {n: "|".join("(?:%s)" % c for c in cs) for n, cs in dep_filter.items()}
    names = names + sorted(dep_filter)
    if a.only:
        names = [n for n in names if a.only in n]
    if not names:
        print("CHECKER-ERROR no tasks for property %s" % a.prop)
        return 3
    names.sort()
    jobs = max(1, min(a.jobs, len(names)))
    # bounded stand-ins (numeric oracles for clauses the contracts leave undecided; never counted as proved) run in both
    # tiers, concurrently with the proof tasks
    from concurrent.futures import ThreadPoolExecutor as _TPE
    _standin_pool = _TPE(max_workers=1)
    _standin_future = _standin_pool.submit(standins.run_for, a.prop, seed, tier) if not a.only else None
    work = [(n, tier, timeout_ms, dep_filter.get(n)) for n in names]
    if jobs == 1:
        outs = [_worker(w) for w in work]
    else:
        outs = _run_resilient(work, jobs)
    outs.sort(key=lambda o: o["task"])

    dead_dep_errors = ["dependency pattern %r matches no task" % d for d in dead_deps]
    known = [k for k in load_known() if k.get("property") == a.prop or any(k.get("obligation", "").startswith(n + "/") for n in dep_filter)]
    known_by_ob = {k["obligation"]: k for k in known}
    results = []
    functions = {}
    lib_used, trusted = set(), set()
    samples = []
    broken, undecided = list(dead_dep_errors), []
    for o in outs:
        if o["status"] == "error":
            broken.append("%s: %s" % (o["task"], o.get("detail")))
        elif o["status"] == "unsupported":
            undecided.append("%s: outside the subset: %s" % (o["task"], o.get("detail")))
        for r in o["results"]:
            r["task_seconds"] = o.get("seconds")
            results.append(r)
        functions.update(o.get("functions", {}))
        lib_used.update(o.get("lib_used", []))
        trusted.update(o.get("trusted", []))
        samples.extend(o.get("samples", [])[:1])

    by_name = {r["obligation"]: r for r in results}
    bounded_reports = []
    fallback_notes = []
    violations = []
    known_lines = []
    n_ob = n_ok = 0
    n_known = 0
    for r in results:
        name = r["obligation"]
        if r["kind"] in ("cover", "vacuity"):
            if r["status"] != "proved":
                (broken if r["status"] == "failed" else undecided).append("%s: %s" % (name, r.get("detail")))
            continue
        if r["kind"] == "agreement":
            if r["status"] != "proved":
                broken.append("engine and CPython disagree: %s: %s" % (name, r.get("detail")))
            continue
        if r["kind"] == "fallback":
            fallback_notes.append("%s: %s" % (name.rsplit("/", 1)[0], r.get("detail")))
            continue
        if r["kind"] == "bounded":
            # bounded structural cross-check / fall-back: reported, never counted as discharged
            bounded_reports.append({"name": name, "status": {"proved": "ok", "failed": "violation"}.get(r["status"], r["status"]),
                                    "label": "bounded (not proof)", "backend": r.get("backend"), "seconds": r.get("seconds")})
            if r["status"] == "failed":
                violations.append(r)
            elif r["status"] != "proved":
                undecided.append("%s: %s %s" % (name, r["status"], r.get("detail", "")))
            continue
        kf = known_by_ob.get(name)
        if kf is not None and kf.get("status") == "known":
            n_known += 1
            if r["status"] == "failed":
                need_res = kf.get("residual")
                if need_res:
                    resid = by_name.get(need_res)
                    if resid is None:
                        broken.append("known finding %s names a residual obligation %s that was not generated" % (name, need_res))
                    # (a failing residual is an ordinary obligation: it is reported as a violation below)
                known_lines.append("KNOWN-FINDING: property=%s %s [%s]" % (a.prop, kf.get("what", ""), name))
            elif r["status"] == "proved":
                known_lines.append("NOTE: known finding %s no longer reproduces (obligation verifies); update known_findings.json" % name)
            else:
                undecided.append("%s: %s" % (name, r.get("detail")))
            continue
        n_ob += 1
        if r["status"] == "proved":
            n_ok += 1
        elif r["status"] == "failed":
            violations.append(r)
        else:
            undecided.append("%s: %s %s" % (name, r["status"], r.get("detail", "")))

    # bounded stand-ins (both tiers; never counted as proved)
    standin_reports = list(bounded_reports)
    if _standin_future is not None:
        ran = []
        try:
            ran = _standin_future.result()
            standin_reports = standin_reports + ran
        except Exception as e:
            broken.append("stand-in harness: %r" % (e,))
        for sr in ran:
            if sr.get("status") == "violation":
                violations.append({"obligation": "%s/standin/%s" % (a.prop, sr["name"]), "status": "failed",
                                   "replay": sr.get("replay"), "kind": "bounded-standin", "confirmed": sr.get("confirmed", True)})
            elif sr.get("status") == "error":
                broken.append("stand-in %s: %s" % (sr["name"], sr.get("detail")))

    # tasks whose changed body left the deductive engine's reach: a native bounded stand-in that exercises the same function
    # may stand in (labelled; never counted as discharged); stand-ins of dependency properties are run on demand
    open_tasks = {}
    for o in outs:
        if o["status"] == "unsupported":
            open_tasks[o["task"]] = "outside the deductive engine's reach (%s)" % str(o.get("detail"))[:160]
    for u in undecided:
        head = u.split(": ", 1)[0]
        parts = head.split("/")
        if len(parts) >= 3:
            open_tasks.setdefault("/".join(parts[:2]), "obligations left undecided by the solvers")
    if open_tasks and not a.only:
        ok_names = {sr["name"] for sr in standin_reports if sr.get("status") == "ok"}
        ran_names = {sr["name"] for sr in standin_reports}
        for tname, why in sorted(open_tasks.items()):
            cands = standins.covering(tname)
            for p_, n_ in cands:
                if n_ not in ran_names:
                    try:
                        extra = standins.run_for(p_, seed, tier, only={n_})
                    except Exception as e:
                        broken.append("stand-in harness: %r" % (e,))
                        extra = []
                    for sr in extra:
                        ran_names.add(sr["name"])
                        standin_reports.append(sr)
                        if sr.get("status") == "ok":
                            ok_names.add(sr["name"])
                        elif sr.get("status") == "violation":
                            violations.append({"obligation": "%s/standin/%s" % (a.prop, sr["name"]), "status": "failed",
                                               "replay": sr.get("replay"), "kind": "bounded-standin", "confirmed": sr.get("confirmed", True)})
                        elif sr.get("status") == "error":
                            broken.append("stand-in %s: %s" % (sr["name"], sr.get("detail")))
            if cands and all(n_ in ok_names for _, n_ in cands):
                before = len(undecided)
                undecided[:] = [u for u in undecided if not (u.startswith(tname + ":") or u.startswith(tname + "/"))]
                if len(undecided) != before:
                    fallback_notes.append("%s: %s; bounded stand-in %s stands in" % (tname, why, ", ".join(n_ for _, n_ in cands)))

    # expected obligation counts (vacuity guard (a))
    try:
        with open(os.path.join(ROOT, "contracts", "EXPECTED_COUNTS.json")) as fh:
            exp = json.load(fh)
        need = exp.get(a.prop, {}).get(tier, exp.get(a.prop, {}).get("quick", 1))
    except Exception:
        need = 1
    # the recorded count is that of the unchanged tree; per-path obligations vary with the code's branch structure, so the
    # guard fires only on a substantial loss (a harness that silently generates next to nothing)
    if not a.only and not fallback_notes and n_ob + n_known < 0.5 * need:
        broken.append("only %d obligations generated, expected about %d (at least half of it)" % (n_ob + n_known, need))

    # replay counter-models against the real code
    viol_lines = []
    from concurrent.futures import ThreadPoolExecutor
    todo = [v["replay"] for v in violations if v.get("replay") and v.get("kind") != "bounded-standin"]
    with ThreadPoolExecutor(max_workers=max(1, min(8, len(todo) or 1))) as tp:
        replayed = dict(zip(todo, tp.map(run_replay, todo)))
    for v in violations:
        rp = v.get("replay")
        confirmed, out = (False, "")
        if rp and v.get("kind") != "bounded-standin":
            confirmed, out = replayed[rp]
            try:
                with open(os.path.join(ROOT, rp), "a") as fh:
                    fh.write("\n# ---- replay output ----\n" + "".join("# " + l + "\n" for l in out.splitlines()[-40:]))
            except OSError:
                pass
        elif v.get("kind") == "bounded-standin":
            confirmed = v.get("confirmed", True)
        if not rp:
            rp = os.path.join("replays", "".join(c if c.isalnum() or c in "._-" else "_" for c in v["obligation"]) + ".txt")
            with open(os.path.join(ROOT, rp), "w") as fh:
                fh.write("obligation: %s\nstatus: failed\nbackend: %s\nmodel: %s\n" % (
                    v["obligation"], v.get("backend"), json.dumps(v.get("model", {}))[:20000]))
        v["replay_confirmed"] = confirmed
        line = "VIOLATION property=%s replay=%s" % (a.prop, os.path.join(ROOT, rp))
        line += " obligation=%s" % v["obligation"]
        if not confirmed:
            line += " no-failing-input-found"
        viol_lines.append(line)

    wall = round(time.time() - t0, 2)
    for l in known_lines:
        print(l)
    for l in viol_lines:
        print(l)
    for br in bounded_reports:
        print("BOUNDED-CHECK %s %s" % (br["status"], br["name"]))
    for fn_ in fallback_notes:
        print("BOUNDED-FALLBACK " + fn_)
    for u in undecided:
        print("UNDECIDED " + u)
    for b in broken:
        print("CHECKER-ERROR " + b)
    print("SUMMARY property=%s tier=%s tasks=%d obligations=%d discharged=%d known_findings=%d violations=%d undecided=%d errors=%d wall=%.1fs" % (
        a.prop, tier, len(names), n_ob, n_ok, len(known_lines), len(violations), len(undecided), len(broken), wall))

    if not a.no_evidence and not a.only:
        write_evidence(a.prop, tier, seed, results, functions, lib_used, trusted, samples, n_ob, n_ok, known_lines,
                       violations, undecided, broken, standin_reports + [{"name": "fallback", "status": "ok", "label": "bounded stand-in used instead of a proof", "detail": x} for x in fallback_notes], wall, outs)
    if violations:
        return 1  # a counter-model is positive evidence; checker errors (printed above) do not retract it
    if broken:
        return 3
    if undecided:
        return 2
    return 0


def write_evidence(prop, tier, seed, results, functions, lib_used, trusted, samples, n_ob, n_ok, known_lines,
                   violations, undecided, broken, standins_rep, wall, outs):
    from contracts import meta

    info = meta.PROPS.get(prop, {})
    slow = [{"obligation": r["obligation"], "seconds": r.get("seconds")} for r in results
            if (r.get("seconds") or 0) > 4.0]
    backends = {}
    for r in results:
        backends[r.get("backend")] = backends.get(r.get("backend"), 0) + 1
    ev = {
        "property_id": prop,
        "tier": tier,
        "seed": seed,
        "level": "proof",
        "coverage": {
            "obligations": n_ob,
            "discharged": n_ok,
            "checker_cmd": "./check %s --tier %s" % (prop, tier),
            "trusted_base": sorted(set(info.get("trusted_base", [])) | {"library-contract: " + x for x in lib_used} | set(trusted)),
            "samples": samples[:6] or [{"note": "no obligation samples"}],
            "functions_under_contract": sorted(functions.values(), key=lambda f: (f["file"], f["function"])),
            "per_obligation": [{k: r.get(k) for k in ("obligation", "kind", "status", "backend", "seconds")} for r in results],
            "backends": backends,
            "solver_seconds_total": round(sum((r.get("seconds") or 0) for r in results), 2),
            "slow_queries": slow,
            "mode": info.get("mode", ""),
            "known_findings": known_lines,
            "undecided": undecided,
            "checker_errors": broken,
            "bounded_standins": standins_rep,
            "not_decided": info.get("not_decided", []),
            "tasks": [{"task": o["task"], "status": o["status"], "seconds": o.get("seconds")} for o in outs],
            "dependencies": [{"tasks": tre, "clauses": cre} for tre, cre in info.get("depends", [])],
        },
        "assumptions": info.get("assumptions", []),
        "wall_s": wall,
        "violations": len(violations),
    }
    os.makedirs(os.path.join(ROOT, "evidence"), exist_ok=True)
    with open(os.path.join(ROOT, "evidence", prop + ".json"), "w") as fh:
        json.dump(ev, fh, indent=1, default=str)


if __name__ == "__main__":
    sys.exit(main())
