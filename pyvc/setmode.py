"""Set-level mode: symbolic finite sets / sequences of design indices and DERIVED loop summaries.

The algorithm methods (discarding, pareto_updating, ...) are loops over sets of unknown size.  They
are cut by summaries derived from one symbolic execution of the loop body on a generic element:

  search loop   `for x in IT: ...; if c(x): [effects]; break/return`  (no effect on non-exit paths)
        exhausted:  forall x in IT. not c(x)            state unchanged
        exit:       some witness x* in IT with c(x*)     state = body effects at x*
      (the witness is *some* breaking element, not necessarily the first: an over-approximation that
       is exact whenever the exit effects do not depend on which element broke)

  accumulate loop   every non-exit path appends/adds a function of x under a condition a(x) that
      does not read the accumulators:   acc' = acc ++ [e(x) | x in IT, a(x)]  (source order)
      sets:  T' = T + {e(x) | a(x)}    or    T' = T - {x | a(x)}   (removal of the loop element only)

Soundness of the two schemas is by induction on the iteration prefix (DESIGN 2.3); the side
conditions (effect-freedom, independence from the accumulators, loop-local temporaries not carried
across iterations, no mutation of the iterated collection) are checked on every use, anything else
is `Unsupported` (exit 2), never a violation.
"""
import ast

import z3

from . import values as V
from .values import Abort, EngineError, Opaque, SObj, Unsupported, isz

I = z3.IntSort()
B = z3.BoolSort()
SETSORT = z3.ArraySort(I, B)
SEQSORT = z3.ArraySort(I, I)
CARD = z3.Function("card", SETSORT, I)


def _sx():
    from . import symexec

    return symexec


def fresh_const(ctx, name, sort):
    c = z3.Const("%s!%d" % (name, V.fresh_id()), sort)
    ctx.fresh_log.append(c)
    return c


class Poison:
    """Value of a loop-local temporary outside the iteration that assigned it."""

    def __repr__(self):
        return "<poison>"


POISON = Poison()


# ----------------------------------------------------------------------------
# symbolic set
# ----------------------------------------------------------------------------


class SSet:
    is_set = True

    def __init__(self, mem, ctx, name="set"):
        self.mem = mem  # z3 Array Int -> Bool
        self.oid = V.fresh_id()
        self.name = name
        self.iterating = 0
        self.new_order(ctx)

    def new_order(self, ctx):
        """Ghost iteration order: seq is a bijection [0, card) -> members; unconstrained after a mutation."""
        self.seq = fresh_const(ctx, "seq_" + self.name, SEQSORT)
        self.pos = fresh_const(ctx, "pos_" + self.name, SEQSORT)
        self.order_axioms_added = False

    def clone(self, memo):
        r = object.__new__(SSet)
        r.__dict__.update(self.__dict__)
        return r

    def truth(self):
        return z3.Not(self.mem == z3.EmptySet(I))

    def card(self):
        return CARD(self.mem)

    def length(self, ex, st):
        c = self.card()
        st.pc.append(z3.And(c >= 0, (c == 0) == (self.mem == z3.EmptySet(I))))
        return c

    def contains(self, ex, st, item):
        return z3.Select(self.mem, V.Z(item))

    def order_axioms(self):
        n = self.card()
        i, e = z3.Int("i!q"), z3.Int("e!q")
        a1 = z3.ForAll([i], z3.Implies(z3.And(0 <= i, i < n), z3.And(z3.Select(self.mem, z3.Select(self.seq, i)),
                                                                      z3.Select(self.pos, z3.Select(self.seq, i)) == i)))
        a2 = z3.ForAll([e], z3.Implies(z3.Select(self.mem, e), z3.And(0 <= z3.Select(self.pos, e), z3.Select(self.pos, e) < n,
                                                                      z3.Select(self.seq, z3.Select(self.pos, e)) == e)))
        return [a1, a2, n >= 0]

    # ---- methods ------------------------------------------------------
    def getattr(self, ex, st, name):
        sx = _sx()
        if name in ("union", "difference", "remove", "add", "copy", "intersection", "discard", "update", "difference_update",
                    "intersection_update", "issubset", "issuperset", "isdisjoint", "clear"):
            return sx.BoundLib(self, name)
        raise Unsupported("set attribute " + name)

    def _other_mem(self, ex, st, other):
        if isinstance(other, SSet):
            return other.mem
        if isinstance(other, SSeq):
            return other.mem
        if isinstance(other, (list, tuple)):
            m = z3.EmptySet(I)
            for x in other:
                m = z3.SetAdd(m, V.Z(x))
            return m
        raise Unsupported("set operation with %r" % (other,))

    def method(self, ex, st, name, args):
        ctx = ex.ctx
        if name == "union":
            m = self.mem
            for o in args:
                m = z3.SetUnion(m, self._other_mem(ex, st, o))
            return SSet(m, ctx, self.name + "_u")
        if name == "difference":
            m = self.mem
            for o in args:
                m = z3.SetDifference(m, self._other_mem(ex, st, o))
            return SSet(m, ctx, self.name + "_d")
        if name == "intersection":
            m = self.mem
            for o in args:
                m = z3.SetIntersect(m, self._other_mem(ex, st, o))
            return SSet(m, ctx, self.name + "_i")
        if name == "copy":
            return SSet(self.mem, ctx, self.name + "_c")
        if name in ("update", "difference_update", "intersection_update", "clear"):
            if self.iterating:
                ex.ctx.obligation("no-mutation-during-iteration", False)
            m = self.mem
            if name == "clear":
                m = z3.EmptySet(I)
            for o in args:
                om = self._other_mem(ex, st, o)
                m = z3.SetUnion(m, om) if name == "update" else (z3.SetDifference(m, om) if name == "difference_update" else z3.SetIntersect(m, om))
            self.mem = m
            self.new_order(ctx)
            st.log.append(("sset", self.oid, name, None))
            return None
        if name in ("issubset", "issuperset", "isdisjoint"):
            om = self._other_mem(ex, st, args[0])
            e = z3.Int("e!q")
            if name == "issubset":
                return z3.ForAll([e], z3.Implies(z3.Select(self.mem, e), z3.Select(om, e)))
            if name == "issuperset":
                return z3.ForAll([e], z3.Implies(z3.Select(om, e), z3.Select(self.mem, e)))
            return z3.ForAll([e], z3.Not(z3.And(z3.Select(om, e), z3.Select(self.mem, e))))
        if name in ("remove", "add", "discard"):
            if self.iterating:
                ex.ctx.obligation("no-mutation-during-iteration", False)
            x = V.Z(args[0])
            if name == "remove":
                ex.ctx.obligation("no-raise:KeyError(set.remove)", z3.Select(self.mem, x))
                self.mem = z3.SetDel(self.mem, x)
            elif name == "discard":
                self.mem = z3.SetDel(self.mem, x)
            else:
                self.mem = z3.SetAdd(self.mem, x)
            self.new_order(ctx)
            st.log.append(("sset", self.oid, name, x))
            return None
        raise Unsupported("set method " + name)

    def to_list(self, ex, st):
        """list(S): the elements in the set's current ghost order."""
        if not self.order_axioms_added:
            st.pc.extend(self.order_axioms())
        q = SSeq(ex.ctx, self.name + "_list")
        q.length_t = self.card()
        q.elems = self.seq
        q.mem = self.mem
        q.distinct = True
        q.from_set = self
        return q

    def to_sorted_list(self, ex, st):
        """sorted(S): the members in ascending order (a second bijection [0, card) -> members that is strictly increasing;
        nothing relates it to the set's own ghost iteration order)."""
        n = self.card()
        seq = fresh_const(ex.ctx, "sorted_" + self.name, SEQSORT)
        pos = fresh_const(ex.ctx, "sortedpos_" + self.name, SEQSORT)
        i, j, e = z3.Int("i!q"), z3.Int("j!q"), z3.Int("e!q")
        st.pc.append(z3.ForAll([i], z3.Implies(z3.And(0 <= i, i < n), z3.And(z3.Select(self.mem, z3.Select(seq, i)), z3.Select(pos, z3.Select(seq, i)) == i))))
        st.pc.append(z3.ForAll([e], z3.Implies(z3.Select(self.mem, e), z3.And(0 <= z3.Select(pos, e), z3.Select(pos, e) < n, z3.Select(seq, z3.Select(pos, e)) == e))))
        st.pc.append(z3.ForAll([i, j], z3.Implies(z3.And(0 <= i, i < j, j < n), z3.Select(seq, i) < z3.Select(seq, j))))
        st.pc.append(n >= 0)
        q = SSeq(ex.ctx, self.name + "_sorted")
        q.length_t = n
        q.elems = seq
        q.mem = self.mem
        q.distinct = True
        q.from_set = None
        return q

    def symbolic_for(self, ex, st, stmt, enumerate_=False):
        return loop_over(ex, st, stmt, SetSource(self, enumerate_))

    def comprehension(self, ex, st, node):
        raise Unsupported("comprehension over a symbolic set")


# ----------------------------------------------------------------------------
# symbolic sequence (list of ints)
# ----------------------------------------------------------------------------


class SSeq:
    def __init__(self, ctx, name="seq"):
        self.oid = V.fresh_id()
        self.name = name
        self.length_t = z3.IntVal(0)
        self.elems = z3.K(I, z3.IntVal(0))
        self.mem = z3.EmptySet(I)  # set view of the elements
        self.distinct = True
        self.from_set = None
        self.iterating = 0
        self.facts = []

    def clone(self, memo):
        r = object.__new__(SSeq)
        r.__dict__.update(self.__dict__)
        r.facts = list(self.facts)
        return r

    def truth(self):
        return self.length_t > 0

    def length(self, ex, st):
        return self.length_t

    def contains(self, ex, st, item):
        return z3.Select(self.mem, V.Z(item))

    def getattr(self, ex, st, name):
        sx = _sx()
        if name in ("append", "extend", "copy"):
            return sx.BoundLib(self, name)
        raise Unsupported("list attribute " + name)

    def method(self, ex, st, name, args):
        if name == "append":
            if self.iterating:
                ex.ctx.obligation("no-mutation-during-iteration", False)
            nonint = isinstance(args[0], (tuple, list)) or not (isinstance(args[0], int) or (z3.is_expr(args[0]) and z3.is_int(args[0])))
            if getattr(self, "plain", None) is not None or (nonint and z3.is_int_value(z3.simplify(self.length_t)) and z3.simplify(self.length_t).as_long() == 0):
                # a list that never held design indices (a trace / history of records): kept as a plain Python list;
                # only append, len and constant indexing are modelled on it
                if getattr(self, "plain", None) is None:
                    self.plain = []
                self.plain = self.plain + [args[0]]
                self.length_t = z3.IntVal(len(self.plain))
                return None
            if nonint:
                raise Unsupported("append of a non-integer (%s) to an index list" % type(args[0]).__name__)
            x = V.Z(args[0])
            if not z3.is_int(x):
                raise Unsupported("append of a non-integer to an index list")
            st.log.append(("sseq", self.oid, "append", x))
            was_empty = V.conc(self.length_t) == 0
            self.elems = z3.Store(self.elems, self.length_t, x)
            self.length_t = self.length_t + 1
            self.mem = z3.SetAdd(self.mem, x)
            self.distinct = bool(was_empty)
            return None
        raise Unsupported("list method " + name)

    def getitem(self, ex, st, idx):
        if getattr(self, "plain", None) is not None:
            if isinstance(idx, int) and -len(self.plain) <= idx < len(self.plain):
                return self.plain[idx]
            raise Unsupported("symbolic index into a list of records")
        i = V.Z(idx)
        st.pc.extend(self.facts)
        ex.ctx.obligation("no-raise:IndexError", z3.And(i >= 0, i < self.length_t))
        return z3.Select(self.elems, i)

    def symbolic_for(self, ex, st, stmt, enumerate_=False):
        if getattr(self, "plain", None) is not None:
            raise Unsupported("iteration over a list of records")
        return loop_over(ex, st, stmt, SeqSource([self], enumerate_))

    def to_list(self, ex, st):
        if getattr(self, "plain", None) is not None:
            raise Unsupported("copy of a list of records")
        return self

    def to_sorted_list(self, ex, st):
        """sorted(L) for a list of DISTINCT indices: a strictly increasing enumeration of the same members (a fresh list object)."""
        if getattr(self, "plain", None) is not None or not self.distinct:
            raise Unsupported("sorted() of a list that may hold repeated entries")
        st.pc.extend(self.facts)
        n = self.length_t
        seq = fresh_const(ex.ctx, "sorted_" + self.name, SEQSORT)
        pos = fresh_const(ex.ctx, "sortedpos_" + self.name, SEQSORT)
        i, j, e = z3.Int("i!q"), z3.Int("j!q"), z3.Int("e!q")
        st.pc.append(z3.ForAll([i], z3.Implies(z3.And(0 <= i, i < n), z3.And(z3.Select(self.mem, z3.Select(seq, i)), z3.Select(pos, z3.Select(seq, i)) == i))))
        st.pc.append(z3.ForAll([e], z3.Implies(z3.Select(self.mem, e), z3.And(0 <= z3.Select(pos, e), z3.Select(pos, e) < n, z3.Select(seq, z3.Select(pos, e)) == e))))
        st.pc.append(z3.ForAll([i, j], z3.Implies(z3.And(0 <= i, i < j, j < n), z3.Select(seq, i) < z3.Select(seq, j))))
        q = SSeq(ex.ctx, self.name + "_sorted")
        q.length_t = n
        q.elems = seq
        q.mem = self.mem
        q.distinct = True
        return q


# ----------------------------------------------------------------------------
# iteration sources
# ----------------------------------------------------------------------------


class SetSource:
    """for x in S   /   for i, x in enumerate(S)"""

    def __init__(self, s, enum):
        self.s = s
        self.enum = enum
        self.colls = [s]

    def bind(self, ex, st):
        ctx = ex.ctx
        x = fresh_const(ctx, "x", I)
        if not self.enum:
            return [x], z3.Select(self.s.mem, x), x, [x]
        i = fresh_const(ctx, "i", I)
        dom = z3.And(0 <= i, i < self.s.card(), x == z3.Select(self.s.seq, i), z3.Select(self.s.mem, x),
                     z3.Select(self.s.pos, x) == i)
        return [i, x], dom, (i, x), [i, x]

    def pre_facts(self):
        return self.s.order_axioms() if self.enum else []

    def element_is_distinct_key(self):
        return True

    def injective(self, consts, item):
        """Is `item` an injective function of the iteration (distinct iterations give distinct items)?"""
        return any(item.eq(c) for c in consts)


class SeqSource:
    """for a in L / for (a, b) in zip(L1, L2) / enumerate(L): index based."""

    def __init__(self, seqs, enum):
        self.seqs = seqs
        self.enum = enum
        self.colls = list(seqs)

    def bind(self, ex, st):
        ctx = ex.ctx
        if len(self.seqs) == 1 and not self.enum and self.seqs[0].distinct is True:
            # element-based view is exact for a duplicate-free list when positions are not observed
            x = fresh_const(ctx, "x", I)
            return [x], z3.Select(self.seqs[0].mem, x), x, [x]
        j = fresh_const(ctx, "j", I)
        vals = [z3.Select(q.elems, j) for q in self.seqs]
        n = self.seqs[0].length_t
        dom = z3.And(0 <= j, j < n)
        for q in self.seqs[1:]:
            # zip truncates at the shorter; VOPy's zipped lists are appended in lock step
            dom = z3.And(dom, j < q.length_t)
        tgt = tuple(vals) if len(vals) > 1 else vals[0]
        if self.enum:
            tgt = (j, tgt)
        return [j], dom, tgt, [j]

    def pre_facts(self):
        if len(self.seqs) == 1 and not self.enum and self.seqs[0].distinct is True:
            return []
        out = []
        for q in self.seqs:
            out.extend(q.facts)
        return out

    def element_is_distinct_key(self):
        return len(self.seqs) == 1 and self.seqs[0].distinct is True

    def injective(self, consts, item):
        if any(item.eq(c) for c in consts):
            return len(consts) == 1 and (z3.is_int(consts[0])) and (self.element_is_distinct_key() or True) if False else self._inj(consts, item)
        return self._inj(consts, item)

    def _inj(self, consts, item):
        c = consts[0]
        if len(self.seqs) == 1 and not self.enum and self.seqs[0].distinct is True and item.eq(c):
            return True  # element-based view of a duplicate-free list
        if item.eq(c):
            return True  # the position itself
        for q in self.seqs:
            if q.distinct is True and item.eq(z3.Select(q.elems, c)):
                return True
        return False


def zip_for(ex, st, stmt, parts):
    seqs = []
    for p in parts:
        if isinstance(p, SSeq):
            seqs.append(p)
        else:
            raise Unsupported("zip over %r" % (p,))
    return loop_over(ex, st, stmt, SeqSource(seqs, False))


# ----------------------------------------------------------------------------
# the loop summariser
# ----------------------------------------------------------------------------


def _assigned_names(stmts):
    names = set()
    for s in stmts:
        for n in ast.walk(s):
            if isinstance(n, ast.Name) and isinstance(n.ctx, ast.Store):
                names.add(n.id)
    return names


def _mentions(expr, consts):
    ids = set(c.get_id() for c in consts)
    seen = set()
    stack = [expr]
    while stack:
        e = stack.pop()
        if e.get_id() in seen:
            continue
        seen.add(e.get_id())
        if e.get_id() in ids:
            return True
        if z3.is_quantifier(e):
            stack.append(e.body())
        else:
            stack.extend(e.children())
    return False


def _used_consts(expr, consts):
    ids = {c.get_id(): c for c in consts}
    out = {}
    seen = set()
    stack = [expr]
    while stack:
        e = stack.pop()
        if e.get_id() in seen:
            continue
        seen.add(e.get_id())
        if e.get_id() in ids:
            out[e.get_id()] = ids[e.get_id()]
        if z3.is_quantifier(e):
            stack.append(e.body())
        else:
            stack.extend(e.children())
    return list(out.values())


def _exists(consts, body):
    cs = _used_consts(body, consts)
    return z3.Exists(cs, body) if cs else body


def _forall(consts, body):
    cs = _used_consts(body, consts)
    return z3.ForAll(cs, body) if cs else body


def find_coll(st, oid):
    """Locate the live SSet/SSeq with this oid in a state."""
    seen = set()
    found = []

    def walk(v):
        if isinstance(v, (SSet, SSeq)):
            if v.oid == oid:
                found.append(v)
            return
        if isinstance(v, SObj):
            if id(v) in seen:
                return
            seen.add(id(v))
            for x in v.fields.values():
                walk(x)
        elif isinstance(v, (list, tuple)):
            for x in v:
                walk(x)
        elif isinstance(v, dict):
            for x in v.values():
                walk(x)

    for fr in st.frames:
        f = fr
        while f is not None:
            walk(f.locals)
            if found:
                return found[0]
            f = f.parent
    walk(st.roots)
    walk(st.tmp)
    return found[0] if found else None


def all_colls(st):
    seen = set()
    out = {}

    def walk(v):
        if isinstance(v, (SSet, SSeq)):
            out[v.oid] = v
            return
        if isinstance(v, SObj):
            if id(v) in seen:
                return
            seen.add(id(v))
            for x in v.fields.values():
                walk(x)
        elif isinstance(v, (list, tuple)):
            for x in v:
                walk(x)
        elif isinstance(v, dict):
            for x in v.values():
                walk(x)

    for fr in st.frames:
        f = fr
        while f is not None:
            walk(f.locals)
            f = f.parent
    walk(st.roots)
    walk(st.tmp)
    return out


def _all_objs(st):
    seen, out = set(), []

    def walk(v):
        if isinstance(v, SObj):
            if id(v) in seen:
                return
            seen.add(id(v))
            out.append(v)
            for x in v.fields.values():
                walk(x)
        elif isinstance(v, (list, tuple)):
            for x in v:
                walk(x)
        elif isinstance(v, dict):
            for x in v.values():
                walk(x)
    for fr in st.frames:
        f = fr
        while f is not None:
            walk(f.locals)
            f = f.parent
    walk(st.roots)
    return out


def _merge_const(cond, val, old):
    if isinstance(val, bool) and (isinstance(old, bool) or (isz(old) and z3.is_bool(old))):
        return z3.If(cond, z3.BoolVal(val), V.Bz(old))
    if isinstance(val, int) and (isinstance(old, int) or (isz(old) and z3.is_int(old))):
        return z3.If(cond, z3.IntVal(val), V.Z(old))
    raise Unsupported("attribute set inside a loop: cannot merge %r with %r" % (val, old))


def loop_over(ex, st, stmt, src):
    sx = _sx()
    ctx = ex.ctx
    NORMAL, BREAK, CONTINUE = sx.NORMAL, sx.BREAK, sx.CONTINUE
    st.pc.extend(src.pre_facts())
    body_names = _assigned_names(stmt.body) | _assigned_names([stmt.target])
    for c in src.colls:
        c.iterating += 1

    # ---- generic iteration from the real entry state (discovery run) ----------------------------
    s0 = st.clone()
    fresh_mark = len(ctx.fresh_log)
    consts, dom, tgt, keyc = src.bind(ex, s0)
    s0.pc.append(dom)
    npc = len(s0.pc)
    # loop-local temporaries must not be carried across iterations
    for nme in body_names:
        if nme in s0.frame.locals:
            s0.frame.locals[nme] = POISON
    s0.log = []
    for s1 in ex.assign_target_paths(stmt.target, tgt, s0):
        pass
    ex.depth += 1
    prev_assume = ctx.assume_implicit
    ctx.assume_implicit = False  # path conditions of the generic iteration must be the code's own branch conditions
    try:
        gpaths = ex.exec_block(stmt.body, s0)
    finally:
        ex.depth -= 1
        ctx.assume_implicit = prev_assume
    _cid = set(c.get_id() for c in consts)
    local_consts = [c for c in ctx.fresh_log[fresh_mark:] if c.get_id() not in _cid]

    next_paths, exit_paths = [], []
    for s, o in gpaths:
        eff = [e for e in s.log if e[0] in ("sset", "sseq")]
        other = [e for e in s.log if e[0] in ("field", "arr", "list")]
        cond = z3.And(dom, *s.pc[npc:])
        rec = {"st": s, "o": o, "eff": eff, "other": other, "cond": cond, "bare": z3.And(*s.pc[npc:]) if len(s.pc) > npc else z3.BoolVal(True)}
        if o is NORMAL or o is CONTINUE:
            next_paths.append(rec)
        else:
            exit_paths.append(rec)

    for c in src.colls:
        c.iterating -= 1
    # the iterated collection itself must not be mutated inside the loop (checked by .iterating in method())

    # a non-exit path may also set an attribute to a CONSTANT that does not depend on the element (a latch set inside
    # the loop): after the loop the attribute is that constant iff at least one iteration took such a path
    const_sets = {}
    for r in next_paths:
        keep = []
        for e_ in r["other"]:
            if e_[0] == "field":
                objs = [o for o in _all_objs(r["st"]) if o.oid == e_[1]]
                val = objs[0].fields.get(e_[2]) if objs else None
                if objs and (val is None or isinstance(val, (bool, int, str))):
                    const_sets.setdefault((e_[1], e_[2]), []).append((r, val))
                    continue
            keep.append(e_)
        r["other"] = keep
    has_acc = any(r["eff"] or r["other"] for r in next_paths)
    out = []
    if not has_acc:
        # ---------------- search loop --------------------------------------------------------
        exit_cond = z3.Or(*[r["cond"] for r in exit_paths]) if exit_paths else z3.BoolVal(False)
        # exhausted: no element can take an exit path.  cond mentions the loop constants and path-local
        # witnesses (inner loops): quantify all of them.
        if exit_paths:
            allc = consts + local_consts
            st.pc.append(_forall(allc, z3.Not(exit_cond)))
        # exhausted: every iteration took a non-exit path, so a name that no non-exit path assigns keeps its pre-loop
        # value (e.g. a flag set just before `break`); names assigned on a non-exit path are loop-local temporaries
        assigned_on_next = set(n for n in body_names for r in next_paths if r["st"].frame.locals.get(n, POISON) is not POISON)
        assigned_on_next |= _assigned_names([stmt.target])
        for r in exit_paths:
            for nme in body_names - assigned_on_next:
                # on an exit path such a name still holds its pre-loop value unless this iteration assigned it
                if r["st"].frame.locals.get(nme) is POISON and nme in st.frame.locals:
                    v0 = st.frame.locals[nme]
                    if v0 is None or isinstance(v0, (bool, int, str)) or z3.is_expr(v0):
                        r["st"].frame.locals[nme] = v0
        for nme in body_names:
            if nme in assigned_on_next or nme not in st.frame.locals:
                st.frame.locals[nme] = POISON
        for (oid, fname), lst in const_sets.items():
            vals = set(v for _, v in lst)
            if len(vals) != 1:
                raise Unsupported("attribute set to different constants inside a loop")
            val = vals.pop()
            took = _exists(consts + local_consts, z3.Or(*[r["cond"] for r, _ in lst]))
            for holder, paths_ in ((st, None),):
                for o in _all_objs(st):
                    if o.oid == oid:
                        o.fields[fname] = _merge_const(took, val, o.fields.get(fname))
            # exit paths: some earlier iteration may or may not have set it (over-approximation: either)
            for r in exit_paths:
                for o in _all_objs(r["st"]):
                    if o.oid == oid:
                        maybe = fresh_const(ctx, "maybe_set_unknown", z3.BoolSort())
                        o.fields[fname] = _merge_const(maybe, val, o.fields.get(fname))
        st.log.append(("loop",))
        base_log = list(st.log)
        if stmt.orelse:
            out.extend(ex.exec_block(stmt.orelse, st))
        else:
            out.append((st, NORMAL))
        for r in exit_paths:
            s = r["st"]
            o = r["o"]
            s.log = base_log + r["eff"] + r["other"]
            for c in all_colls(s).values():
                c.iterating = max(0, c.iterating - 0)
            if o is BREAK:
                out.append((s, NORMAL))
            else:
                out.append((s, o))
        _fix_iterating(out, src)
        return out

    # ---------------- accumulate loop ------------------------------------------------------------
    if exit_paths:
        # exits together with accumulation: only `raise`-free loops are summarised
        raise Unsupported("loop with both accumulation and early exit at %s" % ex.where(stmt, st))
    for r in next_paths:
        if r["other"]:
            raise Unsupported("loop body writes non-accumulator state on a non-exit path at %s" % ex.where(stmt, st))
    # group effects per collection
    touched = {}
    for r in next_paths:
        for e in r["eff"]:
            touched.setdefault(e[1], []).append((r, e))
    # independence: conditions / items must not read the accumulators.  Re-run with havocked accumulators
    # is replaced by a syntactic check on the discovery run: the accumulators' own symbolic contents must
    # not occur in any condition or item.
    acc_syms = []
    live = all_colls(st)
    for oid in touched:
        c = live.get(oid)
        if c is None:
            raise Unsupported("accumulator created inside the loop body")
        for t in ([c.mem] if isinstance(c, SSet) else [c.mem, c.elems, c.length_t]):
            acc_syms.extend(_leaf_consts(t))
    for r in next_paths:
        if acc_syms and _mentions(r["bare"], acc_syms):
            raise Unsupported("loop condition reads an accumulator at %s" % ex.where(stmt, st))

    allc = consts + local_consts
    groups = {}
    for oid, lst in touched.items():
        c = live[oid]
        if isinstance(c, SSet):
            kinds = set(e[2] for _, e in lst)
            if kinds <= {"add"}:
                v = z3.Int("v!q")
                disj = []
                for r, e in lst:
                    disj.append(_exists(allc, z3.And(r["cond"], e[3] == v)))
                newmem = fresh_const(ctx, c.name + "_acc", SETSORT)
                st.pc.append(z3.ForAll([v], z3.Select(newmem, v) == z3.Or(z3.Select(c.mem, v), *disj)))
                c.mem = newmem
                c.new_order(ctx)
            elif kinds <= {"remove", "discard"}:
                # only removal of the loop element itself
                for r, e in lst:
                    if len(keyc) != 1 or not e[3].eq(keyc[0]) or len(consts) != 1:
                        raise Unsupported("set removal of something other than the loop element")
                if not src.element_is_distinct_key():
                    raise Unsupported("removal loop over a list that may contain duplicates")
                x = consts[0]
                conds = z3.Or(*[r["cond"] for r, e in lst])
                # obligation: every removed element is a member (KeyError otherwise); elements are distinct
                if "remove" in kinds:
                    ex.ctx.cur_state = st
                    ex.ctx.obligation("no-raise:KeyError(set.remove)", z3.ForAll([x], z3.Implies(_exists(local_consts, conds), z3.Select(c.mem, x))))
                v = z3.Int("v!q")
                gone = z3.substitute(_exists(local_consts, conds), (x, v))
                newmem = fresh_const(ctx, c.name + "_rem", SETSORT)
                st.pc.append(z3.ForAll([v], z3.Select(newmem, v) == z3.And(z3.Select(c.mem, v), z3.Not(gone))))
                c.mem = newmem
                c.new_order(ctx)
            else:
                raise Unsupported("set both grown and shrunk in one loop")
        else:
            # SSeq appends.  All appends of one path form a row (lock-step lists keep their alignment).
            pass
    # sequences: process per path so that lock-step appends share one witness
    seq_oids = [oid for oid in touched if isinstance(live[oid], SSeq)]
    if seq_oids:
        # rows: for each path, the list of (oid, item) appended in that path
        rows = []
        for r in next_paths:
            items = [(e[1], e[3]) for e in r["eff"] if e[0] == "sseq"]
            if items:
                per = {}
                for oid, it in items:
                    if oid in per:
                        raise Unsupported("two appends to the same list in one iteration")
                    per[oid] = it
                rows.append((r, per))
        counts = set(tuple(sorted(per.keys())) for _, per in rows)
        if len(counts) != 1:
            raise Unsupported("lists appended on different paths are not in lock step")
        j = z3.Int("j!q")
        v = z3.Int("v!q")
        old = {oid: (live[oid].length_t, live[oid].elems, live[oid].mem, live[oid].distinct) for oid in seq_oids}
        newlen = {}
        grow = fresh_const(ctx, "grow", I)
        st.pc.append(grow >= 0)
        for oid in seq_oids:
            c = live[oid]
            c.elems_old, c.len_old = c.elems, c.length_t
            c.elems = fresh_const(ctx, c.name + "_e", SEQSORT)
            c.length_t = c.len_old + grow
            newmem = fresh_const(ctx, c.name + "_m", SETSORT)
            disj = [_exists(allc, z3.And(r["cond"], per[oid] == v)) for r, per in rows]
            st.pc.append(z3.ForAll([v], z3.Select(newmem, v) == z3.Or(z3.Select(c.mem, v), *disj)))
            # prefix kept; set view is exactly the elements (index-level facts are added to the path
            # condition only when positions of this list are observed later: zip / enumerate / indexing)
            c.lazy = [z3.ForAll([j], z3.Implies(z3.And(0 <= j, j < c.len_old), z3.Select(c.elems, j) == z3.Select(c.elems_old, j))),
                      z3.ForAll([j], z3.Implies(z3.And(0 <= j, j < c.length_t), z3.Select(newmem, z3.Select(c.elems, j))))]
            # distinctness: empty before, item is the (distinct) loop element
            was_empty = V.conc(c.len_old) == 0
            c.distinct = bool(was_empty and all(src.injective(consts, per[oid]) for _, per in rows))
            c.mem = newmem
        # row alignment: every new position j has ONE witness serving all lists of the group
        first = live[seq_oids[0]]
        row_disj = []
        for r, per in rows:
            row_disj.append(_exists(allc, z3.And(r["cond"], *[z3.Select(live[oid].elems, j) == per[oid] for oid in seq_oids])))
        fact = z3.ForAll([j], z3.Implies(z3.And(first.len_old <= j, j < first.length_t), z3.Or(*row_disj)))
        lazy_all = [fact]
        # completeness: every selected generic element occurs at some new position
        for r, per in rows:
            jj = z3.Int("jj!q")
            body = z3.Implies(r["cond"], z3.Exists([jj], z3.And(first.len_old <= jj, jj < first.length_t,
                                                                   *[z3.Select(live[oid].elems, jj) == per[oid] for oid in seq_oids])))
            lazy_all.append(_forall(allc, body))
        for oid in seq_oids:
            live[oid].facts = list(getattr(live[oid], "lazy", [])) + lazy_all
    for nme in body_names:
        st.frame.locals[nme] = POISON
    st.log.append(("loop",))
    if stmt.orelse:
        out.extend(ex.exec_block(stmt.orelse, st))
    else:
        out.append((st, NORMAL))
    _fix_iterating(out, src)
    return out


def _fix_iterating(out, src):
    oids = [c.oid for c in src.colls]
    for s, _ in out:
        live = all_colls(s)
        for oid in oids:
            c = live.get(oid)
            if c is not None:
                c.iterating = 0


def _leaf_consts(t):
    out = []
    seen = set()
    stack = [t]
    while stack:
        e = stack.pop()
        if e.get_id() in seen:
            continue
        seen.add(e.get_id())
        if z3.is_const(e) and e.decl().kind() == z3.Z3_OP_UNINTERPRETED:
            out.append(e)
        stack.extend(e.children())
    return out


# ----------------------------------------------------------------------------
# maps from design index to opaque per-design objects (confidence_regions[pt], points[pt])
# ----------------------------------------------------------------------------


class IndexMap:
    """`confidence_regions`: element i is the opaque region term fn(i)."""

    def __init__(self, fn, kind, n, attrs=None):
        self.fn = fn
        self.kind = kind
        self.n = n  # z3 Int: number of designs
        self.attrs = attrs

    def getitem(self, ex, st, idx):
        if getattr(self, "plain", None) is not None:
            if isinstance(idx, int) and -len(self.plain) <= idx < len(self.plain):
                return self.plain[idx]
            raise Unsupported("symbolic index into a list of records")
        i = V.Z(idx)
        ex.ctx.obligation("no-raise:IndexError", z3.And(i >= 0, i < self.n))
        t = self.fn(i)
        return Opaque(self.kind, t, self.attrs(t) if self.attrs else None)

    def length(self, ex, st):
        return self.n

    def clone(self, memo):
        return self
