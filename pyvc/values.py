"""Symbolic values of the PYVC engine.

Scalars: Python int/bool stay concrete while they can (shapes, indices, loop
bounds); every real-valued quantity is a z3 Real term (assumption A-FP: IEEE
floats are treated as mathematical reals, NaN/inf do not exist).  Float
literals are read as the decimal rationals written in the source.
"""
import itertools
from fractions import Fraction

import z3

_counter = itertools.count()


def fresh_id():
    return next(_counter)


class Unsupported(Exception):
    """Construct outside the verified subset -> exit 2 (undecided), never a violation."""


class EngineError(Exception):
    """The checker itself is broken -> exit 3."""


# ----------------------------------------------------------------------------
# scalar helpers
# ----------------------------------------------------------------------------


def isz(x):
    return isinstance(x, z3.ExprRef)


def is_bool(x):
    return isinstance(x, bool) or (isz(x) and z3.is_bool(x))


def is_int(x):
    return (isinstance(x, int) and not isinstance(x, bool)) or (isz(x) and z3.is_int(x))


def is_real(x):
    return isinstance(x, Fraction) or (isz(x) and z3.is_real(x))


def is_num(x):
    return isinstance(x, (int, Fraction)) or (isz(x) and z3.is_arith(x)) or type(x).__name__ == "NanReal"


def frac_of_float(f):
    """The rational a float literal denotes when read as decimal text (A-FP)."""
    if isinstance(f, int):
        return Fraction(f)
    r = repr(float(f))
    if r in ("inf", "-inf", "nan"):
        raise Unsupported("non-finite float constant " + r)
    return Fraction(r)


def R(x):
    """To a z3 Real term."""
    if type(x).__name__ == "NanReal":
        return x.v
    if isz(x):
        if z3.is_real(x):
            return x
        if z3.is_int(x):
            return z3.ToReal(x)
        if z3.is_bool(x):
            return z3.If(x, z3.RealVal(1), z3.RealVal(0))
        raise EngineError("cannot coerce %r to Real" % (x,))
    if isinstance(x, bool):
        return z3.RealVal(1 if x else 0)
    if isinstance(x, int):
        return z3.RealVal(x)
    if isinstance(x, Fraction):
        return z3.RealVal(str(x.numerator) + "/" + str(x.denominator))
    if isinstance(x, float):
        return R(frac_of_float(x))
    raise EngineError("cannot coerce %r to Real" % (x,))


def Z(x):
    """To a z3 term of its natural sort."""
    if isz(x):
        return x
    if isinstance(x, bool):
        return z3.BoolVal(x)
    if isinstance(x, int):
        return z3.IntVal(x)
    if isinstance(x, (Fraction, float)):
        return R(x)
    raise EngineError("cannot convert %r to z3" % (x,))


def Bz(x):
    """To a z3 Bool (Python truthiness of a scalar)."""
    if isinstance(x, bool):
        return z3.BoolVal(x)
    if isz(x):
        if z3.is_bool(x):
            return x
        if z3.is_arith(x):
            return x != 0
    if isinstance(x, (int, Fraction)):
        return z3.BoolVal(x != 0)
    if x is None:
        return z3.BoolVal(False)
    raise EngineError("cannot take truth of %r" % (x,))


def conc(x):
    """Concrete Python value of a scalar if it has one, else None."""
    if isinstance(x, (bool, int, Fraction)):
        return x
    if isinstance(x, float):
        return frac_of_float(x)
    if isz(x):
        s = z3.simplify(x)
        if z3.is_true(s):
            return True
        if z3.is_false(s):
            return False
        if z3.is_int_value(s):
            return s.as_long()
        if z3.is_rational_value(s):
            return Fraction(s.numerator_as_long(), s.denominator_as_long())
    return None


IEEE_DIV = [False]  # when on: x/0 on symbolic reals is IEEE (0/0 = nan: every comparison False; a/0 = inf: unspecified)


class NanReal:
    """A real that is NaN under `nan` (all comparisons False) and +-inf under `inf` (comparisons unspecified)."""

    def __init__(self, v, nan, inf):
        self.v, self.nan, self.inf = v, nan, inf

    def __repr__(self):
        return "NanReal(%s)" % (self.v,)


def _nr(x):
    if isinstance(x, NanReal):
        return x
    return NanReal(R(x) if not isinstance(x, (int, Fraction)) else R(x), z3.BoolVal(False), z3.BoolVal(False))


def _nr_arith(op, a, b):
    a, b = _nr(a), _nr(b)
    v = {"add": lambda x, y: x + y, "sub": lambda x, y: x - y, "mul": lambda x, y: x * y, "div": lambda x, y: x / y}[op](a.v, b.v)
    nan = z3.Or(a.nan, b.nan)
    inf = z3.Or(a.inf, b.inf)
    if op == "mul":
        # inf * 0 = nan
        nan = z3.Or(nan, z3.And(a.inf, b.v == 0), z3.And(b.inf, a.v == 0))
    if op == "div":
        nan = z3.Or(nan, z3.And(b.v == 0, a.v == 0))
        inf = z3.Or(inf, z3.And(b.v == 0, a.v != 0))
    return NanReal(v, z3.simplify(nan), z3.simplify(inf))


def _nr_cmp(zop, a, b):
    a, b = _nr(a), _nr(b)
    nan = z3.Or(a.nan, b.nan)
    inf = z3.Or(a.inf, b.inf)
    unspec = z3.Bool("infcmp!%d" % fresh_id())
    return z3.And(z3.Not(nan), z3.If(inf, unspec, zop(a.v, b.v)))


def _num2(a, b):
    """Coerce a pair for arithmetic: keep Python ints/Fractions if both concrete."""
    if isinstance(a, float):
        a = frac_of_float(a)
    if isinstance(b, float):
        b = frac_of_float(b)
    if isinstance(a, bool):
        a = int(a)
    if isinstance(b, bool):
        b = int(b)
    if isz(a) and z3.is_bool(a):
        a = z3.If(a, 1, 0)
    if isz(b) and z3.is_bool(b):
        b = z3.If(b, 1, 0)
    return a, b


def _zz(a, b):
    """Both to z3 arithmetic with a common sort."""
    za, zb = Z(a), Z(b)
    if z3.is_real(za) or z3.is_real(zb):
        return R(za), R(zb)
    return za, zb


def add(a, b):
    if isinstance(a, NanReal) or isinstance(b, NanReal):
        return _nr_arith("add", a, b)
    a, b = _num2(a, b)
    if not isz(a) and not isz(b):
        return a + b
    if not isz(b) and b == 0 and (is_real(a) or isinstance(b, int)):
        return a
    if not isz(a) and a == 0 and (is_real(b) or isinstance(a, int)):
        return b
    za, zb = _zz(a, b)
    return za + zb


def sub(a, b):
    if isinstance(a, NanReal) or isinstance(b, NanReal):
        return _nr_arith("sub", a, b)
    a, b = _num2(a, b)
    if not isz(a) and not isz(b):
        return a - b
    if not isz(b) and b == 0 and (is_real(a) or isinstance(b, int)):
        return a
    za, zb = _zz(a, b)
    return za - zb


def mul(a, b):
    if isinstance(a, NanReal) or isinstance(b, NanReal):
        return _nr_arith("mul", a, b)
    a, b = _num2(a, b)
    if not isz(a) and not isz(b):
        return a * b
    # keep products with concrete 0/1 small
    if not isz(a) and a == 0 or not isz(b) and b == 0:
        return 0 if (is_int(a) and is_int(b)) else Fraction(0)
    if not isz(a) and a == 1:
        return b
    if not isz(b) and b == 1:
        return a
    za, zb = _zz(a, b)
    return za * zb


def neg(a):
    if isinstance(a, NanReal):
        return NanReal(-a.v, a.nan, a.inf)
    (a, _) = _num2(a, 0)
    if not isz(a):
        return -a
    return -a


def div(a, b):
    """True division (result is real). Division by zero is the caller's obligation."""
    if isinstance(a, NanReal) or isinstance(b, NanReal):
        return _nr_arith("div", a, b)
    if IEEE_DIV[0] and isz(b) and not isinstance(conc(b), (int, Fraction)):
        return _nr_arith("div", a, b)
    a, b = _num2(a, b)
    if not isz(a) and not isz(b):
        if b == 0:
            return R(a) / R(b)  # unspecified value in z3; obligation raised by caller
        return Fraction(a) / Fraction(b)
    return R(a) / R(b)


def floordiv(a, b):
    a, b = _num2(a, b)
    if not isz(a) and not isz(b) and isinstance(a, int) and isinstance(b, int):
        return a // b
    if is_int(a) and is_int(b):
        return Z(a) / Z(b)  # z3 integer division (floor for positive divisor)
    raise Unsupported("floor division on reals")


def mod(a, b):
    a, b = _num2(a, b)
    if not isz(a) and not isz(b) and isinstance(a, int) and isinstance(b, int):
        return a % b
    if is_int(a) and is_int(b):
        return Z(a) % Z(b)
    raise Unsupported("modulo on reals")


def powr(a, n, ctx=None):
    (a, _) = _num2(a, 0)
    cn = conc(n)
    if cn is None:
        raise Unsupported("symbolic exponent")
    if isinstance(cn, Fraction) and cn.denominator == 1:
        cn = cn.numerator
    if isinstance(cn, int):
        if cn == 0:
            return 1
        if cn < 0:
            return div(1, powr(a, -cn))
        r = a
        for _ in range(cn - 1):
            r = mul(r, a)
        return r
    if cn == Fraction(1, 2):
        from . import libmodel

        return libmodel.sqrt_scalar(a)
    raise Unsupported("exponent %r" % (cn,))


def _cmp(a, b, pyop, zop):
    if isinstance(a, NanReal) or isinstance(b, NanReal):
        return _nr_cmp(zop, a, b)
    a, b = _num2(a, b)
    if not isz(a) and not isz(b):
        if not isinstance(a, (int, Fraction)) or not isinstance(b, (int, Fraction)):
            # Python's own comparison of two engine objects would silently mean identity / nonsense: refuse instead
            raise Unsupported("comparison of non-numeric values %r / %r" % (type(a).__name__, type(b).__name__))
        return pyop(a, b)
    za, zb = _zz(a, b)
    return zop(za, zb)


def lt(a, b):
    return _cmp(a, b, lambda x, y: x < y, lambda x, y: x < y)


def le(a, b):
    return _cmp(a, b, lambda x, y: x <= y, lambda x, y: x <= y)


def gt(a, b):
    return _cmp(a, b, lambda x, y: x > y, lambda x, y: x > y)


def ge(a, b):
    return _cmp(a, b, lambda x, y: x >= y, lambda x, y: x >= y)


def eq(a, b):
    if isinstance(a, (tuple, list)) and isinstance(b, (tuple, list)):
        if len(a) != len(b):
            return False
        r = True
        for x, y in zip(a, b):
            r = land(r, eq(x, y))
        return r
    if is_bool(a) and is_bool(b):
        if not isz(a) and not isz(b):
            return a == b
        return Bz(a) == Bz(b)
    if a is None or b is None:
        return a is b
    if isinstance(a, str) or isinstance(b, str):
        return a == b
    if isinstance(a, Opaque) and isinstance(b, Opaque):
        if a.term.sort() != b.term.sort():
            return False
        return a.term == b.term
    if isinstance(a, Opaque) or isinstance(b, Opaque):
        return False
    return _cmp(a, b, lambda x, y: x == y, lambda x, y: x == y)


def ne(a, b):
    return lnot(eq(a, b))


def lnot(a):
    if isinstance(a, bool):
        return not a
    if isz(a):
        return z3.Not(Bz(a))
    return not bool(a)


def land(a, b):
    if isinstance(a, bool):
        return b if a else False
    if isinstance(b, bool):
        return a if b else False
    return z3.And(Bz(a), Bz(b))


def lor(a, b):
    if isinstance(a, bool):
        return True if a else b
    if isinstance(b, bool):
        return True if b else a
    return z3.Or(Bz(a), Bz(b))


def ite(c, a, b):
    cc = conc(c) if not isinstance(c, bool) else c
    if isinstance(cc, bool):
        return a if cc else b
    if a is b:
        return a
    if is_bool(a) and is_bool(b):
        return z3.If(Bz(c), Bz(a), Bz(b))
    a, b = _num2(a, b)
    za, zb = _zz(a, b)
    return z3.If(Bz(c), za, zb)


def smax(a, b):
    a, b = _num2(a, b)
    if not isz(a) and not isz(b):
        return a if a >= b else b  # python max(a,b) returns a on ties
    return ite(ge(a, b), a, b)


def smin(a, b):
    a, b = _num2(a, b)
    if not isz(a) and not isz(b):
        return a if a <= b else b
    return ite(le(a, b), a, b)


def sabs(a):
    (a, _) = _num2(a, 0)
    if not isz(a):
        return abs(a)
    return ite(ge(a, 0), a, neg(a))


# ----------------------------------------------------------------------------
# structured values
# ----------------------------------------------------------------------------


class Opaque:
    """A value known only through uninterpreted functions (a region, an order, a slack...)."""

    def __init__(self, kind, term, attrs=None):
        self.kind = kind
        self.term = term
        self.attrs = attrs or {}

    def __repr__(self):
        return "Opaque(%s,%s)" % (self.kind, self.term)


class SObj:
    """A Python object: class reference + mutable field dict."""

    def __init__(self, cls, fields=None, tag=None):
        self.cls = cls  # ClassRef (symexec) or a plain string for sidecar-made objects
        self.fields = dict(fields or {})
        self.oid = fresh_id()
        self.tag = tag
        # a contract that hands over an object with an explicit field dict models only those attributes: the object is PARTIAL
        # (an attribute it lacks is "not modelled", not "missing"); objects filled by the real __init__ are complete
        self.partial = bool(fields)

    def __repr__(self):
        return "SObj(%s#%d)" % (getattr(self.cls, "name", self.cls), self.oid)


class UnknownAttr:
    """An attribute of a PARTIAL stub object that the contract does not model (e.g. a bookkeeping list a change introduced
    in __init__).  It can be stored, passed around and have methods called on it (no tracked effect); any use of its VALUE
    (truth, arithmetic, comparison, indexing) is outside the subset."""

    def __init__(self, path):
        self.path = path

    def getattr(self, ex, st, name):
        return UnknownAttr(self.path + "." + name)

    def call(self, ex, st, args, kwargs, node):
        return UnknownAttr(self.path + "()")

    def setattr(self, ex, st, name, v):
        return None

    def clone(self, memo):
        return self

    def __repr__(self):
        return "<unmodelled attribute %s>" % self.path


class PlaceholderStr:
    """Result of an f-string / str(): contents are not tracked (only used for logging)."""

    def __repr__(self):
        return "<str>"


class Abort:
    """Marker returned by expression evaluation when the path ended abruptly."""

    def __init__(self, outcome):
        self.outcome = outcome
