"""Numeric evaluation of quantifier-free z3 formulas with the REAL elementary functions.

z3's counter-model of an obligation that mentions np_log / np_exp / np_sin / np_cos / np_tan interprets those functions freely
(they are only axiomatised by the instances a contract lists), so such a model is not by itself a counterexample.  This
module (i) re-evaluates the obligation at the model's values with math.log etc., and (ii) searches random assignments of the
free constants for one where every assumption holds and the goal fails.  A hit is a genuine failing input of the obligation;
no hit means the counter-model stays unconfirmed (-> undecided, never a violation)."""
import math
import random

import z3

FREE_UFS = {"np_log", "np_exp", "np_sin", "np_cos", "np_tan"}
_FUN = {"np_log": math.log, "np_exp": math.exp, "np_sin": math.sin, "np_cos": math.cos, "np_tan": math.tan, "np_sqrt": math.sqrt}


class NoEval(Exception):
    pass


def mentions_free_uf(formulas):
    seen, stack = set(), list(formulas)
    while stack:
        e = stack.pop()
        if not z3.is_expr(e) or e.get_id() in seen:
            continue
        seen.add(e.get_id())
        if z3.is_quantifier(e):
            stack.append(e.body())
            continue
        if z3.is_app(e) and e.decl().kind() == z3.Z3_OP_UNINTERPRETED and e.num_args() > 0 and e.decl().name() in FREE_UFS:
            return True
        stack.extend(e.children())
    return False


def free_consts(formulas):
    out, seen, stack = {}, set(), list(formulas)
    while stack:
        e = stack.pop()
        if not z3.is_expr(e) or e.get_id() in seen:
            continue
        seen.add(e.get_id())
        if z3.is_quantifier(e):
            raise NoEval("quantifier")
        if z3.is_const(e) and e.decl().kind() == z3.Z3_OP_UNINTERPRETED:
            out[e.decl().name()] = e
        stack.extend(e.children())
    return out


def ev(e, env, cache):
    k = e.get_id()
    if k in cache:
        return cache[k]
    r = _ev(e, env, cache)
    cache[k] = r
    return r


def _ev(e, env, cache):
    if z3.is_quantifier(e):
        raise NoEval("quantifier")
    if z3.is_int_value(e):
        return e.as_long()
    if z3.is_rational_value(e):
        return e.numerator_as_long() / e.denominator_as_long()
    if z3.is_algebraic_value(e):
        return float(e.approx(20).as_decimal(20).rstrip("?"))
    if z3.is_true(e):
        return True
    if z3.is_false(e):
        return False
    d = e.decl()
    kind = d.kind()
    ch = e.children()
    if kind == z3.Z3_OP_UNINTERPRETED:
        name = d.name()
        if not ch:
            if name == "pi":
                return math.pi
            if name in env:
                return env[name]
            raise NoEval("free constant " + name)
        if name in _FUN and len(ch) == 1:
            x = ev(ch[0], env, cache)
            try:
                return _FUN[name](x)
            except (ValueError, OverflowError):
                raise NoEval("domain")
        raise NoEval("uninterpreted function " + name)
    a = [ev(c, env, cache) for c in ch] if kind not in (z3.Z3_OP_ITE, z3.Z3_OP_AND, z3.Z3_OP_OR, z3.Z3_OP_IMPLIES) else None
    if kind == z3.Z3_OP_AND:
        return all(ev(c, env, cache) for c in ch)
    if kind == z3.Z3_OP_OR:
        return any(ev(c, env, cache) for c in ch)
    if kind == z3.Z3_OP_IMPLIES:
        return (not ev(ch[0], env, cache)) or ev(ch[1], env, cache)
    if kind == z3.Z3_OP_ITE:
        return ev(ch[1], env, cache) if ev(ch[0], env, cache) else ev(ch[2], env, cache)
    if kind == z3.Z3_OP_NOT:
        return not a[0]
    if kind == z3.Z3_OP_ADD:
        return sum(a)
    if kind == z3.Z3_OP_MUL:
        r = 1
        for x in a:
            r *= x
        return r
    if kind == z3.Z3_OP_SUB:
        r = a[0]
        for x in a[1:]:
            r -= x
        return r
    if kind == z3.Z3_OP_UMINUS:
        return -a[0]
    if kind in (z3.Z3_OP_DIV, z3.Z3_OP_IDIV):
        if a[1] == 0:
            raise NoEval("division by zero")
        return a[0] / a[1] if kind == z3.Z3_OP_DIV else a[0] // a[1]
    if kind == z3.Z3_OP_MOD:
        if a[1] == 0:
            raise NoEval("mod zero")
        return a[0] % a[1]
    if kind == z3.Z3_OP_POWER:
        try:
            return a[0] ** a[1]
        except (OverflowError, ZeroDivisionError, ValueError):
            raise NoEval("power")
    if kind == z3.Z3_OP_TO_REAL:
        return float(a[0])
    if kind == z3.Z3_OP_TO_INT:
        return math.floor(a[0])
    # comparisons are LENIENT (hold when true up to rounding): assumptions are then accepted generously and a goal counts as
    # failing only if it fails by more than rounding
    tol = lambda x, y: 1e-12 * (1 + abs(x) + abs(y))
    if kind == z3.Z3_OP_LE:
        return a[0] <= a[1] + tol(a[0], a[1])
    if kind == z3.Z3_OP_GE:
        return a[0] >= a[1] - tol(a[0], a[1])
    if kind == z3.Z3_OP_LT:
        return a[0] < a[1] + tol(a[0], a[1])
    if kind == z3.Z3_OP_GT:
        return a[0] > a[1] - tol(a[0], a[1])
    if kind == z3.Z3_OP_EQ:
        if isinstance(a[0], bool) or isinstance(a[1], bool):
            return bool(a[0]) == bool(a[1])
        return abs(a[0] - a[1]) <= tol(a[0], a[1])
    if kind == z3.Z3_OP_DISTINCT:
        return len(set(a)) == len(a)
    raise NoEval("operator " + d.name())


def _model_env(model, consts):
    env = {}
    for name, c in consts.items():
        v = model.eval(c, model_completion=True)
        if z3.is_int_value(v):
            env[name] = v.as_long()
        elif z3.is_rational_value(v):
            env[name] = v.numerator_as_long() / v.denominator_as_long()
        elif z3.is_true(v) or z3.is_false(v):
            env[name] = z3.is_true(v)
        elif z3.is_algebraic_value(v):
            env[name] = float(v.approx(20).as_decimal(20).rstrip("?"))
        else:
            raise NoEval("model value of " + name)
    return env


def _sample(c, rng):
    if z3.is_bool(c):
        return rng.random() < 0.5
    if z3.is_int(c):
        r = rng.random()
        if r < 0.5:
            return rng.randint(1, 12)
        if r < 0.8:
            return rng.randint(1, 2000)
        if r < 0.9:
            return 10 ** rng.randint(1, 7)
        return rng.randint(-3, 3)
    r = rng.random()
    if r < 0.3:
        return rng.random()
    if r < 0.6:
        return 10 ** rng.uniform(-4, 4)
    if r < 0.75:
        return rng.uniform(0, 50)
    if r < 0.85:
        return float(rng.randint(0, 5))
    return -(10 ** rng.uniform(-3, 2))


def refute(assumptions, goal, model, tries=6000, seed=0):
    """Returns ("confirmed", env) when a failing input with the real functions is found, ("spurious", None) when none of the
    sampled assignments (the model's own first) refutes the obligation, ("n/a", reason) when the formulas cannot be evaluated."""
    try:
        consts = free_consts(list(assumptions) + [goal])
        consts.pop("pi", None)
    except NoEval as e:
        return "n/a", str(e)
    rng = random.Random(seed)
    envs = []
    if model is not None:
        try:
            envs.append(_model_env(model, consts))
        except NoEval:
            pass
    evaluable = 0
    for i in range(tries + len(envs)):
        env = envs[i] if i < len(envs) else {n: _sample(c, rng) for n, c in consts.items()}
        cache = {}
        try:
            if not all(ev(a, env, cache) for a in assumptions):
                continue
            evaluable += 1
            if not ev(goal, env, cache):
                return "confirmed", env
        except NoEval as e:
            if str(e).startswith(("uninterpreted function", "quantifier", "operator")):
                return "n/a", str(e)
            continue
        except (OverflowError, ZeroDivisionError, ValueError):
            continue
    return "spurious", {"assignments_satisfying_the_assumptions": evaluable}


# ----------------------------------------------------------------------------------------------------
# solver-assisted search: fix the INPUTS, let the solver find the dependent values, pin log/exp/trig to their real values
# ----------------------------------------------------------------------------------------------------


def uf_apps(formulas):
    out, seen, stack = [], set(), list(formulas)
    while stack:
        e = stack.pop()
        if not z3.is_expr(e) or e.get_id() in seen:
            continue
        seen.add(e.get_id())
        if z3.is_quantifier(e):
            raise NoEval("quantifier")
        if z3.is_app(e) and e.decl().kind() == z3.Z3_OP_UNINTERPRETED and e.num_args() == 1 and e.decl().name() in FREE_UFS:
            out.append(e)
        stack.extend(e.children())
    return out


def _num(v):
    if z3.is_int_value(v):
        return float(v.as_long())
    if z3.is_rational_value(v):
        return v.numerator_as_long() / v.denominator_as_long()
    if z3.is_algebraic_value(v):
        return float(v.approx(20).as_decimal(20).rstrip("?"))
    raise NoEval("model value")


def _rv(x):
    from fractions import Fraction
    f = Fraction(x)
    return z3.RealVal(f.numerator) / z3.RealVal(f.denominator)


def _pin(app, argv):
    """A constraint that pins app = f(arg) to the real function's value in a small neighbourhood of arg = argv, and the
    tolerance within which a model value counts as consistent; None when argv is outside the function's domain."""
    f = _FUN[app.decl().name()]
    w = 1e-10 * max(1.0, abs(argv))
    try:
        mid, lo, hi = f(argv), f(argv - w), f(argv + w)
    except (ValueError, OverflowError):
        return None, None, None
    slack = abs(hi - lo) + 1e-10 * max(1.0, abs(mid))
    arg = app.arg(0)
    c = z3.Implies(z3.And(arg >= _rv(argv - w), arg <= _rv(argv + w)), z3.And(app >= _rv(mid - slack), app <= _rv(mid + slack)))
    return c, mid, 2 * slack


def refute_by_solving(assumptions, goal, model, inputs, budget_ms=4000, samples=6, rounds=6, seed=0):
    """inputs: the z3 constants that are the task's declared inputs.  For the model's input values (first) and for sampled
    ones: fix the inputs, solve assumptions & not goal, compare every log/exp/trig application of the model with the real
    function at the model's argument, pin it there, solve again ... until the model is consistent with the real functions
    (-> ("confirmed", model)) or the candidate is exhausted.  ("spurious", n) when no candidate yields a consistent model."""
    try:
        apps = uf_apps(list(assumptions) + [goal])
        consts = free_consts(list(assumptions) + [goal])
    except NoEval as e:
        return "n/a", str(e)
    inputs = [c for c in inputs if c.decl().name() in consts]
    rng = random.Random(seed)
    cands = []
    if model is not None:
        cands.append([(c, model.eval(c, model_completion=True)) for c in inputs])
    for _ in range(samples):
        cand = []
        for c in inputs:
            v = _sample(c, rng)
            cand.append((c, z3.BoolVal(v) if z3.is_bool(c) else z3.IntVal(v) if z3.is_int(c) else _rv(v)))
        cands.append(cand)
    tried = 0
    for cand in cands:
        s = z3.Solver()
        s.set("timeout", budget_ms)
        s.add(*assumptions)
        s.add(z3.Not(goal))
        if "pi" in consts:
            s.add(consts["pi"] >= _rv(math.pi - 1e-12), consts["pi"] <= _rv(math.pi + 1e-12))
        for c, v in cand:
            s.add(c == v)
        for _ in range(rounds):
            if s.check() != z3.sat:
                break
            m = s.model()
            tried += 1
            consistent = True
            try:
                for app in apps:
                    argv = _num(m.eval(app.arg(0), model_completion=True))
                    appv = _num(m.eval(app, model_completion=True))
                    c, real, tol_ = _pin(app, argv)
                    if c is None:
                        consistent = False      # outside the function's domain: not a clean counterexample
                        continue
                    if abs(appv - real) > tol_:
                        consistent = False
                    s.add(c)
            except NoEval:
                break
            if consistent:
                # final word: the obligation must also fail when everything is re-computed in floating point with the real
                # functions and rounding-tolerant comparisons (a goal that holds with equality must not fail by the pin width)
                try:
                    env = _model_env(m, {k: v for k, v in consts.items() if k != "pi"})
                    cache = {}
                    if all(ev(a, env, cache) for a in assumptions) and not ev(goal, env, cache):
                        return "confirmed", m
                except (NoEval, OverflowError, ZeroDivisionError, ValueError):
                    pass
                break
    return "spurious", {"assignments_satisfying_the_assumptions": tried}
