"""Library model: numpy (on arrays of concrete shape whose elements are z3 terms),
itertools, a few scipy entries.  Every entry is an ASSUMED contract of the
library (listed in the evidence `trusted_base` by name when it is used) and is
exercised against the real library by the engine/CPython agreement test.

Arrays are numpy *object* arrays owned by the checker process (python3-vt's own
numpy does the shape, broadcasting, slicing and view/aliasing bookkeeping, so
basic slices are real views of the same buffer exactly as in the code under
test); the elements are Python ints / Fractions / z3 terms.
"""
import itertools
from fractions import Fraction

import numpy as _np
import z3

from . import values as V
from .values import Unsupported, EngineError, isz

CUR = None  # the active Ctx (set by symexec.Ctx.__enter__)


def ctx():
    if CUR is None:
        raise EngineError("no active context")
    return CUR


def used(name):
    if CUR is not None:
        CUR.lib_used.add(name)


# ----------------------------------------------------------------------------
# SArr
# ----------------------------------------------------------------------------


class SArr:
    """ndarray of concrete shape.  kind: 'f' real, 'i' int, 'b' bool, 'O' objects."""

    __slots__ = ("a", "kind", "origin")

    def __init__(self, a, kind, origin=None):
        if not isinstance(a, _np.ndarray) or a.dtype != object:
            raise EngineError("SArr needs an object ndarray")
        self.a = a
        self.kind = kind
        self.origin = origin  # name of the parameter whose buffer this may alias (frame checks)

    @property
    def shape(self):
        return self.a.shape

    @property
    def ndim(self):
        return self.a.ndim

    @property
    def size(self):
        return self.a.size

    def flat(self):
        return list(self.a.reshape(-1))

    def __repr__(self):
        return "SArr%s%s" % (self.kind, self.a.shape)

    def view(self, a):
        if self.origin == "torch":
            return SArr(a, self.kind, "torch")
        return SArr(a, self.kind, self.origin if _np.shares_memory(a, self.a) else None)


def mk(flat, shape, kind):
    a = _np.empty(len(flat), dtype=object)
    for i, v in enumerate(flat):
        a[i] = v
    return SArr(a.reshape(shape), kind)


def scalar0(v, kind):
    a = _np.empty((), dtype=object)
    a[()] = v
    return SArr(a, kind)


def kind_of_scalar(v):
    if V.is_bool(v):
        return "b"
    if V.is_int(v):
        return "i"
    if V.is_num(v):
        return "f"
    return "O"


def join_kind(k1, k2):
    order = {"b": 0, "i": 1, "f": 2, "O": 3}
    return k1 if order[k1] >= order[k2] else k2


def fresh_array(name, shape, kind="f"):
    n = 1
    for s in shape:
        n *= s
    mkc = {"f": z3.Real, "i": z3.Int, "b": z3.Bool}[kind]
    idxs = list(itertools.product(*[range(s) for s in shape])) if shape else [()]
    flat = [mkc(name + "".join("_%d" % i for i in ix)) for ix in idxs]
    return mk(flat, shape, kind)


def as_arr(v):
    """np.asarray on a value (nested lists/tuples/scalars/SArr) -> SArr (no copy for SArr)."""
    if isinstance(v, SArr):
        return v
    if isinstance(v, (list, tuple)):
        if len(v) == 0:
            return mk([], (0,), "f")
        subs = [as_arr(x) for x in v]
        shp = subs[0].shape
        for s in subs:
            if s.shape != shp:
                raise Unsupported("ragged array construction")
        kind = subs[0].kind
        for s in subs[1:]:
            kind = join_kind(kind, s.kind)
        flat = []
        for s in subs:
            flat.extend(s.flat())
        return mk(flat, (len(subs),) + shp, kind)
    if V.is_num(v) or V.is_bool(v):
        return scalar0(v, kind_of_scalar(v))
    if isinstance(v, float):
        return scalar0(V.frac_of_float(v), "f")
    return scalar0(v, "O")


def to_kind(v, kind):
    """Element coercion when stored into an array of the given kind."""
    if type(v).__name__ == "NanReal":
        return v
    if kind == "f":
        if isinstance(v, bool):
            return Fraction(int(v))
        if isinstance(v, int):
            return Fraction(v)
        if isz(v) and not z3.is_real(v):
            return V.R(v)
        if isinstance(v, float):
            return V.frac_of_float(v)
    if kind == "i":
        # storing a non-integer into an integer array truncates toward zero (numpy's unsafe same-kind cast on assignment)
        if isinstance(v, bool):
            return int(v)
        if isinstance(v, float):
            v = V.frac_of_float(v)
        if isinstance(v, Fraction):
            import math
            return int(math.trunc(v))
        if isz(v) and z3.is_real(v):
            return trunc_scalar(v)
    return v


def trunc_scalar(v):
    """Integer part of a real (toward zero): fresh integer k with k <= v < k+1 (v >= 0) or k-1 < v <= k (v < 0)."""
    c = V.conc(v)
    if c is not None:
        import math
        return int(math.trunc(c))
    sv = z3.simplify(v)
    if z3.is_app(sv) and sv.decl().kind() == z3.Z3_OP_TO_REAL:
        return sv.arg(0)
    used("integer dtype: a real stored into an integer array is truncated toward zero")
    k = z3.Int("trunc!%d" % V.fresh_id())
    vr = V.R(v)
    ctx().fact(z3.If(vr >= 0, z3.And(z3.ToReal(k) <= vr, vr < z3.ToReal(k) + 1),
                     z3.And(z3.ToReal(k) >= vr, vr > z3.ToReal(k) - 1)))
    return k


def elementwise(f, *arrs, kind=None):
    """Broadcasting elementwise application of a scalar function."""
    ars = [as_arr(x) for x in arrs]
    try:
        bc = _np.broadcast_arrays(*[x.a for x in ars])
    except ValueError as e:
        raise ShapeError(str(e))
    shape = bc[0].shape
    flats = [b.reshape(-1) for b in bc]
    out = [f(*[fl[i] for fl in flats]) for i in range(flats[0].size)] if flats[0].size else []
    if kind is None:
        kind = ars[0].kind
        for x in ars[1:]:
            kind = join_kind(kind, x.kind)
    return mk(out, shape, kind)


class ShapeError(Exception):
    """numpy would raise ValueError (shape mismatch). Becomes a no-raise obligation failure."""


def unwrap0(x):
    """numpy returns scalars (not 0-d arrays) from arithmetic on 0-d operands only when all
    operands are scalars; we keep 0-d SArr as arrays, as numpy does for np.array(1.0)*2 -> np.float64.
    For our purposes a 0-d SArr and a scalar behave alike in every place VOPy uses them."""
    return x


# ----------------------------------------------------------------------------
# arithmetic on values (scalars or arrays)
# ----------------------------------------------------------------------------

_BIN = {
    "add": (V.add, None),
    "sub": (V.sub, None),
    "mul": (V.mul, None),
    "div": (V.div, "f"),
    "floordiv": (V.floordiv, None),
    "mod": (V.mod, None),
    "lt": (V.lt, "b"),
    "le": (V.le, "b"),
    "gt": (V.gt, "b"),
    "ge": (V.ge, "b"),
    "eq": (V.eq, "b"),
    "ne": (V.ne, "b"),
    "and": (V.land, "b"),
    "or": (V.lor, "b"),
    "max": (V.smax, None),
    "min": (V.smin, None),
}


def binop(op, a, b):
    f, kind = _BIN[op]
    if isinstance(a, SArr) or isinstance(b, SArr):
        if op == "pow":
            raise EngineError("use power()")
        return elementwise(f, a, b, kind=kind)
    return f(a, b)


def power(a, n):
    if isinstance(a, SArr):
        if isinstance(n, SArr):
            raise Unsupported("array exponent")
        return elementwise(lambda x: V.powr(x, n), a, kind="f" if a.kind != "i" else "i")
    return V.powr(a, n)


def unary(op, a):
    f = {"neg": V.neg, "not": V.lnot, "abs": V.sabs, "pos": lambda x: x}[op]
    if isinstance(a, SArr):
        return elementwise(f, a, kind="b" if op == "not" else a.kind)
    return f(a)


def matmul(a, b):
    a, b = as_arr(a), as_arr(b)
    if a.ndim == 0 or b.ndim == 0:
        raise ShapeError("matmul on 0-d")
    A, Bm = a.a, b.a
    a1 = A.ndim == 1
    b1 = Bm.ndim == 1
    if a1:
        A = A.reshape(1, -1)
    if b1:
        Bm = Bm.reshape(-1, 1)
    if A.ndim > 2 or Bm.ndim > 2:
        raise Unsupported("batched matmul")
    if A.shape[1] != Bm.shape[0]:
        raise ShapeError("matmul: %s @ %s" % (a.shape, b.shape))
    n, k = A.shape
    m = Bm.shape[1]
    out = []
    for i in range(n):
        for j in range(m):
            acc = Fraction(0) if (a.kind == "f" or b.kind == "f") else 0
            first = True
            for t in range(k):
                p = V.mul(A[i, t], Bm[t, j])
                if first:
                    acc = p
                    first = False
                else:
                    acc = V.add(acc, p)
            out.append(acc)
    res = mk(out, (n, m), join_kind(a.kind, b.kind))
    if a1 and b1:
        return res.a[0, 0]
    if a1:
        return SArr(res.a.reshape(m), res.kind)
    if b1:
        return SArr(res.a.reshape(n), res.kind)
    return res


# ----------------------------------------------------------------------------
# uninterpreted maths
# ----------------------------------------------------------------------------

_SQRT = z3.Function("np_sqrt", z3.RealSort(), z3.RealSort())
LOG = z3.Function("np_log", z3.RealSort(), z3.RealSort())
EXP = z3.Function("np_exp", z3.RealSort(), z3.RealSort())
SIN = z3.Function("np_sin", z3.RealSort(), z3.RealSort())
COS = z3.Function("np_cos", z3.RealSort(), z3.RealSort())
TAN = z3.Function("np_tan", z3.RealSort(), z3.RealSort())
PI = z3.Real("pi")


def sqrt_scalar(x):
    """np.sqrt / math.sqrt: y >= 0 and y*y == x.  Domain x >= 0 is an obligation (A-FP has no NaN)."""
    c = V.conc(x)
    if c is not None and not isinstance(c, bool):
        c = Fraction(c)
        if c >= 0:
            from math import isqrt

            n, d = c.numerator, c.denominator
            if isqrt(n) ** 2 == n and isqrt(d) ** 2 == d:
                return Fraction(isqrt(n), isqrt(d))
    used("numpy.sqrt: y>=0 and y*y==x for x>=0")
    xr = V.R(x)
    ctx().obligation("sqrt-domain", xr >= 0)
    y = _SQRT(xr)
    ctx().fact(z3.And(y >= 0, y * y == xr))
    return y


def log_scalar(x):
    used("numpy.log: uninterpreted; axioms only where a lemma names them")
    xr = V.R(x)
    ctx().obligation("log-domain", xr > 0)
    return LOG(xr)


def exp_scalar(x):
    used("numpy.exp: uninterpreted positive function")
    y = EXP(V.R(x))
    ctx().fact(y > 0)
    return y


def trig_scalar(fn, x):
    used("numpy.%s: uninterpreted; identities only where a lemma names them" % fn)
    return {"sin": SIN, "cos": COS, "tan": TAN}[fn](V.R(x))


def ceil_scalar(x):
    used("numpy.ceil: least integer >= x")
    c = V.conc(x)
    if c is not None:
        import math

        return math.ceil(c)
    xr = V.R(x)
    k = z3.Int("ceil!%d" % V.fresh_id())
    ctx().fact(z3.And(z3.ToReal(k) >= xr, z3.ToReal(k) < xr + 1))
    return k


def map_scalar_or_arr(f, x, kind="f"):
    if isinstance(x, SArr):
        return elementwise(f, x, kind=kind)
    return f(x)


# ----------------------------------------------------------------------------
# reductions
# ----------------------------------------------------------------------------


def _axis_norm(axis, ndim):
    if axis is None:
        return None
    if isinstance(axis, (tuple, list)):
        return tuple(a % ndim for a in axis)
    if not isinstance(axis, int):
        raise Unsupported("symbolic axis")
    if axis < -ndim or axis >= ndim:
        raise ShapeError("axis out of range")
    return axis % ndim


def reduce(x, f, init, axis=None, kind=None, empty_ok=True):
    x = as_arr(x)
    kind = kind or x.kind
    ax = _axis_norm(axis, x.ndim)
    if ax is None:
        fl = x.flat()
        if not fl:
            if not empty_ok:
                raise ShapeError("reduction of empty array")
            return init
        acc = fl[0] if init is None else f(init, fl[0])
        for v in fl[1:]:
            acc = f(acc, v)
        return acc
    if isinstance(ax, tuple):
        r = x
        for a in sorted(ax, reverse=True):
            r = reduce(r, f, init, axis=a, kind=kind, empty_ok=empty_ok)
            r = as_arr(r)
        return r
    moved = _np.moveaxis(x.a, ax, -1)
    oshape = moved.shape[:-1]
    n = moved.shape[-1]
    if n == 0 and not empty_ok:
        raise ShapeError("reduction of empty axis")
    cnt = 1
    for s in oshape:
        cnt *= s
    flat2 = moved.reshape(cnt, n)
    out = []
    for i in range(cnt):
        row = list(flat2[i]) if n else []
        if not row:
            out.append(init)
            continue
        acc = row[0] if init is None else f(init, row[0])
        for v in row[1:]:
            acc = f(acc, v)
        out.append(acc)
    return mk(out, oshape, kind)


def np_sum(x, axis=None):
    x = as_arr(x)
    if x.kind == "b":
        x = elementwise(lambda v: V.ite(v, 1, 0), x, kind="i")
    zero = Fraction(0) if x.kind == "f" else 0
    return reduce(x, V.add, zero, axis)


def np_all(x, axis=None):
    x = as_arr(x)
    xb = elementwise(V.Bz if False else (lambda v: v if V.is_bool(v) else V.ne(v, 0)), x, kind="b")
    return reduce(xb, V.land, True, axis, kind="b")


def np_any(x, axis=None):
    x = as_arr(x)
    xb = elementwise(lambda v: v if V.is_bool(v) else V.ne(v, 0), x, kind="b")
    return reduce(xb, V.lor, False, axis, kind="b")


def np_min(x, axis=None):
    return reduce(x, V.smin, None, axis, empty_ok=False)


def np_max(x, axis=None):
    return reduce(x, V.smax, None, axis, empty_ok=False)


def np_mean(x, axis=None):
    x = as_arr(x)
    s = np_sum(x, axis)
    ax = _axis_norm(axis, x.ndim)
    if ax is None:
        n = x.size
    elif isinstance(ax, tuple):
        n = 1
        for a in ax:
            n *= x.shape[a]
    else:
        n = x.shape[ax]
    if n == 0:
        used("numpy.mean of empty: unspecified (nan)")
        raise Unsupported("mean of empty axis")
    return binop("div", s, n)


def np_var(x, axis=None, ddof=0):
    x = as_arr(x)
    used("numpy.var: mean of squared deviations from the mean (ddof as given)")
    ax = _axis_norm(axis, x.ndim)
    if ax is None:
        n = x.size
        mu = np_mean(x)
        d = binop("sub", x, mu)
        s = np_sum(binop("mul", d, d))
    else:
        n = x.shape[ax]
        mu = np_mean(x, axis=ax)
        mu_e = SArr(_np.expand_dims(as_arr(mu).a, ax), "f")
        d = binop("sub", x, mu_e)
        s = np_sum(binop("mul", d, d), axis=ax)
    if n - ddof <= 0:
        raise Unsupported("variance with no degrees of freedom")
    return binop("div", s, n - ddof)


def np_argext(x, axis, better):
    """argmax/argmin: FIRST extremal index (numpy contract)."""
    x = as_arr(x)
    used("numpy.argmax/argmin: first extremal index")
    if axis is not None:
        ax = _axis_norm(axis, x.ndim)
        moved = _np.moveaxis(x.a, ax, -1)
        oshape = moved.shape[:-1]
        n = moved.shape[-1]
        flat2 = moved.reshape(-1, n)
        out = [_argext_row(list(flat2[i]), better) for i in range(flat2.shape[0])]
        return mk(out, oshape, "i")
    return _argext_row(x.flat(), better)


def _argext_row(row, better):
    if not row:
        raise ShapeError("attempt to get argmax of an empty sequence")
    best_i, best_v = 0, row[0]
    for i in range(1, len(row)):
        c = better(row[i], best_v)  # strictly better -> new index
        best_i = V.ite(c, i, best_i)
        best_v = V.ite(c, row[i], best_v)
    return best_i


def norm(x, axis=None):
    x = as_arr(x)
    used("numpy.linalg.norm: sqrt of the sum of squares")
    if x.ndim > 1 and axis is None:
        # Frobenius
        pass
    sq = np_sum(binop("mul", x, x), axis)
    return map_scalar_or_arr(sqrt_scalar, sq)


# ----------------------------------------------------------------------------
# structural
# ----------------------------------------------------------------------------


def idx_apply(arr, index):
    """arr[index] for a concrete index (ints, slices, None, Ellipsis, int lists / int SArr,
    concrete bool masks).  Basic indexing returns a view (shared buffer)."""
    try:
        sub = arr.a[index]
    except IndexError as e:
        raise IndexOOB(str(e))
    if isinstance(sub, _np.ndarray):
        return arr.view(sub)
    return sub


class IndexOOB(Exception):
    pass


def concat(arrs, axis=0):
    ars = [as_arr(x) for x in arrs]
    if not ars:
        raise ShapeError("need at least one array to concatenate")
    kind = ars[0].kind
    for x in ars[1:]:
        kind = join_kind(kind, x.kind)
    try:
        r = _np.concatenate([x.a for x in ars], axis=axis)
    except ValueError as e:
        raise ShapeError(str(e))
    r = r.copy()
    out = SArr(r, kind)
    if kind == "f":
        out = coerce_kind(out, "f")
    return out


def coerce_kind(x, kind):
    fl = [to_kind(v, kind) for v in x.flat()]
    return mk(fl, x.shape, kind)


def stack(arrs, axis=0):
    ars = [as_arr(x) for x in arrs]
    if not ars:
        raise ShapeError("need at least one array to stack")
    kind = ars[0].kind
    for x in ars[1:]:
        kind = join_kind(kind, x.kind)
    try:
        r = _np.stack([x.a for x in ars], axis=axis)
    except ValueError as e:
        raise ShapeError(str(e))
    return SArr(r.copy(), kind)


def vstack(arrs):
    ars = [as_arr(x) for x in arrs]
    ars = [x if x.ndim >= 2 else SArr(x.a.reshape(1, -1), x.kind) for x in ars]
    return concat(ars, axis=0)


def hstack(arrs):
    ars = [as_arr(x) for x in arrs]
    ars = [x if x.ndim >= 1 else SArr(x.a.reshape(1), x.kind) for x in ars]
    if ars and ars[0].ndim == 1:
        return concat(ars, axis=0)
    return concat(ars, axis=1)


def const_array(shape, value, kind):
    if isinstance(shape, int):
        shape = (shape,)
    shape = tuple(shape)
    n = 1
    for s in shape:
        if not isinstance(s, int):
            raise Unsupported("symbolic array shape")
        n *= s
    return mk([value] * n, shape, kind)


def eye(n, kind="f"):
    one, zero = (Fraction(1), Fraction(0)) if kind == "f" else (1, 0)
    return mk([one if i == j else zero for i in range(n) for j in range(n)], (n, n), kind)


def copy(x):
    return SArr(x.a.copy(), x.kind)


# ----------------------------------------------------------------------------
# guarded arrays: a stack of rows each of which is present only under a condition
# ----------------------------------------------------------------------------


class GArr:
    """Array whose leading axis has a SYMBOLIC length: a concrete list of candidate rows, row i being present
    iff its guard holds (rows keep their relative order).  Produced when two branches of an `if` differ only
    by rows appended to an array (state merging); consumed by `for row in ...` and np.vstack."""

    def __init__(self, rows, row_shape, kind="f"):
        self.rows = list(rows)  # [(guard, SArr of row_shape)]
        self.row_shape = tuple(row_shape)
        self.kind = kind

    def clone(self, memo):
        from .symexec import clone_val

        return GArr([(g, clone_val(r, memo)) for g, r in self.rows], self.row_shape, self.kind)

    @staticmethod
    def of(x):
        if isinstance(x, GArr):
            return x
        x = as_arr(x)
        return GArr([(True, SArr(x.a[i].copy() if isinstance(x.a[i], _np.ndarray) else _np.array(x.a[i], dtype=object), x.kind)) for i in range(x.shape[0])],
                    x.shape[1:], x.kind)

    def __repr__(self):
        return "GArr(%d rows of %s)" % (len(self.rows), self.row_shape)


class GList:
    """Python list whose tail items are present only under a guard (state merging of branches that differ by
    appended items).  Consumed by np.concatenate / np.vstack (-> guarded array) and by `for`."""

    def __init__(self, items):
        self.items = list(items)  # [(guard, value)]

    def clone(self, memo):
        from .symexec import clone_val

        return GList([(g, clone_val(v, memo)) for g, v in self.items])

    @staticmethod
    def of(x):
        return x if isinstance(x, GList) else GList([(True, v) for v in x])

    def getattr(self, ex, st, name):
        from . import symexec

        if name == "append":
            return symexec.BoundLib(self, name)
        raise Unsupported("attribute %s of a guarded list" % name)

    def method(self, ex, st, name, args):
        if name == "append":
            self.items.append((True, args[0]))
            return None
        raise Unsupported("method %s of a guarded list" % name)

    def as_garr(self):
        rows, rshape, kind = [], None, "f"
        for g, v in self.items:
            ga = GArr.of(v)
            if rshape is None or ga.rows:
                rshape = ga.row_shape
            rows.extend((V.land(g, rg), r) for rg, r in ga.rows)
        return GArr(rows, rshape, kind)

    def __repr__(self):
        return "GList(%d items)" % len(self.items)


def same_elems(a, b):
    fa, fb = a.flat(), b.flat()
    if len(fa) != len(fb):
        return False
    for x, y in zip(fa, fb):
        if x is y:
            continue
        if isz(x) and isz(y) and x.eq(y):
            continue
        if not isz(x) and not isz(y) and type(x) == type(y) and x == y:
            continue
        return False
    return True
