"""Dispatch of library calls, builtins, array attributes/indexing for the executor."""
import ast
import itertools
from fractions import Fraction

import numpy as _np
import z3

from . import libmodel as L
from . import values as V
from .libmodel import SArr
from .values import Abort, EngineError, Opaque, PlaceholderStr, SObj, Unsupported, isz

# external module roots that are known (attribute chains under them become LibRef's)
LIB_MODULE_PREFIXES = ("numpy", "cvxpy", "scipy", "itertools", "torch", "gpytorch", "sklearn", "botorch",
                       "random", "typing", "abc", "os", "importlib", "matplotlib", "logging")


def _sx():
    from . import symexec

    return symexec


def lib_attr(ex, ref, name):
    sx = _sx()
    dotted = ref.dotted + "." + name
    if dotted == "numpy.pi":
        L.used("numpy.pi: real constant with 3.1415926535 < pi < 3.1415926536")
        ex.ctx.fact(z3.And(L.PI > z3.RealVal("31415926535/10000000000"), L.PI < z3.RealVal("31415926536/10000000000")))
        return L.PI
    if dotted == "numpy.inf":
        return INF
    if dotted in ("numpy.float64", "numpy.int32", "numpy.int64", "numpy.ndarray", "numpy.newaxis"):
        if dotted == "numpy.newaxis":
            return None
        return sx.LibRef(dotted)
    return sx.LibRef(dotted)


class _Inf:
    """np.inf: only comparisons against finite reals are supported."""

    def compare(self, ex, st, name, a, b):
        if a is self and b is self:
            return name in ("eq", "le", "ge")
        if b is self:  # x ? inf
            return name in ("lt", "le", "ne")
        return name in ("gt", "ge", "ne")

    def __repr__(self):
        return "inf"


INF = _Inf()


# ----------------------------------------------------------------------------
# array attributes / methods
# ----------------------------------------------------------------------------


def arr_attr(ex, st, arr, name):
    sx = _sx()
    if name == "shape":
        return tuple(arr.shape)
    if name == "ndim":
        return arr.ndim
    if name == "size":
        return arr.size
    if name == "T":
        return arr.view(arr.a.T)
    if name == "dtype":
        return {"f": "float64", "i": "int64", "b": "bool", "O": "object"}[arr.kind]
    if name == "real":
        return arr          # A-FP: values are reals
    if name == "imag":
        return L.mk([Fraction(0)] * arr.size, arr.shape, "f")
    if name == "value" and hasattr(arr, "problem"):
        from . import cvxmodel

        if arr.problem is None or arr.problem.solved is None:
            return None
        return cvxmodel.CvxValue(arr.problem.solved["feas"])
    return sx.BoundLib(arr, name)


def scalar_attr(ex, st, v, name):
    sx = _sx()
    if name in ("size",):
        return 1
    if name == "ndim":
        return 0
    if name == "shape":
        return ()
    return sx.BoundLib(v, name)


def _conc_index(idx):
    """Translate an evaluated index into something numpy accepts; symbolic parts -> None."""
    sx = _sx()
    if isinstance(idx, tuple):
        parts = [_conc_index(i) for i in idx]
        if any(p is _SYM for p in parts):
            return _SYM
        return tuple(parts)
    if isinstance(idx, sx.SliceVal):
        try:
            return idx.to_slice()
        except Unsupported:
            return _SYM
    if idx is None or idx is Ellipsis:
        return idx
    if isinstance(idx, bool):
        return idx
    if isinstance(idx, int):
        return idx
    if isinstance(idx, SArr):
        if idx.kind == "b":
            vals = [V.conc(x) if not isinstance(x, bool) else x for x in idx.flat()]
            if any(not isinstance(v, bool) for v in vals):
                return _SYM
            return _np.array(vals, dtype=bool).reshape(idx.shape)
        vals = [V.conc(x) if not isinstance(x, int) else x for x in idx.flat()]
        if any(not isinstance(v, int) or isinstance(v, bool) for v in vals):
            return _SYM
        return _np.array(vals, dtype=int).reshape(idx.shape)
    if isinstance(idx, list):
        vals = [V.conc(x) if not isinstance(x, int) else x for x in idx]
        if any(not isinstance(v, int) for v in vals):
            return _SYM
        return list(vals)
    c = V.conc(idx)
    if isinstance(c, int) and not isinstance(c, bool):
        return c
    return _SYM


_SYM = object()


class NeedConcreteMask(Exception):
    """A boolean mask with symbolic entries is used to select: the executor forks on every entry."""

    def __init__(self, mask):
        self.mask = mask


def arr_getitem(ex, st, arr, idx):
    sx = _sx()
    ci = _conc_index(idx)
    if ci is not _SYM:
        try:
            return L.idx_apply(arr, ci)
        except L.IndexOOB:
            ex.ctx.obligation("no-raise:IndexError", False)
            raise sx.PathDead("index")
    # symbolic integer index on the leading axis (possibly inside a tuple with concrete rest)
    if isz(idx) and z3.is_int(idx):
        n = arr.shape[0] if arr.ndim >= 1 else 0
        if arr.ndim == 0:
            ex.ctx.obligation("no-raise:IndexError", False)
            raise sx.PathDead("index 0-d")
        ex.ctx.obligation("no-raise:IndexError", z3.And(idx >= -n, idx < n))
        rows = [L.idx_apply(arr, i) for i in range(n)]
        return ex.select_chain([r if not isinstance(r, SArr) else L.copy(r) for r in rows], idx)
    if isinstance(idx, tuple) and len(idx) >= 2 and all(isinstance(c, SArr) and c.kind == "i" and c.ndim == 1 for c in idx) \
            and len(set(c.shape[0] for c in idx)) == 1:
        # pairwise fancy indexing arr[a, b]: element k is arr[a_k, b_k]
        n = idx[0].shape[0]
        items = [arr_getitem(ex, st, arr, tuple(c.flat()[k] for c in idx)) for k in range(n)]
        if items and isinstance(items[0], SArr):
            return L.stack(items, 0)
        return L.mk(items, (n,), arr.kind)
    if isinstance(idx, tuple) and len(idx) >= 1:
        # select chain over every symbolic integer component, left to right
        for pos, comp in enumerate(idx):
            if isz(comp) and z3.is_int(comp):
                axis_len = arr.shape[pos]
                ex.ctx.obligation("no-raise:IndexError", z3.And(comp >= -axis_len, comp < axis_len))
                alts = []
                for i in range(axis_len):
                    sub = idx[:pos] + (i,) + idx[pos + 1:]
                    alts.append(arr_getitem(ex, st, arr, sub))
                alts = [a if not isinstance(a, SArr) else L.copy(a) for a in alts]
                return ex.select_chain(alts, comp)
    if isinstance(idx, SArr) and idx.kind == "b":
        raise NeedConcreteMask(idx)
    if isinstance(idx, SArr) and idx.kind == "i" and idx.ndim == 1:
        rows = [arr_getitem(ex, st, arr, e) for e in idx.flat()]
        return L.stack([L.as_arr(r) for r in rows], 0) if rows else L.mk([], (0,) + arr.shape[1:], arr.kind)
    raise Unsupported("array index %r" % (idx,))


def arr_setitem(ex, st, arr, idx, v):
    sx = _sx()
    ci = _conc_index(idx)
    if ci is not _SYM:
        try:
            tgt = arr.a[ci]
        except IndexError:
            ex.ctx.obligation("no-raise:IndexError", False)
            raise sx.PathDead("index")
        if isinstance(tgt, _np.ndarray):
            val = L.as_arr(v)
            try:
                bc = _np.broadcast_to(val.a, tgt.shape)
            except ValueError:
                ex.ctx.obligation("no-raise:shape", False)
                raise sx.PathDead("shape")
            flat = [L.to_kind(x, arr.kind) for x in bc.reshape(-1)]
            arr.a[ci] = L.mk(flat, tgt.shape, arr.kind).a
        else:
            if isinstance(v, SArr):
                if v.size != 1:
                    ex.ctx.obligation("no-raise:ValueError(setting an array element with a sequence)", False)
                    raise sx.PathDead("shape")
                v = v.flat()[0]
            arr.a[ci] = L.to_kind(v, arr.kind)
        return
    if isinstance(idx, SArr) and idx.kind == "b":
        # masked assignment with a symbolic mask: elementwise ITE
        if idx.shape != arr.shape:
            raise Unsupported("mask of different shape")
        val = L.as_arr(v)
        if val.size != 1:
            raise Unsupported("masked assignment of a non-scalar")
        sv = val.flat()[0]
        it = _np.nditer(arr.a, flags=["multi_index", "refs_ok"], op_flags=["readwrite"])
        for pos in itertools.product(*[range(s) for s in arr.shape]):
            arr.a[pos] = L.to_kind(V.ite(idx.a[pos], sv, arr.a[pos]), arr.kind)
        return
    if isz(idx) and z3.is_int(idx) and arr.ndim >= 1:
        n = arr.shape[0]
        ex.ctx.obligation("no-raise:IndexError", z3.And(idx >= -n, idx < n))
        val = L.as_arr(v)
        for i in range(n):
            c = z3.Or(idx == i, idx == i - n)
            tgt = arr.a[i]
            if isinstance(tgt, _np.ndarray):
                bc = _np.broadcast_to(val.a, tgt.shape)
                for pos in itertools.product(*[range(s) for s in tgt.shape]):
                    tgt[pos] = L.to_kind(V.ite(c, bc[pos], tgt[pos]), arr.kind)
            else:
                if val.size != 1:
                    raise Unsupported("store of array into element")
                arr.a[i] = L.to_kind(V.ite(c, val.flat()[0], tgt), arr.kind)
        return
    raise Unsupported("array store index %r" % (idx,))


def _kw(kwargs, name, default=None):
    return kwargs.get(name, default)


def _axis(args, kwargs, pos=1):
    if "axis" in kwargs:
        return kwargs["axis"]
    if len(args) > pos:
        return args[pos]
    return None


def _shape_arg(s):
    if isinstance(s, int):
        return (s,)
    if isinstance(s, (list, tuple)):
        out = []
        for x in s:
            cx = V.conc(x) if not isinstance(x, int) else x
            if not isinstance(cx, int):
                raise Unsupported("symbolic shape")
            out.append(cx)
        return tuple(out)
    c = V.conc(s)
    if isinstance(c, int):
        return (c,)
    raise Unsupported("symbolic shape %r" % (s,))


def _kind_from_dtype(dt, default="f"):
    if dt is None:
        return default
    name = dt if isinstance(dt, str) else getattr(dt, "dotted", None) or getattr(dt, "name", None)
    if name is None:
        sx = _sx()
        if isinstance(dt, sx.Builtin):
            name = dt.name
    name = str(name)
    if "bool" in name:
        return "b"
    if "int" in name:
        return "i"
    if "float" in name:
        return "f"
    if "object" in name:
        return "O"
    raise Unsupported("dtype %r" % (dt,))


def _astype(x, kind):
    if x.kind == kind:
        return L.copy(x)
    if kind == "f":
        return L.coerce_kind(x, "f")
    if kind == "i":
        if x.kind == "b":
            return L.elementwise(lambda v: V.ite(v, 1, 0), x, kind="i")
        out = []
        for v in x.flat():
            c = V.conc(v)
            if c is not None:
                import math
                out.append(int(math.trunc(c)))
            elif isz(v) and z3.is_int(v):
                out.append(v)
            else:
                L.used("astype(int): truncation toward zero")
                k = z3.Int("trunc!%d" % V.fresh_id())
                vr = V.R(v)
                L.ctx().fact(z3.If(vr >= 0, z3.And(z3.ToReal(k) <= vr, vr < z3.ToReal(k) + 1),
                                   z3.And(z3.ToReal(k) >= vr, vr > z3.ToReal(k) - 1)))
                out.append(k)
        return L.mk(out, x.shape, "i")
    if kind == "b":
        return L.elementwise(lambda v: v if V.is_bool(v) else V.ne(v, 0), x, kind="b")
    raise Unsupported("astype " + kind)


# ----------------------------------------------------------------------------
# numpy function table
# ----------------------------------------------------------------------------


def call_lib(ex, st, dotted, args, kwargs, node):
    sx = _sx()
    hk = ex.hooks.get("lib")
    if hk is not None:
        r = hk(ex, st, dotted, args, kwargs, node)
        if r is not NotImplemented:
            return r
    f = NP.get(dotted)
    if f is not None:
        return f(ex, st, args, kwargs)
    if dotted.startswith("numpy."):
        r = concrete_fallback(dotted, args, kwargs)
        if r is not _SYM:
            return r
        r = movement_fallback(dotted, args, kwargs)
        if r is not _SYM:
            return r
    raise Unsupported("library call %s at %s" % (dotted, ex.where(node, st)))


def _to_concrete(v):
    """Value -> plain python/numpy value if it has no symbolic part, else _SYM."""
    if v is None or isinstance(v, (bool, int, str)):
        return v
    if isinstance(v, Fraction):
        return float(v)
    if isinstance(v, SArr):
        fl = []
        for x in v.flat():
            c = V.conc(x) if not isinstance(x, (int, bool)) else x
            if c is None:
                return _SYM
            fl.append(c)
        if v.kind == "i":
            return _np.array([int(x) for x in fl], dtype=int).reshape(v.shape)
        if v.kind == "b":
            return _np.array([bool(x) for x in fl], dtype=bool).reshape(v.shape)
        return _np.array([float(x) for x in fl], dtype=float).reshape(v.shape)
    if isinstance(v, (list, tuple)):
        out = [_to_concrete(x) for x in v]
        if any(x is _SYM for x in out):
            return _SYM
        return type(v)(out)
    sx = _sx()
    if isinstance(v, sx.Builtin) and v.name in ("int", "float", "bool"):
        return {"int": int, "float": float, "bool": bool}[v.name]
    if isinstance(v, sx.RangeVal) and v.concrete():
        return range(v.lo, v.hi, v.step)
    c = V.conc(v) if isz(v) else None
    if c is not None:
        return float(c) if isinstance(c, Fraction) else c
    return _SYM


def _from_concrete(r):
    if isinstance(r, _np.ndarray):
        if r.dtype == bool:
            return L.mk([bool(x) for x in r.reshape(-1)], r.shape, "b")
        if _np.issubdtype(r.dtype, _np.integer):
            return L.mk([int(x) for x in r.reshape(-1)], r.shape, "i")
        if _np.issubdtype(r.dtype, _np.floating):
            return L.mk([V.frac_of_float(float(x)) for x in r.reshape(-1)], r.shape, "f")
        raise Unsupported("concrete numpy result of dtype %s" % r.dtype)
    if isinstance(r, tuple):
        return tuple(_from_concrete(x) for x in r)
    if isinstance(r, list):
        return [_from_concrete(x) for x in r]
    if isinstance(r, (_np.integer,)):
        return int(r)
    if isinstance(r, (_np.floating, float)):
        return V.frac_of_float(float(r))
    if isinstance(r, (_np.bool_, bool)):
        return bool(r)
    if isinstance(r, int) or r is None:
        return r
    raise Unsupported("concrete numpy result %r" % (r,))


MOVEMENT = {"meshgrid", "take", "flip", "fliplr", "flipud", "roll", "rot90", "swapaxes", "moveaxis", "ravel",
            "broadcast_to", "column_stack", "row_stack", "dstack", "atleast_2d", "atleast_3d", "transpose", "tile",
            "repeat", "take_along_axis", "split", "array_split", "hsplit", "vsplit", "resize", "rollaxis", "block"}


def movement_fallback(dotted, args, kwargs):
    """Pure data-movement numpy functions (whitelist): the checker's numpy is run on arrays of element
    IDENTIFIERS and the symbolic elements are put back in the places the identifiers end up."""
    name = dotted.split(".")[-1]
    if dotted.count(".") != 1 or name not in MOVEMENT:
        return _SYM
    table = []

    def enc(v):
        if isinstance(v, SArr):
            base = len(table)
            fl = v.flat()
            table.extend((x, v.kind) for x in fl)
            return _np.arange(base, base + len(fl), dtype=_np.int64).reshape(v.shape)
        if isinstance(v, (list, tuple)):
            return type(v)(enc(x) for x in v)
        c = _to_concrete(v)
        if c is _SYM:
            raise Unsupported("symbolic non-array argument to numpy.%s" % name)
        return c
    try:
        cargs = [enc(a) for a in args]
        ckw = {k: enc(v) for k, v in kwargs.items()}
        r = getattr(_np, name)(*cargs, **ckw)
    except Unsupported:
        return _SYM
    except Exception as e:
        raise Unsupported("numpy.%s on identifiers failed: %s" % (name, e))

    def dec(x):
        if isinstance(x, _np.ndarray):
            if not _np.issubdtype(x.dtype, _np.integer):
                raise Unsupported("numpy.%s is not pure data movement here" % name)
            fl = [int(i) for i in x.reshape(-1)]
            if any(i < 0 or i >= len(table) for i in fl):
                raise Unsupported("numpy.%s produced values that are not input elements" % name)
            kinds = set(table[i][1] for i in fl)
            kind = "f" if "f" in kinds else (kinds.pop() if kinds else "f")
            return L.mk([table[i][0] for i in fl], x.shape, kind)
        if isinstance(x, (list, tuple)):
            return type(x)(dec(y) for y in x)
        raise Unsupported("numpy.%s result" % name)
    L.used("numpy.%s: pure data movement (evaluated on element identifiers by the checker's numpy)" % name)
    return dec(r)


def concrete_fallback(dotted, args, kwargs):
    """A numpy function outside the model whose arguments are all concrete (index bookkeeping such as
    np.unique / np.fromiter / np.argsort on known integers) is evaluated by the checker's own numpy."""
    cargs = [_to_concrete(a) for a in args]
    ckw = {k: _to_concrete(v) for k, v in kwargs.items()}
    if any(a is _SYM for a in cargs) or any(v is _SYM for v in ckw.values()):
        return _SYM
    f = _np
    for part in dotted.split(".")[1:]:
        f = getattr(f, part, None)
        if f is None:
            return _SYM
    if "random" in dotted:
        return _SYM
    try:
        r = f(*cargs, **ckw)
    except Exception as e:
        raise Unsupported("concrete evaluation of %s failed: %s" % (dotted, e))
    L.used("%s on concrete arguments: evaluated by the checker's numpy" % dotted)
    return _from_concrete(r)


def np_array(ex, st, args, kwargs):
    src = args[0]
    dt = kwargs.get("dtype", args[1] if len(args) > 1 else None)
    a = L.as_arr(src)
    if isinstance(src, SArr):
        a = L.copy(a)
    if dt is not None:
        a = _astype(a, _kind_from_dtype(dt))
    elif a.kind == "f":
        a = L.coerce_kind(a, "f")
    return a


def np_asarray(ex, st, args, kwargs):
    if isinstance(args[0], SArr) and not kwargs and len(args) == 1:
        return args[0]
    return np_array(ex, st, args, kwargs)


def np_zeros(ex, st, args, kwargs):
    kind = _kind_from_dtype(kwargs.get("dtype", args[1] if len(args) > 1 else None))
    shape = _shape_arg(kwargs.get("shape", args[0] if args else None))
    zero = {"f": Fraction(0), "i": 0, "b": False, "O": 0}[kind]
    return L.const_array(shape, zero, kind)


def np_ones(ex, st, args, kwargs):
    kind = _kind_from_dtype(kwargs.get("dtype", args[1] if len(args) > 1 else None))
    shape = _shape_arg(kwargs.get("shape", args[0] if args else None))
    one = {"f": Fraction(1), "i": 1, "b": True, "O": 1}[kind]
    return L.const_array(shape, one, kind)


def np_empty(ex, st, args, kwargs):
    """np.empty: contents are unspecified -> fresh unconstrained values."""
    kind = _kind_from_dtype(kwargs.get("dtype", args[1] if len(args) > 1 else None))
    shape = _shape_arg(kwargs.get("shape", args[0] if args else None))
    L.used("numpy.empty: unspecified contents (fresh values)")
    return L.fresh_array("empty!%d" % V.fresh_id(), shape, kind if kind in "fib" else "f")


def np_empty_like(ex, st, args, kwargs):
    a = L.as_arr(args[0])
    L.used("numpy.empty: unspecified contents (fresh values)")
    return L.fresh_array("empty!%d" % V.fresh_id(), a.shape, a.kind if a.kind in "fib" else "f")


def np_zeros_like(ex, st, args, kwargs):
    a = L.as_arr(args[0])
    zero = {"f": Fraction(0), "i": 0, "b": False, "O": 0}[a.kind]
    return L.const_array(a.shape, zero, a.kind)


def np_full(ex, st, args, kwargs):
    shape = _shape_arg(args[0])
    fv = kwargs.get("fill_value", args[1] if len(args) > 1 else None)
    kind = L.kind_of_scalar(fv)
    return L.const_array(shape, fv, kind)


def np_eye(ex, st, args, kwargs):
    n = V.conc(args[0]) if not isinstance(args[0], int) else args[0]
    if not isinstance(n, int):
        raise Unsupported("symbolic eye")
    r = L.eye(n)
    dt = kwargs.get("dtype")
    if dt is not None:
        r = _astype(r, _kind_from_dtype(dt))
    return r


def np_arange(ex, st, args, kwargs):
    cs = []
    for a in args:
        c = V.conc(a) if not isinstance(a, int) else a
        if not isinstance(c, int):
            raise Unsupported("symbolic arange")
        cs.append(c)
    vals = list(range(*cs))
    return L.mk(vals, (len(vals),), "i")


def _seq_of_arrays(x):
    if isinstance(x, SArr):
        return [L.idx_apply(x, i) for i in range(x.shape[0])]
    if isinstance(x, (list, tuple)):
        return list(x)
    raise Unsupported("sequence of arrays %r" % (x,))


def np_vstack(ex, st, args, kwargs):
    parts = args[0]
    if isinstance(parts, L.GList):
        return parts.as_garr()
    if isinstance(parts, (list, tuple)) and any(isinstance(p, L.GArr) for p in parts):
        rows, rshape, kind = [], None, "f"
        for p in parts:
            g = L.GArr.of(p)
            if g.rows or rshape is None:
                rshape = g.row_shape if rshape is None or g.rows else rshape
            rows.extend(g.rows)
        return L.GArr(rows, rshape, kind)
    return L.vstack(_seq_of_arrays(args[0]))


def np_hstack(ex, st, args, kwargs):
    return L.hstack(_seq_of_arrays(args[0]))


def np_stack(ex, st, args, kwargs):
    return L.stack(_seq_of_arrays(args[0]), axis=_axis(args, kwargs) or 0)


def np_concatenate(ex, st, args, kwargs):
    ax = _axis(args, kwargs)
    if isinstance(args[0], L.GList):
        if ax not in (None, 0) or any(L.GArr.of(v).row_shape == () for _, v in args[0].items):
            raise Unsupported("concatenate of a guarded list along a non-leading axis")
        return args[0].as_garr()
    if isinstance(args[0], (list, tuple)) and any(isinstance(p, L.GArr) for p in args[0]) and ax in (None, 0):
        return np_vstack(ex, st, args, kwargs)
    return L.concat(_seq_of_arrays(args[0]), axis=0 if ax is None else ax)


def np_append(ex, st, args, kwargs):
    a, b = L.as_arr(args[0]), L.as_arr(args[1])
    ax = _axis(args, kwargs, 2)
    if ax is None:
        return L.concat([SArr(a.a.reshape(-1), a.kind), SArr(b.a.reshape(-1), b.kind)], 0)
    return L.concat([a, b], ax)


def np_repeat(ex, st, args, kwargs):
    a = L.as_arr(args[0])
    reps = kwargs.get("repeats", args[1] if len(args) > 1 else None)
    ax = _axis(args, kwargs, 2)
    creps = V.conc(reps) if not isinstance(reps, int) else reps
    if not isinstance(creps, int):
        raise Unsupported("symbolic repeat count")
    return SArr(_np.repeat(a.a, creps, axis=ax).copy(), a.kind)


def np_tile(ex, st, args, kwargs):
    a = L.as_arr(args[0])
    reps = args[1]
    if isinstance(reps, (tuple, list)):
        creps = tuple(r if isinstance(r, int) else V.conc(r) for r in reps)
        if not all(isinstance(r, int) for r in creps):
            raise Unsupported("symbolic tile count")
    else:
        creps = V.conc(reps) if not isinstance(reps, int) else reps
        if not isinstance(creps, int):
            raise Unsupported("symbolic tile count")
    return SArr(_np.tile(a.a, creps).copy(), a.kind)


def np_atleast_1d(ex, st, args, kwargs):
    a = L.as_arr(args[0])
    if a.ndim == 0:
        return a.view(a.a.reshape(1))
    return a


def np_expand_dims(ex, st, args, kwargs):
    a = L.as_arr(args[0])
    ax = _axis(args, kwargs)
    return a.view(_np.expand_dims(a.a, ax))


def np_squeeze(ex, st, args, kwargs):
    a = L.as_arr(args[0])
    ax = _axis(args, kwargs)
    try:
        return a.view(_np.squeeze(a.a, axis=ax))
    except ValueError:
        raise L.ShapeError("squeeze")


def np_reshape(ex, st, args, kwargs):
    a = L.as_arr(args[0])
    shp = args[1]
    return _reshape(a, shp if isinstance(shp, (tuple, list)) else (shp,))


def _reshape(a, shp):
    shp = tuple(V.conc(x) if not isinstance(x, int) else x for x in shp)
    if any(not isinstance(x, int) for x in shp):
        raise Unsupported("symbolic reshape")
    try:
        r = a.a.reshape(shp)
    except ValueError:
        raise L.ShapeError("reshape %s -> %s" % (a.shape, shp))
    return a.view(r)


def np_transpose(ex, st, args, kwargs):
    a = L.as_arr(args[0])
    return a.view(a.a.T)


def np_diag(ex, st, args, kwargs):
    a = L.as_arr(args[0])
    if a.ndim == 2:
        return SArr(_np.diag(a.a).copy(), a.kind)
    if a.ndim == 1:
        n = a.shape[0]
        zero = Fraction(0) if a.kind == "f" else 0
        fl = [a.a[i] if i == j else zero for i in range(n) for j in range(n)]
        return L.mk(fl, (n, n), a.kind)
    raise L.ShapeError("Input must be 1- or 2-d.")


def np_diagonal(ex, st, args, kwargs):
    a = L.as_arr(args[0])
    ax1 = kwargs.get("axis1", 0)
    ax2 = kwargs.get("axis2", 1)
    return SArr(_np.diagonal(a.a, axis1=ax1, axis2=ax2).copy(), a.kind)


def np_sum(ex, st, args, kwargs):
    return L.np_sum(args[0], _axis(args, kwargs))


def np_all(ex, st, args, kwargs):
    if not isinstance(args[0], (SArr, list, tuple)):
        return ex.truth(args[0])
    return L.np_all(args[0], _axis(args, kwargs))


def np_any(ex, st, args, kwargs):
    if not isinstance(args[0], (SArr, list, tuple)):
        return ex.truth(args[0])
    return L.np_any(args[0], _axis(args, kwargs))


def np_min(ex, st, args, kwargs):
    return L.np_min(args[0], _axis(args, kwargs))


def np_max(ex, st, args, kwargs):
    return L.np_max(args[0], _axis(args, kwargs))


def np_mean(ex, st, args, kwargs):
    return L.np_mean(args[0], _axis(args, kwargs))


def np_var(ex, st, args, kwargs):
    return L.np_var(args[0], _axis(args, kwargs), ddof=kwargs.get("ddof", 0))


def np_argmax(ex, st, args, kwargs):
    return L.np_argext(args[0], _axis(args, kwargs), V.gt)


def np_argmin(ex, st, args, kwargs):
    return L.np_argext(args[0], _axis(args, kwargs), V.lt)


def _fresh_perm(ex, st, n, tag):
    p = [z3.Int("%s!%d_%d" % (tag, V.fresh_id(), i)) for i in range(n)]
    for x in p:
        st.pc.append(z3.And(x >= 0, x < n))
    if n > 1:
        st.pc.append(z3.Distinct(*p))
    return p


def _sel(vals, idx):
    r = vals[-1]
    for i in range(len(vals) - 2, -1, -1):
        r = V.ite(V.eq(idx, i), vals[i], r)
    return r


def np_argsort(ex, st, args, kwargs):
    """np.argsort of a 1-D array: the permutation that sorts ascending, ties by position.  (numpy's default sort is
    not stable for all sizes; for the tiny arrays of VOPy's uses insertion sort is used, which is stable.)"""
    a = L.as_arr(args[0])
    kw = {k: v for k, v in kwargs.items() if not (k == "kind" and v in (None, "stable", "mergesort", "quicksort")) and not (k == "axis" and v in (-1, 0))}
    if a.ndim != 1 or kw:
        raise Unsupported("argsort of non-1-D / with options")
    kwargs = {}
    c = concrete_fallback("numpy.argsort", args, kwargs)
    if c is not _SYM:
        return c
    n = a.shape[0]
    L.used("numpy.argsort: ascending permutation, ties in original order (small arrays)")
    p = _fresh_perm(ex, st, n, "argsort")
    vals = a.flat()
    for i in range(n - 1):
        x, y = _sel(vals, p[i]), _sel(vals, p[i + 1])
        st.pc.append(z3.And(V.Z(V.le(x, y)), z3.Implies(V.Z(V.eq(x, y)), p[i] < p[i + 1])))
    return L.mk(p, (n,), "i")


def np_argpartition(ex, st, args, kwargs):
    """np.argpartition(a, kth): a permutation with a[p[kth]] in its sorted position, no smaller element after it and
    no larger before it (the order inside the two parts is unspecified)."""
    a = L.as_arr(args[0])
    kth = args[1]
    if a.ndim != 1 or not isinstance(kth, int):
        raise Unsupported("argpartition shape / kth")
    n = a.shape[0]
    if not (-n <= kth < n):
        ex.ctx.obligation("no-raise:ValueError(argpartition kth out of bounds)", False)
        raise _sx().PathDead("kth")
    k = kth % n
    L.used("numpy.argpartition: elements before position kth are <= a[p[kth]] <= elements after it")
    p = _fresh_perm(ex, st, n, "argpart")
    vals = a.flat()
    piv = _sel(vals, p[k])
    for i in range(n):
        if i < k:
            st.pc.append(V.Z(V.le(_sel(vals, p[i]), piv)))
        elif i > k:
            st.pc.append(V.Z(V.ge(_sel(vals, p[i]), piv)))
    return L.mk(p, (n,), "i")


def np_sqrt(ex, st, args, kwargs):
    return L.map_scalar_or_arr(L.sqrt_scalar, args[0])


def np_log(ex, st, args, kwargs):
    return L.map_scalar_or_arr(L.log_scalar, args[0])


def np_exp(ex, st, args, kwargs):
    return L.map_scalar_or_arr(L.exp_scalar, args[0])


def np_sin(ex, st, args, kwargs):
    return L.map_scalar_or_arr(lambda x: L.trig_scalar("sin", x), args[0])


def np_cos(ex, st, args, kwargs):
    return L.map_scalar_or_arr(lambda x: L.trig_scalar("cos", x), args[0])


def np_tan(ex, st, args, kwargs):
    return L.map_scalar_or_arr(lambda x: L.trig_scalar("tan", x), args[0])


def np_radians(ex, st, args, kwargs):
    L.used("numpy.radians: x*pi/180")
    lib_attr(ex, _sx().LibRef("numpy"), "pi")
    return L.binop("div", L.binop("mul", args[0], L.PI), 180)


def np_ceil(ex, st, args, kwargs):
    r = L.map_scalar_or_arr(L.ceil_scalar, args[0], kind="f")
    return r


def np_power(ex, st, args, kwargs):
    return L.power(args[0], args[1])


def np_maximum(ex, st, args, kwargs):
    return L.binop("max", args[0], args[1])


def np_minimum(ex, st, args, kwargs):
    return L.binop("min", args[0], args[1])


def np_abs(ex, st, args, kwargs):
    return L.unary("abs", args[0])


def np_norm(ex, st, args, kwargs):
    if kwargs.get("ord") is not None or len(args) > 1 and args[1] is not None:
        raise Unsupported("norm ord")
    return L.norm(args[0], _axis(args, kwargs, 2))


def np_matmul(ex, st, args, kwargs):
    return L.matmul(args[0], args[1])


def np_dot(ex, st, args, kwargs):
    a, b = args[0], args[1]
    if not isinstance(a, SArr) and not isinstance(b, SArr) and not isinstance(a, (list, tuple)):
        return V.mul(a, b)
    a, b = L.as_arr(a), L.as_arr(b)
    if a.ndim == 0 or b.ndim == 0:
        return L.binop("mul", a, b)
    return L.matmul(a, b)


def np_where(ex, st, args, kwargs):
    if len(args) == 3:
        c, a, b = args
        return L.elementwise(lambda cc, x, y: V.ite(cc, x, y), c, a, b,
                             kind=L.join_kind(L.as_arr(a).kind, L.as_arr(b).kind))
    c = args[0] if isinstance(args[0], SArr) else L.as_arr(args[0])
    if c.kind != "b":
        c = L.elementwise(lambda v: v if V.is_bool(v) else V.ne(v, 0), c, kind="b")
    vals = [V.conc(x) if not isinstance(x, bool) else x for x in c.flat()]
    if any(not isinstance(v, bool) for v in vals):
        raise NeedConcreteMask(c)   # the executor forks over the entries (result shape depends on them)
    res = _np.where(_np.array(vals, dtype=bool).reshape(c.shape))
    return tuple(L.mk([int(i) for i in r], (len(r),), "i") for r in res)


def np_nonzero(ex, st, args, kwargs):
    return np_where(ex, st, [args[0]], {})


def np_flatnonzero(ex, st, args, kwargs):
    a = L.as_arr(args[0])
    return np_where(ex, st, [SArr(a.a.reshape(-1), a.kind)], {})[0]


def np_argwhere(ex, st, args, kwargs):
    r = np_where(ex, st, [args[0]], {})
    return L.stack(list(r), axis=1) if r and r[0].shape[0] else L.mk([], (0, len(r)), "i")


def np_std(ex, st, args, kwargs):
    v = L.np_var(args[0], _axis(args, kwargs), ddof=kwargs.get("ddof", 0))
    return L.map_scalar_or_arr(L.sqrt_scalar, v)


def np_floor(ex, st, args, kwargs):
    return L.map_scalar_or_arr(lambda x: V.neg(L.ceil_scalar(V.neg(x))), args[0], kind="f")


def np_round(ex, st, args, kwargs):
    """numpy.round / numpy.around with a concrete number of decimals: the result is k / 10**d for an integer k with
    |k - x * 10**d| <= 1/2 (which neighbour a tie goes to is left open: sound for half-to-even and half-away alike)."""
    d = kwargs.get("decimals", args[1] if len(args) > 1 else 0)
    d = V.conc(d) if not isinstance(d, int) else d
    if not isinstance(d, int) or isinstance(d, bool) or kwargs.get("out") is not None:
        raise Unsupported("numpy.round with a non-constant number of decimals / out=")
    L.used("numpy.round(x, d): nearest multiple of 10**-d (tie direction left open)")
    import fractions

    sc = fractions.Fraction(10) ** d

    def one(x):
        c = V.conc(x)
        if c is not None and isinstance(c, int) and d >= 0:
            return c
        xr = V.R(x) * z3.RealVal(str(sc))
        k = z3.Int("round!%d" % V.fresh_id())
        L.ctx().fact(z3.And(2 * z3.ToReal(k) >= 2 * xr - 1, 2 * z3.ToReal(k) <= 2 * xr + 1))
        return z3.ToReal(k) / z3.RealVal(str(sc))

    return L.map_scalar_or_arr(one, args[0], kind="f")


def np_isfinite(ex, st, args, kwargs):
    L.used("A-FP: reals carry no NaN / inf (isnan, isinf False; isfinite True)")
    a = L.as_arr(args[0])
    return L.mk([True] * a.size, a.shape, "b") if a.ndim else True


def np_isnan(ex, st, args, kwargs):
    L.used("A-FP: reals carry no NaN / inf (isnan, isinf False; isfinite True)")
    a = L.as_arr(args[0])
    if any(type(v).__name__ == "NanReal" for v in a.flat()):
        raise Unsupported("isnan / isinf on an IEEE-modelled quotient")
    return L.mk([False] * a.size, a.shape, "b") if a.ndim else False


def np_inner(ex, st, args, kwargs):
    a, b = L.as_arr(args[0]), L.as_arr(args[1])
    if a.ndim == 1 and b.ndim == 1:
        return L.matmul(a, b)
    raise Unsupported("inner of non-vectors")


def np_ptp(ex, st, args, kwargs):
    ax = _axis(args, kwargs)
    return L.binop("sub", L.np_max(args[0], ax), L.np_min(args[0], ax))


def np_cross(ex, st, args, kwargs):
    a, b = L.as_arr(args[0]), L.as_arr(args[1])
    if a.shape != (3,) or b.shape != (3,):
        raise Unsupported("cross of non-3-vectors")
    x, y = a.flat(), b.flat()
    f = lambda i, j: V.sub(V.mul(x[i], y[j]), V.mul(x[j], y[i]))
    return L.mk([f(1, 2), f(2, 0), f(0, 1)], (3,), "f")


def np_tri(upper):
    def f(ex, st, args, kwargs):
        a = L.as_arr(args[0])
        k = kwargs.get("k", args[1] if len(args) > 1 else 0)
        if a.ndim != 2 or not isinstance(k, int):
            raise Unsupported("triu/tril")
        out = a.a.copy()
        zero = Fraction(0) if a.kind == "f" else (False if a.kind == "b" else 0)
        for i in range(a.shape[0]):
            for j in range(a.shape[1]):
                keep = (j - i >= k) if upper else (j - i <= k)
                if not keep:
                    out[i, j] = zero
        return SArr(out, a.kind)
    return f


def np_delete(ex, st, args, kwargs):
    a = L.as_arr(args[0])
    ci = _conc_index(args[1]) if not isinstance(args[1], list) else args[1]
    if ci is _SYM:
        if isz(args[1]) and z3.is_int(args[1]):
            raise _sx().NeedConcreteInt(args[1])  # the executor forks over the index values
        raise Unsupported("np.delete with symbolic index")
    ax = _axis(args, kwargs, 2)
    return SArr(_np.delete(a.a, ci, axis=ax).copy(), a.kind)


def np_allclose(ex, st, args, kwargs):
    """Faithful np.allclose: all(|a-b| <= atol + rtol*|b|), atol=1e-8, rtol=1e-5."""
    L.used("numpy.allclose: all |a-b| <= 1e-8 + 1e-5*|b| (reals)")
    rtol = kwargs.get("rtol", Fraction(1, 100000))
    atol = kwargs.get("atol", Fraction(1, 100000000))
    a, b = args[0], args[1]
    r = L.elementwise(lambda x, y: V.le(V.sabs(V.sub(x, y)), V.add(atol, V.mul(rtol, V.sabs(y)))), a, b, kind="b")
    return L.np_all(r)


def np_array_equal(ex, st, args, kwargs):
    a, b = L.as_arr(args[0]), L.as_arr(args[1])
    if a.shape != b.shape:
        return False
    return L.np_all(L.elementwise(V.eq, a, b, kind="b"))


def np_copy(ex, st, args, kwargs):
    return L.copy(L.as_arr(args[0]))


def np_isscalar(ex, st, args, kwargs):
    return not isinstance(args[0], (SArr, list, tuple))


def np_cholesky(ex, st, args, kwargs):
    """np.linalg.cholesky: lower-triangular L with positive diagonal and L @ L.T == A
    (requires A symmetric positive definite: obligation is left to the caller's contract)."""
    a = L.as_arr(args[0])
    if a.ndim != 2 or a.shape[0] != a.shape[1]:
        raise L.ShapeError("cholesky of non-square")
    n = a.shape[0]
    L.used("numpy.linalg.cholesky: lower-triangular L, positive diagonal, L@L.T == A")
    name = "chol!%d" % V.fresh_id()
    fl = []
    for i in range(n):
        for j in range(n):
            fl.append(z3.Real("%s_%d_%d" % (name, i, j)) if j <= i else Fraction(0))
    Lm = L.mk(fl, (n, n), "f")
    prod = L.matmul(Lm, Lm.view(Lm.a.T))
    facts = []
    for i in range(n):
        facts.append(V.R(Lm.a[i, i]) > 0)
        for j in range(n):
            facts.append(V.R(prod.a[i, j]) == V.R(a.a[i, j]))
    ex.ctx.fact(z3.And(*facts)) if not st.pc else st.pc.append(z3.And(*facts))
    return Lm


def mat_uf(name, a):
    """Matrix-valued library function as one uninterpreted function per entry (function of all entries)."""
    a = L.as_arr(a)
    if a.ndim != 2 or a.shape[0] != a.shape[1]:
        raise L.ShapeError(name + " of non-square")
    n = a.shape[0]
    ents = [V.R(x) for x in a.flat()]
    out = []
    for i in range(n):
        for j in range(n):
            f = z3.Function("%s%d_%d_%d" % (name, n, i, j), *([z3.RealSort()] * (n * n + 1)))
            out.append(f(*ents))
    return L.mk(out, (n, n), "f")


def np_inv(ex, st, args, kwargs):
    L.used("numpy.linalg.inv: opaque matrix function M(A) with M@A == A@M == I for invertible A (identity not needed by any proof)")
    return mat_uf("inv", args[0])


def sp_sqrtm(ex, st, args, kwargs):
    L.used("scipy.linalg.sqrtm: opaque matrix function S(A), symmetric with S@S == A for SPD A (identity not needed by any proof)")
    return mat_uf("sqrtm", args[0])


def np_det(ex, st, args, kwargs):
    L.used("numpy.linalg.det: opaque")
    return z3.Real("det_unknown!%d" % V.fresh_id())


def np_random_normal(ex, st, args, kwargs):
    L.used("numpy.random.normal: fresh unconstrained reals of the requested shape (law not modelled)")
    size = kwargs.get("size", args[2] if len(args) > 2 else None)
    name = "rnd!%d" % V.fresh_id()
    if size is None:
        return z3.Real(name)
    arr = L.fresh_array(name, _shape_arg(size), "f")
    st.roots.setdefault("__random__", []).append(arr)
    return arr


NP = {
    "numpy.array": np_array, "numpy.asarray": np_asarray, "numpy.zeros": np_zeros, "numpy.ones": np_ones,
    "numpy.empty": np_empty, "numpy.empty_like": np_empty_like, "numpy.zeros_like": np_zeros_like,
    "numpy.full": np_full, "numpy.eye": np_eye, "numpy.arange": np_arange, "numpy.vstack": np_vstack,
    "numpy.hstack": np_hstack, "numpy.stack": np_stack, "numpy.concatenate": np_concatenate,
    "numpy.append": np_append, "numpy.repeat": np_repeat, "numpy.tile": np_tile,
    "numpy.atleast_1d": np_atleast_1d, "numpy.expand_dims": np_expand_dims, "numpy.squeeze": np_squeeze,
    "numpy.reshape": np_reshape, "numpy.transpose": np_transpose, "numpy.diag": np_diag,
    "numpy.diagonal": np_diagonal, "numpy.sum": np_sum, "numpy.all": np_all, "numpy.any": np_any,
    "numpy.min": np_min, "numpy.max": np_max, "numpy.amin": np_min, "numpy.amax": np_max,
    "numpy.mean": np_mean, "numpy.var": np_var, "numpy.argmax": np_argmax, "numpy.argmin": np_argmin,
    "numpy.sqrt": np_sqrt, "numpy.log": np_log, "numpy.exp": np_exp, "numpy.sin": np_sin,
    "numpy.cos": np_cos, "numpy.tan": np_tan, "numpy.radians": np_radians, "numpy.deg2rad": np_radians, "numpy.ceil": np_ceil,
    "numpy.power": np_power, "numpy.maximum": np_maximum, "numpy.minimum": np_minimum,
    "numpy.abs": np_abs, "numpy.absolute": np_abs, "numpy.linalg.norm": np_norm,
    "numpy.matmul": np_matmul, "numpy.dot": np_dot, "numpy.where": np_where, "numpy.delete": np_delete,
    "numpy.allclose": np_allclose, "numpy.array_equal": np_array_equal, "numpy.copy": np_copy,
    "numpy.isscalar": np_isscalar, "numpy.linalg.cholesky": np_cholesky, "numpy.linalg.det": np_det,
    "numpy.real": (lambda ex, st, args, kwargs: args[0]),
    "numpy.random.normal": np_random_normal, "numpy.linalg.inv": np_inv, "scipy.linalg.sqrtm": sp_sqrtm,
}


def it_product(ex, st, args, kwargs):
    L.used("itertools.product: all tuples, lexicographic, each once")
    seqs = [ex.iter_concrete(a) for a in args]
    return [tuple(t) for t in itertools.product(*seqs)]


def it_combinations(ex, st, args, kwargs):
    L.used("itertools.combinations: all r-subsets in lexicographic order")
    seq = ex.iter_concrete(args[0])
    r = kwargs.get("r", args[1] if len(args) > 1 else None)
    return [tuple(t) for t in itertools.combinations(seq, r)]


def it_permutations(ex, st, args, kwargs):
    L.used("itertools.permutations: all r-length orderings in lexicographic order of positions")
    seq = ex.iter_concrete(args[0])
    r = kwargs.get("r", args[1] if len(args) > 1 else None)
    return [tuple(t) for t in itertools.permutations(seq, r)]


def it_chain(ex, st, args, kwargs):
    out = []
    for a in args:
        out.extend(ex.iter_concrete(a))
    return out


def it_chain_from_iterable(ex, st, args, kwargs):
    out = []
    for a in ex.iter_concrete(args[0]):
        out.extend(ex.iter_concrete(a))
    return out


def it_repeat(ex, st, args, kwargs):
    n = kwargs.get("times", args[1] if len(args) > 1 else None)
    if not isinstance(n, int):
        raise Unsupported("itertools.repeat without a concrete count")
    return [args[0]] * n


def sk_euclidean(ex, st, args, kwargs):
    """sklearn euclidean_distances(X, Y, squared): entry (i,j) = (squared) Euclidean distance of rows."""
    L.used("sklearn.metrics.pairwise.euclidean_distances: entry (i,j) is the (squared) distance of row i of X and row j of Y")
    X, Y = L.as_arr(args[0]), L.as_arr(args[1])
    if X.ndim != 2 or Y.ndim != 2 or X.shape[1] != Y.shape[1]:
        raise L.ShapeError("euclidean_distances shapes")
    sq = kwargs.get("squared", False)
    out = []
    for i in range(X.shape[0]):
        for j in range(Y.shape[0]):
            acc = Fraction(0)
            for c in range(X.shape[1]):
                d = V.sub(X.a[i, c], Y.a[j, c])
                acc = V.add(acc, V.mul(d, d))
            out.append(acc if (sq is True) else L.sqrt_scalar(acc))
    return L.mk(out, (X.shape[0], Y.shape[0]), "f")


class SkScaler:
    """sklearn.preprocessing.MinMaxScaler / StandardScaler (default options) by contract:
       MinMaxScaler.fit_transform(X)[i, c] = (X[i, c] - min_c) / (max_c - min_c)      (0 for a constant column)
       StandardScaler.fit_transform(X)[i, c] = (X[i, c] - mean_c) / std_c             (std_c = population std; 1 for a constant column)"""

    def __init__(self, kind, opts):
        self.kind = kind
        self.opts = opts
        self.fitted = None

    def clone(self, memo):
        return self

    def getattr(self, ex, st, name):
        if name in ("fit_transform", "fit", "transform", "inverse_transform"):
            return _sx().BoundLib(self, name)
        raise Unsupported("scaler attribute " + name)

    def _stats(self, X):
        n, d = X.shape
        cols = []
        for c in range(d):
            col = [X.a[i, c] for i in range(n)]
            if self.kind == "minmax":
                mn, mx = col[0], col[0]
                for v in col[1:]:
                    mn = V.ite(V.lt(v, mn), v, mn)
                    mx = V.ite(V.gt(v, mx), v, mx)
                rng = V.sub(mx, mn)
                cols.append((mn, V.ite(V.eq(rng, 0), Fraction(1), rng)))
            else:
                tot = col[0]
                for v in col[1:]:
                    tot = V.add(tot, v)
                mean = V.div(tot, n)
                var = Fraction(0)
                for v in col:
                    dv = V.sub(v, mean)
                    var = V.add(var, V.mul(dv, dv))
                var = V.div(var, n)
                sd = L.sqrt_scalar(var)
                cols.append((mean, V.ite(V.eq(var, 0), Fraction(1), sd)))
        return cols

    def method(self, ex, st, name, args):
        L.used("sklearn.preprocessing.%s (default options): column-wise %s" % ("MinMaxScaler" if self.kind == "minmax" else "StandardScaler",
               "(x - min) / (max - min)" if self.kind == "minmax" else "(x - mean) / population std"))
        X = L.as_arr(args[0])
        if X.ndim != 2 or X.shape[0] == 0:
            raise Unsupported("scaler input shape")
        if name in ("fit", "fit_transform"):
            self.fitted = self._stats(X)
            if name == "fit":
                return self
        if self.fitted is None or len(self.fitted) != X.shape[1]:
            raise Unsupported("scaler used before fit / with another width")
        out = _np.empty(X.shape, dtype=object)
        for i in range(X.shape[0]):
            for c in range(X.shape[1]):
                off, sc = self.fitted[c]
                out[i, c] = V.add(V.mul(X.a[i, c], sc), off) if name == "inverse_transform" else V.div(V.sub(X.a[i, c], off), sc)
        return SArr(out, "f")


def sk_minmax(ex, st, args, kwargs):
    if args or any(k not in ("feature_range", "copy", "clip") for k in kwargs) or kwargs.get("feature_range", (0, 1)) != (0, 1) or kwargs.get("clip", False):
        raise Unsupported("MinMaxScaler options")
    return SkScaler("minmax", dict(kwargs))


def sk_standard(ex, st, args, kwargs):
    if args or kwargs.get("with_mean", True) is not True or kwargs.get("with_std", True) is not True:
        raise Unsupported("StandardScaler options")
    return SkScaler("standard", dict(kwargs))


NP["sklearn.preprocessing.MinMaxScaler"] = sk_minmax
NP["sklearn.preprocessing.StandardScaler"] = sk_standard


def sp_minimize(ex, st, args, kwargs):
    """scipy.optimize.minimize(fun, x0, method, constraints): the objective and every constraint function are
    evaluated on a fresh symbolic point (recorded in ctx.nlp so a contract can compare the PROGRAM with the
    specification's); the result object carries a fresh point res.x that satisfies the constraints
    (ASSUMED contract: a global minimiser of the convex program is returned)."""
    sx = _sx()
    L.used("scipy.optimize.minimize: A-SOLVE (returns a global minimiser of the program it is given; feasible)")
    fun, x0 = args[0], L.as_arr(args[1])
    n = x0.shape[0]
    z = L.fresh_array("nlp_z!%d" % V.fresh_id(), (n,))
    zs = L.fresh_array("nlp_star!%d" % V.fresh_id(), (n,))

    def call1(f, arg):
        r = ex.call(f, [L.copy(arg)], {}, st, None)
        if len(r) != 1 or isinstance(r[0][1], Abort):
            raise Unsupported("objective / constraint function forks or raises")
        return r[0][1]
    obj = call1(fun, z)
    cons = []
    for c in kwargs.get("constraints", []) or []:
        if not isinstance(c, dict) or "fun" not in c:
            raise Unsupported("constraint specification")
        val = L.as_arr(call1(c["fun"], z))
        val_star = L.as_arr(call1(c["fun"], zs))
        cons.append({"type": c.get("type"), "at_z": val, "at_star": val_star})
        for v in val_star.flat():
            st.pc.append(V.R(v) >= 0 if c.get("type") == "ineq" else V.R(v) == 0)
    ex.ctx.nlp.append({"z": z, "star": zs, "objective": obj, "constraints": cons, "x0": L.copy(x0),
                       "method": kwargs.get("method")})
    return SObj("OptimizeResult", {"x": zs, "success": True})


def _torchify(a):
    r = SArr(a.a, a.kind, "torch")
    return r


def t_tensor(ex, st, args, kwargs):
    a = np_array(ex, st, [args[0]], {"dtype": kwargs.get("dtype")} if kwargs.get("dtype") is not None else {})
    return _torchify(a)


def t_cat(ex, st, args, kwargs):
    ax = kwargs.get("dim", args[1] if len(args) > 1 else 0)
    return _torchify(L.concat(_seq_of_arrays(args[0]), axis=ax))


def t_stack(ex, st, args, kwargs):
    ax = kwargs.get("dim", args[1] if len(args) > 1 else 0)
    return _torchify(L.stack(_seq_of_arrays(args[0]), axis=ax))


def t_empty(ex, st, args, kwargs):
    shp = args[0] if len(args) == 1 else tuple(args)
    shp = _shape_arg(shp)
    n = 1
    for x in shp:
        n *= x
    if n != 0:
        return _torchify(np_empty(ex, st, [shp], {}))
    return _torchify(L.mk([], shp, "f"))


def t_eye(ex, st, args, kwargs):
    return _torchify(np_eye(ex, st, args, {}))


def t_unique(ex, st, args, kwargs):
    r = concrete_fallback("numpy.unique", [args[0]], {})
    if r is _SYM:
        a = L.as_arr(args[0])
        for x in a.flat():
            if isz(x) and z3.is_int(x) and V.conc(x) is None:
                raise _sx().NeedConcreteInt(x)
        raise Unsupported("torch.unique on symbolic values")
    return _torchify(r)


def t_einsum(ex, st, args, kwargs):
    spec = args[0]
    if spec == "ij,ki->kij":
        E, Vv = L.as_arr(args[1]), L.as_arr(args[2])
        K, I_ = Vv.shape
        J = E.shape[1]
        out = [V.mul(E.a[i, j], Vv.a[k, i]) for k in range(K) for i in range(I_) for j in range(J)]
        return _torchify(L.mk(out, (K, I_, J), "f"))
    raise Unsupported("einsum " + str(spec))


def t_argsort(ex, st, args, kwargs):
    kw = {k: v for k, v in kwargs.items() if k not in ("stable", "dim", "descending")}
    if kwargs.get("descending") or kwargs.get("dim", -1) not in (-1, 0) or kw:
        raise Unsupported("torch.argsort options")
    return _torchify(L.as_arr(np_argsort(ex, st, [args[0]], {})))


def t_unique_consecutive(ex, st, args, kwargs):
    a = L.as_arr(args[0])
    vals = [x if isinstance(x, int) else V.conc(x) for x in a.flat()]
    if a.ndim != 1 or not all(isinstance(v, int) for v in vals):
        for x in a.flat():
            if isz(x) and z3.is_int(x) and V.conc(x) is None:
                raise _sx().NeedConcreteInt(x)
        raise Unsupported("torch.unique_consecutive on symbolic values")
    u, c = [], []
    for v in vals:
        if u and u[-1] == v:
            c[-1] += 1
        else:
            u.append(v)
            c.append(1)
    ua, ca = _torchify(L.mk(u, (len(u),), "i")), _torchify(L.mk(c, (len(c),), "i"))
    return (ua, ca) if kwargs.get("return_counts") else ua


def _t_wrap(fn):
    return lambda ex, st, args, kwargs: _torchify(L.as_arr(fn(ex, st, args, {k: v for k, v in kwargs.items() if k not in ("dtype", "device")})))


for _tn, _fn in (("torch.zeros", lambda ex, st, a, k: np_zeros(ex, st, [a[0] if len(a) == 1 else tuple(a)], k)),
                 ("torch.ones", lambda ex, st, a, k: np_ones(ex, st, [a[0] if len(a) == 1 else tuple(a)], k)),
                 ("torch.vstack", lambda ex, st, a, k: np_vstack(ex, st, a, k)), ("torch.hstack", lambda ex, st, a, k: np_hstack(ex, st, a, k)),
                 ("torch.concat", lambda ex, st, a, k: t_cat(ex, st, a, k)), ("torch.concatenate", lambda ex, st, a, k: t_cat(ex, st, a, k)),
                 ("torch.as_tensor", lambda ex, st, a, k: L.as_arr(a[0])), ("torch.from_numpy", lambda ex, st, a, k: L.as_arr(a[0])),
                 ("torch.diagonal", lambda ex, st, a, k: np_diagonal(ex, st, [a[0]], {"axis1": k.get("dim1", 0), "axis2": k.get("dim2", 1)})),
                 ("torch.arange", lambda ex, st, a, k: np_arange(ex, st, a, k)), ("torch.sqrt", lambda ex, st, a, k: np_sqrt(ex, st, a, k)),
                 ("torch.sum", lambda ex, st, a, k: L.np_sum(a[0], k.get("dim", a[1] if len(a) > 1 else None))),
                 ("torch.transpose", lambda ex, st, a, k: L.as_arr(a[0]).view(_np.swapaxes(L.as_arr(a[0]).a, a[1], a[2]))),
                 ("torch.squeeze", lambda ex, st, a, k: np_squeeze(ex, st, a, ({"axis": k["dim"]} if "dim" in k else {}))),
                 ("torch.unsqueeze", lambda ex, st, a, k: L.as_arr(a[0]).view(_np.expand_dims(L.as_arr(a[0]).a, a[1] if len(a) > 1 else k["dim"])))):
    NP[_tn] = _t_wrap(_fn)
NP["torch.argsort"] = t_argsort
NP["torch.unique_consecutive"] = t_unique_consecutive
NP.update({"torch.tensor": t_tensor, "torch.cat": t_cat, "torch.stack": t_stack, "torch.empty": t_empty,
           "torch.eye": t_eye, "torch.unique": t_unique, "torch.einsum": t_einsum})
NP["scipy.optimize.minimize"] = sp_minimize
NP["sklearn.metrics.pairwise.euclidean_distances"] = sk_euclidean


def sp_cdist(ex, st, args, kwargs):
    """scipy.spatial.distance.cdist for metric euclidean / sqeuclidean: entry (i,j) = (squared) distance of the rows."""
    metric = kwargs.get("metric", args[2] if len(args) > 2 else "euclidean")
    if metric not in ("euclidean", "sqeuclidean"):
        raise Unsupported("cdist metric %r" % (metric,))
    L.used("scipy.spatial.distance.cdist: entry (i,j) is the (squared) Euclidean distance of row i of XA and row j of XB")
    return sk_euclidean(ex, st, [args[0], args[1]], {"squared": metric == "sqeuclidean"})


NP["scipy.spatial.distance.cdist"] = sp_cdist
def np_clip(ex, st, args, kwargs):
    a = args[0]
    lo = kwargs.get("a_min", args[1] if len(args) > 1 else None)
    hi = kwargs.get("a_max", args[2] if len(args) > 2 else None)
    r = a
    if lo is not None:
        r = L.binop("max", r, lo)
    if hi is not None:
        r = L.binop("min", r, hi)
    return r


def np_einsum(ex, st, args, kwargs):
    """Generic einsum on arrays of concrete shape: explicit sums of products."""
    spec = args[0]
    if not isinstance(spec, str) or "->" not in spec or "." in spec:
        raise Unsupported("einsum specification %r" % (spec,))
    ins, out = spec.replace(" ", "").split("->")
    ops = [L.as_arr(x) for x in args[1:]]
    subs = ins.split(",")
    if len(subs) != len(ops):
        raise L.ShapeError("einsum operands")
    dims = {}
    for sub, op in zip(subs, ops):
        if len(sub) != op.ndim:
            raise L.ShapeError("einsum subscripts")
        for ch, n in zip(sub, op.shape):
            if dims.setdefault(ch, n) != n:
                raise L.ShapeError("einsum dimension mismatch")
    summed = [ch for ch in dims if ch not in out]
    oshape = tuple(dims[ch] for ch in out)
    res = []
    for oidx in itertools.product(*[range(n) for n in oshape]):
        env = dict(zip(out, oidx))
        acc = None
        for sidx in itertools.product(*[range(dims[ch]) for ch in summed]):
            env.update(zip(summed, sidx))
            term = None
            for sub, op in zip(subs, ops):
                v = op.a[tuple(env[ch] for ch in sub)]
                term = v if term is None else V.mul(term, v)
            acc = term if acc is None else V.add(acc, term)
        res.append(acc if acc is not None else Fraction(0))
    kind = "f"
    if not oshape:
        return res[0]
    return L.mk(res, oshape, kind)


def np_outer(ex, st, args, kwargs):
    a, b = L.as_arr(args[0]), L.as_arr(args[1])
    fa, fb = a.flat(), b.flat()
    return L.mk([V.mul(x, y) for x in fa for y in fb], (len(fa), len(fb)), L.join_kind(a.kind, b.kind))


def np_prod(ex, st, args, kwargs):
    a = L.as_arr(args[0])
    one = Fraction(1) if a.kind == "f" else 1
    return L.reduce(a, V.mul, one, _axis(args, kwargs))


def np_cumsum(ex, st, args, kwargs):
    a = L.as_arr(args[0])
    if a.ndim != 1 or _axis(args, kwargs) not in (None, 0, -1):
        raise Unsupported("cumsum on nd")
    out, acc = [], None
    for x in a.flat():
        acc = x if acc is None else V.add(acc, x)
        out.append(acc)
    return L.mk(out, a.shape, a.kind)


def np_isclose(ex, st, args, kwargs):
    L.used("numpy.isclose: |a-b| <= atol + rtol*|b| elementwise")
    rtol = kwargs.get("rtol", Fraction(1, 100000))
    atol = kwargs.get("atol", Fraction(1, 100000000))
    return L.elementwise(lambda x, y: V.le(V.sabs(V.sub(x, y)), V.add(atol, V.mul(rtol, V.sabs(y)))), args[0], args[1], kind="b")


def np_sign(ex, st, args, kwargs):
    f = lambda x: V.ite(V.gt(x, 0), 1, V.ite(V.lt(x, 0), -1, 0))
    return L.map_scalar_or_arr(f, args[0], kind="f")


def np_square(ex, st, args, kwargs):
    return L.binop("mul", args[0], args[0])


def np_count_nonzero(ex, st, args, kwargs):
    a = L.as_arr(args[0])
    return L.np_sum(L.elementwise(lambda v: v if V.is_bool(v) else V.ne(v, 0), a, kind="b"), _axis(args, kwargs))


def np_sort(ex, st, args, kwargs):
    a = L.as_arr(args[0])
    if a.ndim != 1:
        raise Unsupported("sort on nd")
    idx = np_argsort(ex, st, [a], {})
    return arr_getitem(ex, st, a, idx)


def np_trace(ex, st, args, kwargs):
    a = L.as_arr(args[0])
    ax1 = kwargs.get("axis1", args[2] if len(args) > 2 else 0)
    ax2 = kwargs.get("axis2", args[3] if len(args) > 3 else 1)
    if kwargs.get("offset", args[1] if len(args) > 1 else 0) != 0:
        raise Unsupported("trace with offset")
    d = _np.diagonal(a.a, axis1=ax1, axis2=ax2)   # object array: the diagonal moved to the last axis
    return L.reduce(SArr(d.copy(), a.kind), V.add, Fraction(0) if a.kind == "f" else 0, -1 if d.ndim > 1 else None)


def np_putmask(ex, st, args, kwargs):
    """np.putmask(a, mask, values): in-place a[mask] = values (scalar or same-shape values)."""
    a, mask = args[0], L.as_arr(args[1])
    if not isinstance(a, SArr):
        ex.ctx.obligation("no-raise:TypeError(putmask on a non-array)", False)
        raise _sx().PathDead("putmask")
    vals = L.as_arr(args[2])
    if mask.shape != a.shape or not (vals.size == 1 or vals.shape == a.shape):
        raise Unsupported("putmask with broadcasting / repeating values")
    for pos in itertools.product(*[range(n) for n in a.shape]):
        v = vals.flat()[0] if vals.size == 1 else vals.a[pos]
        m = mask.a[pos]
        m = m if V.is_bool(m) else V.ne(m, 0)
        a.a[pos] = L.to_kind(V.ite(m, v, a.a[pos]), a.kind)
    st.log.append(("arr", id(a)))
    return None


def t_diag_embed(ex, st, args, kwargs):
    a = L.as_arr(args[0])
    n = a.shape[-1]
    zero = Fraction(0) if a.kind == "f" else 0
    out = _np.empty(a.shape + (n,), dtype=object)
    for pos in itertools.product(*[range(k) for k in a.shape]):
        for j in range(n):
            out[pos + (j,)] = a.a[pos] if j == pos[-1] else zero
    return _torchify(SArr(out, a.kind))


NP.update({"numpy.nonzero": np_nonzero, "numpy.flatnonzero": np_flatnonzero, "numpy.argwhere": np_argwhere, "numpy.std": np_std,
           "numpy.floor": np_floor, "numpy.round": np_round, "numpy.around": np_round, "numpy.isfinite": np_isfinite, "numpy.isnan": np_isnan, "numpy.isinf": np_isnan, "numpy.inner": np_inner,
           "numpy.vdot": np_inner, "numpy.ptp": np_ptp, "numpy.cross": np_cross, "numpy.triu": np_tri(True), "numpy.tril": np_tri(False),
           "numpy.nanmin": np_min, "numpy.nanmax": np_max, "numpy.nansum": lambda ex, st, a, k: L.np_sum(a[0], _axis(a, k)),
           "numpy.reciprocal": lambda ex, st, a, k: L.binop("div", Fraction(1), a[0]),
           "numpy.average": lambda ex, st, a, k: (np_mean(ex, st, a, k) if "weights" not in k and len(a) < 3 else (_ for _ in ()).throw(Unsupported("weighted average")))})
for _on, _bn in (("le", "le"), ("ge", "ge"), ("lt", "lt"), ("gt", "gt"), ("eq", "eq"), ("ne", "ne"), ("add", "add"), ("sub", "sub"), ("mul", "mul"),
                 ("truediv", "div"), ("and_", "and"), ("or_", "or")):
    NP["operator." + _on] = (lambda bn: (lambda ex, st, a, k: L.binop(bn, a[0], a[1])))(_bn)
NP["operator.neg"] = lambda ex, st, a, k: L.unary("neg", a[0])
NP["operator.not_"] = lambda ex, st, a, k: L.unary("not", a[0])
NP["numpy.divmod"] = lambda ex, st, a, k: (L.binop("floordiv", a[0], a[1]), L.binop("mod", a[0], a[1]))
NP["numpy.floor_divide"] = lambda ex, st, a, k: L.binop("floordiv", a[0], a[1])
NP["numpy.mod"] = lambda ex, st, a, k: L.binop("mod", a[0], a[1])
NP["numpy.remainder"] = NP["numpy.mod"]
NP["numpy.shape"] = lambda ex, st, a, k: tuple(L.as_arr(a[0]).shape)
NP["numpy.ndim"] = lambda ex, st, a, k: L.as_arr(a[0]).ndim
NP["numpy.size"] = lambda ex, st, a, k: (L.as_arr(a[0]).size if len(a) == 1 and "axis" not in k else L.as_arr(a[0]).shape[k.get("axis", a[1] if len(a) > 1 else 0)])
NP["numpy.broadcast_to"] = lambda ex, st, a, k: SArr(_np.broadcast_to(L.as_arr(a[0]).a, tuple(a[1]) if isinstance(a[1], (tuple, list)) else (a[1],)).copy(), L.as_arr(a[0]).kind)
import math as _math
for _mn in ("isfinite", "isnan", "isinf"):
    NP["math." + _mn] = NP["numpy." + _mn]
NP["math.sqrt"] = lambda ex, st, a, k: L.sqrt_scalar(a[0])
NP["math.log"] = lambda ex, st, a, k: L.log_scalar(a[0])
NP["math.exp"] = lambda ex, st, a, k: L.exp_scalar(a[0])
NP["math.ceil"] = lambda ex, st, a, k: L.ceil_scalar(a[0])
NP["math.floor"] = lambda ex, st, a, k: V.neg(L.ceil_scalar(V.neg(a[0])))
NP["math.fabs"] = lambda ex, st, a, k: V.sabs(a[0])
NP["numpy.putmask"] = np_putmask
NP["torch.diag_embed"] = t_diag_embed
NP["numpy.asanyarray"] = np_asarray
NP["numpy.ascontiguousarray"] = np_asarray
NP["numpy.trace"] = np_trace
NP.update({"numpy.clip": np_clip, "numpy.einsum": np_einsum, "numpy.outer": np_outer, "numpy.prod": np_prod,
           "numpy.cumsum": np_cumsum, "numpy.isclose": np_isclose, "numpy.sign": np_sign, "numpy.square": np_square,
           "numpy.count_nonzero": np_count_nonzero, "numpy.sort": np_sort, "numpy.float_power": np_power,
           "numpy.multiply": lambda ex, st, a, k: L.binop("mul", a[0], a[1]), "numpy.add": lambda ex, st, a, k: L.binop("add", a[0], a[1]),
           "numpy.subtract": lambda ex, st, a, k: L.binop("sub", a[0], a[1]), "numpy.divide": lambda ex, st, a, k: L.binop("div", a[0], a[1]),
           "numpy.negative": lambda ex, st, a, k: L.unary("neg", a[0]), "numpy.logical_and": lambda ex, st, a, k: L.binop("and", a[0], a[1]),
           "numpy.logical_or": lambda ex, st, a, k: L.binop("or", a[0], a[1]), "numpy.logical_not": lambda ex, st, a, k: L.unary("not", a[0]),
           "numpy.greater": lambda ex, st, a, k: L.binop("gt", a[0], a[1]), "numpy.less": lambda ex, st, a, k: L.binop("lt", a[0], a[1]),
           "numpy.greater_equal": lambda ex, st, a, k: L.binop("ge", a[0], a[1]), "numpy.less_equal": lambda ex, st, a, k: L.binop("le", a[0], a[1]),
           "numpy.ones_like": lambda ex, st, a, k: L.const_array(L.as_arr(a[0]).shape, Fraction(1) if L.as_arr(a[0]).kind == "f" else 1, L.as_arr(a[0]).kind),
           "numpy.full_like": lambda ex, st, a, k: L.const_array(L.as_arr(a[0]).shape, a[1], L.as_arr(a[0]).kind),
           "numpy.identity": np_eye, "numpy.ravel": lambda ex, st, a, k: SArr(L.as_arr(a[0]).a.reshape(-1), L.as_arr(a[0]).kind),
           "numpy.linalg.multi_dot": None})
del NP["numpy.linalg.multi_dot"]
NP["numpy.argsort"] = np_argsort
NP["numpy.argpartition"] = np_argpartition
NP["itertools.product"] = it_product
NP["itertools.combinations"] = it_combinations
NP["itertools.permutations"] = it_permutations
NP["itertools.chain"] = it_chain
NP["itertools.chain.from_iterable"] = it_chain_from_iterable
NP["itertools.repeat"] = it_repeat


# ----------------------------------------------------------------------------
# methods of library-modelled values
# ----------------------------------------------------------------------------


def call_method(ex, st, obj, name, args, kwargs, node):
    sx = _sx()
    from . import cvxmodel

    if isinstance(obj, cvxmodel.CvxProblem) and name == "solve":
        return cvxmodel.problem_solve(ex, st, obj, args, kwargs)
    if hasattr(obj, "method"):
        return obj.method(ex, st, name, args)
    if isinstance(obj, SArr):
        return arr_method(ex, st, obj, name, args, kwargs)
    if isinstance(obj, list):
        if name == "append":
            obj.append(args[0])
            st.log.append(("list", id(obj)))
            return None
        if name == "extend":
            obj.extend(ex.iter_concrete(args[0]))
            st.log.append(("list", id(obj)))
            return None
        if name == "copy":
            return list(obj)
        if name == "index":
            for i, x in enumerate(obj):
                c = V.conc(V.eq(x, args[0]))
                if c is True:
                    return i
                if c is None:
                    raise Unsupported("symbolic list.index")
            ex.ctx.obligation("no-raise:ValueError(list.index)", False)
            raise sx.PathDead("index")
    if isinstance(obj, dict):
        if name == "get":
            return obj.get(args[0], args[1] if len(args) > 1 else None)
        if name == "items":
            return list(obj.items())
        if name == "keys":
            return list(obj.keys())
        if name == "values":
            return list(obj.values())
    if isinstance(obj, str) and name in ("strip", "lstrip", "rstrip", "lower", "upper", "casefold", "startswith", "endswith",
                                         "replace", "split", "title", "capitalize", "format", "join", "isdigit", "isalpha") \
            and all(isinstance(a, (str, int, tuple, list)) for a in args) and not kwargs:
        return getattr(obj, name)(*args)      # concrete string, concrete arguments: Python's own semantics
    if V.is_num(obj) or V.is_bool(obj):
        if name == "astype":
            k = _kind_from_dtype(args[0])
            r = _astype(L.as_arr(obj), k)
            return r.flat()[0]
        if name == "item":
            return obj
        if name in ("flatten", "reshape", "squeeze"):
            return arr_method(ex, st, L.as_arr(obj), name, args, kwargs)
        if name == "all" or name == "any":
            return ex.truth(obj)
        if name in ("min", "max", "sum"):
            return obj
    raise Unsupported("method %s on %r" % (name, obj))


def arr_method(ex, st, a, name, args, kwargs):
    if name == "reshape":
        shp = args[0] if len(args) == 1 and isinstance(args[0], (tuple, list)) else args
        return _reshape(a, shp)
    if name in ("flatten", "ravel"):
        return SArr(a.a.reshape(-1).copy(), a.kind)
    if name == "squeeze":
        return np_squeeze(ex, st, [a] + list(args), kwargs)
    if name == "transpose":
        return a.view(a.a.T)
    if name == "copy":
        return L.copy(a)
    if name == "astype":
        return _astype(a, _kind_from_dtype(args[0]))
    if name == "all":
        return L.np_all(a, _axis(args, kwargs, 0))
    if name == "any":
        return L.np_any(a, _axis(args, kwargs, 0))
    if name == "min":
        return L.np_min(a, _axis(args, kwargs, 0))
    if name == "max":
        return L.np_max(a, _axis(args, kwargs, 0))
    if name == "sum":
        return L.np_sum(a, _axis(args, kwargs, 0))
    if name == "mean":
        return L.np_mean(a, _axis(args, kwargs, 0))
    if name == "var":
        return L.np_var(a, _axis(args, kwargs, 0), ddof=kwargs.get("ddof", 0))
    if name == "argmax":
        return L.np_argext(a, _axis(args, kwargs, 0), V.gt)
    if name == "argmin":
        return L.np_argext(a, _axis(args, kwargs, 0), V.lt)
    if name == "diagonal":
        return np_diagonal(ex, st, [a], kwargs)
    if name == "item":
        if a.size != 1:
            ex.ctx.obligation("no-raise:ValueError(item of non-singleton)", False)
            raise _sx().PathDead("item")
        return a.flat()[0]
    if name == "tolist":
        if a.ndim == 1:
            return a.flat()
        raise Unsupported("tolist on nd")
    if name == "tobytes":
        # the byte string is an injective function of (dtype, values): modelled by the tuple of CONCRETE values (a hashable key)
        vals = a.flat()
        if not all(isinstance(x, (int, bool, Fraction)) for x in vals):
            raise Unsupported("tobytes of an array with symbolic entries")
        return ("bytes", a.kind) + tuple(vals)
    if name == "dot":
        return np_dot(ex, st, [a, args[0]], {})
    if name == "repeat":
        return np_repeat(ex, st, [a] + list(args), kwargs)
    if name == "clip":
        return np_clip(ex, st, [a] + list(args), kwargs)
    if name == "prod":
        return np_prod(ex, st, [a] + list(args), kwargs)
    if name == "cumsum":
        return np_cumsum(ex, st, [a] + list(args), kwargs)
    if name == "swapaxes":
        return a.view(_np.swapaxes(a.a, args[0], args[1]))
    if name in ("to", "detach", "cpu", "double", "float", "contiguous", "requires_grad_"):
        return a
    if name == "clone":
        r = L.copy(a)
        r.origin = a.origin
        return r
    if name == "unsqueeze":
        d = args[0] if args else kwargs.get("dim")
        return a.view(_np.expand_dims(a.a, d))
    if name in ("view", "expand_as"):
        if name == "view":
            shp = args[0] if len(args) == 1 and isinstance(args[0], (tuple, list)) else args
            return _reshape(a, shp)
        raise Unsupported("tensor method " + name)
    if name == "permute":
        axes = args[0] if len(args) == 1 and isinstance(args[0], (tuple, list)) else args
        return a.view(_np.transpose(a.a, axes))
    if name == "t":
        return a.view(a.a.T)
    if name == "std":
        return np_std(ex, st, [a] + list(args), kwargs)
    if name == "trace":
        return np_trace(ex, st, [a] + list(args), kwargs)
    if name == "nonzero":
        return np_nonzero(ex, st, [a], {})
    if name == "sort":
        if args or kwargs:
            raise Unsupported("sort with options")
        srt = np_sort(ex, st, [a], {})
        for i, v in enumerate(srt.flat()):
            a.a[i] = v
        st.log.append(("arr", id(a)))
        return None
    if name == "argsort":
        return np_argsort(ex, st, [a] + list(args), kwargs)
    if name == "round":
        raise Unsupported("ndarray.round")
    if name == "numpy":
        return SArr(a.a, a.kind, None)
    if name == "dim":
        return a.ndim
    if name == "fill":
        for pos in itertools.product(*[range(s) for s in a.shape]):
            a.a[pos] = L.to_kind(args[0], a.kind)
        return None
    raise Unsupported("ndarray method " + name)


# ----------------------------------------------------------------------------
# builtins
# ----------------------------------------------------------------------------


def call_builtin(ex, st, name, args, kwargs, node):
    sx = _sx()
    if name == "noop":
        return None
    if name == "len":
        v = args[0]
        if isinstance(v, (list, tuple, dict, str)):
            return len(v)
        if isinstance(v, SArr):
            if v.ndim == 0:
                ex.ctx.obligation("no-raise:TypeError(len of 0-d)", False)
                raise sx.PathDead("len")
            return v.shape[0]
        if isinstance(v, sx.RangeVal):
            return len(v)
        if hasattr(v, "length"):
            return v.length(ex, st)
        raise Unsupported("len of %r" % (v,))
    if name == "range":
        cs = []
        for a in args:
            c = V.conc(a) if not isinstance(a, int) else a
            if isinstance(c, int):
                cs.append(c)
            else:
                cs.append(a)
        if len(cs) == 1:
            return sx.RangeVal(0, cs[0], 1)
        if len(cs) == 2:
            return sx.RangeVal(cs[0], cs[1], 1)
        return sx.RangeVal(cs[0], cs[1], cs[2])
    if name == "zip":
        for a in args:
            if hasattr(a, "symbolic_for"):
                return ZipVal(args)
        seqs = [ex.iter_concrete(a) for a in args]
        return [tuple(t) for t in zip(*seqs)]
    if name == "enumerate":
        if hasattr(args[0], "symbolic_for"):
            return EnumVal(args[0])
        return [(i, x) for i, x in enumerate(ex.iter_concrete(args[0]))]
    if name == "list":
        if not args:
            return []
        if hasattr(args[0], "to_list"):
            return args[0].to_list(ex, st)
        return list(ex.iter_concrete(args[0]))
    if name == "tuple":
        return tuple(ex.iter_concrete(args[0])) if args else ()
    if name == "set":
        if ex.setmode:
            from . import setmode

            if not args:
                return setmode.SSet(z3.EmptySet(z3.IntSort()), ex.ctx, "set")
            if isinstance(args[0], setmode.SSet):
                return setmode.SSet(args[0].mem, ex.ctx, args[0].name + "_c")
            if isinstance(args[0], setmode.SSeq):
                return setmode.SSet(args[0].mem, ex.ctx, args[0].name + "_s")
            if isinstance(args[0], sx.RangeVal):
                lo, hi = args[0].lo, args[0].hi
                e = z3.Int("e!q")
                m = setmode.fresh_const(ex.ctx, "range", setmode.SETSORT)
                st.pc.append(z3.ForAll([e], z3.Select(m, e) == z3.And(V.Z(lo) <= e, e < V.Z(hi))))
                return setmode.SSet(m, ex.ctx, "range")
        # concrete sets of known small integers (index bookkeeping)
        items = ex.iter_concrete(args[0]) if args else []
        vals = []
        for x in items:
            c = V.conc(x) if not isinstance(x, int) else x
            if not isinstance(c, int) or isinstance(c, bool):
                raise Unsupported("set() of symbolic values outside the set-level mode")
            vals.append(c)
        return ConcSet(vals)
    if name == "dict":
        return dict(**kwargs)
    if name in ("max", "min"):
        f = V.smax if name == "max" else V.smin
        items = list(args) if len(args) > 1 else ex.iter_concrete(args[0])
        if hasattr(args[0], "pymax") and len(args) == 1:
            return args[0].pymax(ex, st, name)
        if not items:
            ex.ctx.obligation("no-raise:ValueError(%s of empty)" % name, False)
            raise sx.PathDead(name)
        acc = items[0]
        for x in items[1:]:
            if isinstance(acc, SArr) or isinstance(x, SArr):
                # python max on arrays of size 1
                xa = x.flat()[0] if isinstance(x, SArr) and x.size == 1 else x
                aa = acc.flat()[0] if isinstance(acc, SArr) and acc.size == 1 else acc
                if isinstance(xa, SArr) or isinstance(aa, SArr):
                    raise Unsupported("python max/min on arrays")
                # python: max(a, x) returns x only if x > a
                c = V.gt(xa, aa) if name == "max" else V.lt(xa, aa)
                acc = V.ite(c, xa, aa)
            else:
                c = V.gt(x, acc) if name == "max" else V.lt(x, acc)
                acc = V.ite(c, x, acc)
        return acc
    if name == "sum":
        items = ex.iter_concrete(args[0])
        acc = args[1] if len(args) > 1 else 0
        for x in items:
            acc = L.binop("add", acc, x)
        return acc
    if name == "abs":
        return L.unary("abs", args[0])
    if name == "int":
        v = args[0]
        if isinstance(v, SArr):
            v = v.flat()[0] if v.size == 1 else None
        r = _astype(L.as_arr(v), "i").flat()[0]
        return r
    if name == "float":
        v = args[0]
        if isinstance(v, SArr) and v.size == 1:
            v = v.flat()[0]
        return V.R(v) if isz(v) else Fraction(v)
    if name == "bool":
        return ex.truth(args[0])
    if name == "str":
        return PlaceholderStr()
    if name == "print":
        return None
    if name == "isinstance":
        return do_isinstance(ex, args[0], args[1])
    if name == "hasattr":
        return do_hasattr(ex, st, args[0], args[1])
    if name == "getattr":
        if len(args) == 3:
            if args[0] is None:
                return args[2]
            try:
                r = ex.getattr(args[0], args[1], st, node)
            except (sx.AttrMissing, AttributeError):
                return args[2]
            return sx.Paths(r)
        r = ex.getattr(args[0], args[1], st, node)
        return sx.Paths(r)
    if name == "map":
        fn = args[0]
        items = ex.iter_concrete(args[1])
        out = []
        for it in items:
            r = ex.call(fn, [it], {}, st, node)
            if len(r) != 1 or isinstance(r[0][1], Abort):
                raise Unsupported("forking map()")
            out.append(r[0][1])
        return out
    if name == "super":
        fr = st.frame
        selfv = fr.locals.get("self")
        if fr.cls is None or selfv is None:
            raise Unsupported("super() outside a method")
        return sx.SuperProxy(fr.cls, selfv)
    if name == "any" or name == "all":
        items = ex.iter_concrete(args[0])
        acc = name == "all"
        for x in items:
            t = ex.truth(x)
            acc = V.land(acc, t) if name == "all" else V.lor(acc, t)
        return acc
    if name == "sorted" or name == "reversed":
        if name == "sorted" and hasattr(args[0], "to_sorted_list") and not kwargs:
            return args[0].to_sorted_list(ex, st)
        items = ex.iter_concrete(args[0])
        if name == "reversed":
            return list(reversed(items))
        if all(isinstance(x, int) for x in items):
            return sorted(items)
        raise Unsupported("sorted on symbolic values")
    if name == "round":
        raise Unsupported("round()")
    raise Unsupported("builtin " + name)


def do_isinstance(ex, v, t):
    sx = _sx()
    if isinstance(t, tuple):
        r = False
        for x in t:
            r = V.lor(r, do_isinstance(ex, v, x))
        return r
    if isinstance(t, sx.Builtin):
        if t.name == "int":
            return V.is_int(v) and not V.is_bool(v)
        if t.name == "float":
            return V.is_real(v)
        if t.name == "bool":
            return V.is_bool(v)
        if t.name == "list":
            return isinstance(v, list)
        if t.name == "tuple":
            return isinstance(v, tuple)
        if t.name == "str":
            return isinstance(v, (str, PlaceholderStr))
        if t.name == "dict":
            return isinstance(v, dict)
        if t.name == "set":
            return hasattr(v, "is_set")
    if isinstance(t, sx.LibRef):
        if t.dotted == "numpy.ndarray":
            return isinstance(v, SArr) and v.origin != "torch"
        if t.dotted == "torch.Tensor":
            return isinstance(v, SArr) and v.origin == "torch"
        if hasattr(v, "lib_isinstance"):
            return v.lib_isinstance(t.dotted)
        return False
    if isinstance(t, sx.ClassRef):
        if isinstance(v, SObj):
            if isinstance(v.cls, sx.ClassRef):
                return t.name in v.cls.mro_names()
            return v.cls == t.name or t.name in getattr(v, "mro", ())
        if isinstance(v, Opaque):
            return t.name in v.attrs.get("__mro__", ())
        return False
    raise Unsupported("isinstance against %r" % (t,))


def do_hasattr(ex, st, v, name):
    sx = _sx()
    if isinstance(v, SObj):
        if name in v.fields:
            return True
        if isinstance(v.cls, sx.ClassRef):
            from . import extract

            if extract.find_method(v.cls.module, v.cls.node, name) is not None:
                return True
            if extract.find_class_attr(v.cls.module, v.cls.node, name) is not None:
                return True
        return False
    if isinstance(v, Opaque):
        return name in v.attrs
    raise Unsupported("hasattr on %r" % (v,))


class ConcSet:
    """A Python set of known small non-negative integers (iteration order: increasing, as CPython's)."""

    def __init__(self, vals):
        self.vals = sorted(set(vals))
        L.used("set of small non-negative ints iterates in increasing order (CPython)")

    def binop(self, ex, st, op, a, b):
        if not (isinstance(a, ConcSet) and isinstance(b, ConcSet)):
            raise Unsupported("set operation with a non-set")
        if isinstance(op, ast.Sub):
            return ConcSet([x for x in a.vals if x not in b.vals])
        if isinstance(op, ast.BitOr):
            return ConcSet(a.vals + b.vals)
        if isinstance(op, ast.BitAnd):
            return ConcSet([x for x in a.vals if x in b.vals])
        raise Unsupported("set operator")

    def iter_concrete(self):
        return list(self.vals)

    def length(self, ex, st):
        return len(self.vals)

    def truth(self):
        return len(self.vals) > 0

    is_set = True

    def getattr(self, ex, st, name):
        if name in ("add", "remove", "discard", "union", "difference", "intersection", "copy", "update", "difference_update",
                    "intersection_update", "issubset", "issuperset", "isdisjoint", "clear"):
            return _sx().BoundLib(self, name)
        raise Unsupported("set attribute " + name)

    def _ints(self, ex, other):
        if isinstance(other, ConcSet):
            return list(other.vals)
        out = []
        for x in ex.iter_concrete(other):
            c = V.conc(x) if not isinstance(x, int) else x
            if not isinstance(c, int) or isinstance(c, bool):
                raise Unsupported("set operation with a symbolic element outside the set-level mode")
            out.append(c)
        return out

    def method(self, ex, st, name, args):
        """Concrete sets are MUTABLE objects (aliasing is Python's own: the same ConcSet object is shared)."""
        if name in ("add", "remove", "discard"):
            x = args[0]
            c = V.conc(x) if not isinstance(x, int) else x
            if not isinstance(c, int) or isinstance(c, bool):
                raise Unsupported("set.%s of a symbolic element outside the set-level mode" % name)
            if name == "add":
                self.vals = sorted(set(self.vals) | {c})
            elif name == "remove":
                if c not in self.vals:
                    ex.ctx.obligation("no-raise:KeyError(set.remove)", False)
                    raise _sx().PathDead("KeyError")
                self.vals = [v for v in self.vals if v != c]
            else:
                self.vals = [v for v in self.vals if v != c]
            st.log.append(("list", id(self)))
            return None
        if name in ("union", "difference", "intersection"):
            r = set(self.vals)
            for o in args:
                ov = set(self._ints(ex, o))
                r = (r | ov) if name == "union" else ((r - ov) if name == "difference" else (r & ov))
            return ConcSet(r)
        if name in ("update", "difference_update", "intersection_update", "clear"):
            r = set() if name == "clear" else set(self.vals)
            for o in args:
                ov = set(self._ints(ex, o))
                r = (r | ov) if name == "update" else ((r - ov) if name == "difference_update" else (r & ov))
            self.vals = sorted(r)
            st.log.append(("list", id(self)))
            return None
        if name == "copy":
            return ConcSet(self.vals)
        if name in ("issubset", "issuperset", "isdisjoint"):
            ov = set(self._ints(ex, args[0]))
            me = set(self.vals)
            return (me <= ov) if name == "issubset" else ((me >= ov) if name == "issuperset" else not (me & ov))
        raise Unsupported("set method " + name)

    def contains(self, ex, st, item):
        c = V.conc(item) if not isinstance(item, int) else item
        if isinstance(c, int):
            return c in self.vals
        r = False
        for x in self.vals:
            r = V.lor(r, V.eq(item, x))
        return r

    def to_list(self, ex, st):
        return list(self.vals)

    def clone(self, memo):
        return ConcSet(self.vals)   # (sharing between aliases is preserved by clone_val's memo)


class EnumVal:
    """enumerate(x) over a symbolically-sized iterable (handled by loop summarisation)."""

    def __init__(self, inner):
        self.inner = inner

    def symbolic_for(self, ex, st, stmt):
        return self.inner.symbolic_for(ex, st, stmt, enumerate_=True)

    def clone(self, memo):
        from .symexec import clone_val

        return EnumVal(clone_val(self.inner, memo))


class ZipVal:
    def __init__(self, parts):
        self.parts = list(parts)

    def symbolic_for(self, ex, st, stmt):
        from . import setmode

        return setmode.zip_for(ex, st, stmt, self.parts)

    def clone(self, memo):
        from .symexec import clone_val

        return ZipVal([clone_val(p, memo) for p in self.parts])
